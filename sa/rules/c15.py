"""C15 — evo_traj applies its options in the documented order and exports the
result."""
from __future__ import annotations

from typing import Dict, List, Optional

from .. import terms as tm
from ..effects import Summaries, roots
from ..interp import Event, Interp, Result
from ..lib import arg_of, fmt, is_call_to, keyed_writes, sweep
from ..terms import T, const

EXPLANATION = """
Path analysis of evo.main_traj.run on the event log of the abstract
interpreter; every processing step is identified by its *resolved callee*
(PosePath3D.downsample, .motion_filter, trajectory.merge, the in-place
timestamp offset, sync.associate_trajectories, .align, .align_origin,
file_interface.load_transform + .transform, .project, the writers).
C15.1: program order of the steps equals the documented order (all events of
step k precede all events of step k+1; steps inside one loop body are ordered
within the body). C15.2: each step is control-dependent on its own option
(live condition folds to False when the option is off, not to False when on
— alone and together with every other processing option) and with every
processing option off no mutating step is reachable. C15.3:
flag wiring — each callee parameter receives the args attribute of the same
meaning; alignment uses the *associated* reference and the synchronised
estimate. C15.4: the reference trajectory object is only ever passed, as the
mutated receiver, to downsample / motion_filter / project (mutation summaries
from the effect analysis). C15.5: matrix-kind flow — a matrix loaded by
load_transform (validated with is_sim3, hence possibly Sim(3)) may only be
inverted through sim3_inverse or under an is_se3 guard. C15.6: exports run
after all processing steps, write each trajectory under its own file stem and
the reference under its own. C15.7: the merge step is a co-permutation (one
argsort of the concatenated stamps applied to positions, orientations and
stamps in their constructor roles; rule shared with C11.5).
"""
UNDECIDED = [
    "numerical equality of exported and expected trajectories (rests on "
    "C04/C08/C11 and library numerics)",
    "argparse-level option parsing (mutually exclusive groups etc.)",
]
TRUSTED = ["resolution of method callees by annotation or package-unique "
           "method name (reported in evidence)"]
ASSUMPTIONS = ["A1: run() is reached through entry_points with the parsed "
               "namespace as `args`"]
MANIFEST = dict(
    text="Decides, on the single CFG of evo_traj's run(), that the "
         "processing steps occur in the documented order on every path, "
         "that each is enabled exactly by its own option (so 2^k option "
         "combinations are covered as path properties of one graph rather "
         "than by running them), that flags reach the right parameters, "
         "that the reference is only down-sampled/filtered/projected, and "
         "that an inverted transform goes through the Sim(3)-correct "
         "inverse.",
    note="Callee identity relies on the engine's resolution (typed or "
         "package-unique method names). Numerical content of the steps is "
         "the subject of other properties.",
    technique="must-precede / control-dependence checks on the ordered "
              "event log with live conditions; argument provenance; "
              "matrix-kind dataflow; mutation summaries",
)
FLOORS = {"C15.1": 8, "C15.2": 10, "C15.3": 10, "C15.4": 3, "C15.5": 1,
          "C15.6": 4, "C15.8": 12, "C15.9": 10, "C15.10": 6}

RUN = "evo.main_traj.run"
TP = "evo.core.trajectory.PosePath3D."
STEPS = [   # documented order
    ("downsample", lambda e: _callee(e) == TP + "downsample"),
    ("motion_filter", lambda e: _callee(e) == TP + "motion_filter"),
    ("merge", lambda e: _callee(e) == "evo.core.trajectory.merge"),
    ("t_offset", lambda e: e.kind == "augassign" and _is_timestamps(
        e.data["target"])),
    ("associate", lambda e: _callee(e) ==
     "evo.core.sync.associate_trajectories"),
    ("align", lambda e: _callee(e) == TP + "align"),
    ("align_origin", lambda e: _callee(e) == TP + "align_origin"),
    ("transform", lambda e: _callee(e) == TP + "transform"),
    ("project", lambda e: _callee(e) == TP + "project"),
    ("export", lambda e: (_callee(e) or "").startswith(
        "evo.tools.file_interface.write_")),
]
OPTION_OF = {
    "downsample": ["downsample"], "motion_filter": ["motion_filter"],
    "merge": ["merge"], "t_offset": ["t_offset"],
    "associate": ["sync", "align", "correct_scale", "align_origin"],
    "align": ["align", "correct_scale"], "align_origin": ["align_origin"],
    "transform": ["transform_left", "transform_right"],
    "project": ["project_to_plane"],
}


def _callee(e: Event) -> Optional[str]:
    if e.kind != "call":
        return None
    return e.data.get("name")


def _is_timestamps(t: T) -> bool:
    return isinstance(t, T) and t.op == "attr" and t.args[1] == "timestamps"


def _args_attr(name: str) -> T:
    return tm.attr(tm.param("args"), name)


def _fold_opts(live: T, on: Dict[str, bool], default: Optional[bool]):
    """fold the live condition under an option assignment; the format atom
    (subcommand == 'kitti') is case-split (both cases evaluated)"""
    outs = []
    for kitti in (False, True):
        def assign(a: T):
            if a.op == "attr" and a.args[0] is tm.param("args"):
                if a.args[1] in on:
                    return on[a.args[1]]
                return default
            if a.op == "iter":
                return True
            if a.op == "cmp" and a.args[1] is _args_attr("subcommand") and \
                    tm.is_const(a.args[2], "kitti"):
                return kitti if a.args[0] == "Eq" else not kitti
            return None
        outs.append(tm.fold(live, assign))
    if outs[0] is False and outs[1] is False:
        return False
    if outs[0] is True and outs[1] is True:
        return True
    return None


def _bool_under(t: T, env: Dict[str, bool]):
    """truth value of a term over args.<option> flags, constants and
    boolean connectives for one assignment of the flags; None otherwise"""
    t = Interp.unname(t)
    if tm.is_const(t):
        v = tm.const_val(t)
        return bool(v) if isinstance(v, (bool, int, type(None))) else None
    if t.op == "attr" and t.args[0] is tm.param("args"):
        return env.get(t.args[1])
    if (t.op == "unop" and t.args[0] == "Not") or t.op == "not":
        v = _bool_under(t.args[-1], env)
        return None if v is None else not v
    if t.op == "boolop" or t.op in ("and", "or"):
        kind = t.args[0] if t.op == "boolop" else t.op.capitalize()
        parts = t.args[1] if t.op == "boolop" else t.args
        vs = [_bool_under(x, env) for x in parts]
        if None in vs:
            return None
        return all(vs) if kind == "And" else any(vs)
    if t.op == "ite":
        c_ = _bool_under(t.args[0], env)
        return None if c_ is None else _bool_under(
            t.args[1 if c_ else 2], env)
    if is_call_to(t, "builtins.bool") and len(t.args[1]) == 1:
        return _bool_under(t.args[1][0], env)
    return None


def _equal_under(live: T, got: T, want: T):
    """do two flag expressions agree wherever the call is reachable? True /
    False (they differ in a reachable world) / None (not evaluable)"""
    import itertools
    names = sorted({x.args[1] for t in (got, want) for x in t.walk()
                    if x.op == "attr" and x.args[0] is tm.param("args")})
    if not names or len(names) > 6:
        return None
    for bits in itertools.product((False, True), repeat=len(names)):
        env = dict(zip(names, bits))
        if _fold_opts(live, env, None) is False:
            continue
        a, b = _bool_under(got, env), _bool_under(want, env)
        if a is None or b is None:
            return None
        if a != b:
            return False
    return True


class _LiveView:
    """an event seen under another path condition (the disjunction over
    the alternative call sites of a step)"""

    def __init__(self, e, live):
        self._e, self.live = e, live

    def __getattr__(self, k):
        return getattr(self._e, k)


def check(ctx):
    prog = ctx.prog
    f = prog.func(RUN)
    ctx.analysed_fn(RUN)
    res = Interp(prog).run(f)
    ctx.analysed["call_sites"] = len(res.of_kind("call"))
    ctx.analysed["resolution"] = dict(res.interp.stats)
    step_events: Dict[str, List[Event]] = {}
    for name, pred in STEPS:
        step_events[name] = [e for e in res.events if pred(e)]
        ctx.require(bool(step_events[name]),
                    f"step `{name}` not found in {RUN} (anchor vanished / "
                    f"unknown idiom)")

    # --------------------------------------------------------------- C15.1
    order = [n for n, _ in STEPS]
    for a, b in zip(order, order[1:]):
        ea, eb = step_events[a], step_events[b]
        ok = max(e.idx for e in ea) < min(e.idx for e in eb)
        # steps sharing a loop body: order inside the body is program order,
        # and iteration k+1 of `a` after iteration k of `b` is the documented
        # per-trajectory pipeline (associate -> align -> align_origin)
        shared = set(l for e in ea for l in e.loops) & \
            set(l for e in eb for l in e.loops)
        if shared and not {a, b} <= {"associate", "align", "align_origin"}:
            ok = False
        ctx.ob("C15.1", eb[0], ok,
               f"`{a}` precedes `{b}` on every path" if ok else
               f"documented order violated: `{b}` at {eb[0].where} is not "
               f"after `{a}` at {ea[-1].where}",
               key=f"C15.1:{a}<{b}",
               a_sites=[e.where for e in ea], b_sites=[e.where for e in eb])
    # the loaded transform is (optionally inverted and) applied after
    # alignment and before projection
    lt = res.calls("evo.tools.file_interface.load_transform")
    ctx.require(len(lt) == 1, "load_transform call not found")

    # --------------------------------------------------------------- C15.2
    all_opts = sorted({o for v in OPTION_OF.values() for o in v})
    for name, opts in OPTION_OF.items():
        # several call sites of one step on the same object (one per branch
        # of an if / elif over the options) are alternatives: the step runs
        # where any of them runs
        groups: dict = {}
        for e in step_events[name]:
            b_ = e.data.get("bound") or {}
            subj = b_.get("traj") if "traj" in b_ else e.data.get("recv")
            groups.setdefault(id(subj) if e.kind == "call" else id(e),
                              []).append(e)
        for e in step_events[name]:
            b_ = e.data.get("bound") or {}
            subj = b_.get("traj") if "traj" in b_ else e.data.get("recv")
            grp = groups[id(subj) if e.kind == "call" else id(e)]
            elive = e.live
            e_own = e
            if len(grp) > 1:
                if e is not grp[0]:
                    # judged once per group, with the first site
                    off = _fold_opts(e.live, {o: False for o in opts}, None)
                    ctx.ob("C15.2", e, off is False,
                           f"`{name}` at {e.where} is disabled when "
                           f"{'/'.join('--' + o for o in opts)} is not given"
                           if off is False else
                           f"`{name}` at {e.where} can run although "
                           f"{'/'.join('--' + o for o in opts)} is not "
                           f"given", key=f"C15.2:{name}:needs-own-option",
                           live=fmt(e.live))
                    continue
                elive = tm.mk_or(*[x.live for x in grp])
            e = _LiveView(e_own, elive)
            off = _fold_opts(e_own.live, {o: False for o in opts}, None)
            ctx.ob("C15.2", e, off is False,
                   f"`{name}` at {e.where} is disabled when "
                   f"{'/'.join('--' + o for o in opts)} is not given"
                   if off is False else
                   f"`{name}` at {e.where} can run although "
                   f"{'/'.join('--' + o for o in opts)} is not given",
                   key=f"C15.2:{name}:needs-own-option", live=fmt(e.live))
            for o in opts:
                if name == "associate" or len(opts) == 1 or \
                        name in ("align", "transform"):
                    # this option alone (plus a reference) is enough
                    only = {x: False for x in all_opts}
                    only.update({o: True, "ref": True})
                    on = _fold_opts(e.live, only, None)
                    # data-dependent conditions stay unknown -> None is fine
                    ctx.ob("C15.2", e, on is not False,
                           f"`{name}` reachable with --{o} alone"
                           if on is not False else
                           f"`{name}` at {e.where} does not run with --{o} "
                           f"(and --ref) alone: it needs further options or "
                           f"is dead", key=f"C15.2:{name}:enabled-by:{o}",
                           live=fmt(e.live))
            # no *other* processing option can disable it
            others = {o: False for o in all_opts if o not in opts}
            others.update({o: True for o in opts})
            alone = _fold_opts(e.live, others, None)
            ctx.ob("C15.2", e, alone is not False,
                   f"`{name}` does not depend on unrelated options"
                   if alone is not False else
                   f"`{name}` at {e.where} is switched off unless an "
                   f"unrelated option is given", key=f"C15.2:{name}:alone",
                   live=fmt(e.live))
            # ... and none can switch it off: the property quantifies over
            # all 2^k option combinations
            # (--merge is refused for index-based input by evo_traj itself,
            # so it is left open unless it is the step's own option)
            every = {o: True for o in all_opts
                     if o != "merge" or o in opts}
            together = _fold_opts(e.live, every, None)
            ctx.ob("C15.2", e, together is not False,
                   f"`{name}` also runs when every other processing option "
                   f"is given as well" if together is not False else
                   f"`{name}` at {e.where} is skipped when other processing "
                   f"options are given too ({fmt(e.live)[:100]}): a "
                   f"requested step is silently not applied",
                   key=f"C15.2:{name}:with-others", live=fmt(e.live))
            # ... and no test of the *data* may skip it while the run goes
            # on to the export (a refusal that terminates is something
            # else): "nothing to do for a single trajectory" shortcuts
            exports = [x for x in step_events["export"] if x.idx > e.idx]
            args_p = tm.param("args")
            ref_terms = [tm.sub(ev.data["result"], const(1)) for ev in
                         res.calls("evo.main_traj.load_trajectories")]
            for a in tm.atoms(e.live):
                if a.op == "iter" or any(
                        x.op == "attr" and x.args[0] is args_p
                        for x in a.walk()):
                    continue
                if any(a is r_ or (a.op == "cmp" and a.args[1] is r_ and
                                   a.args[2] is tm.NONE) for r_ in ref_terms):
                    continue      # "a reference was given" (--ref)
                # a test on which a termination (die / exit / raise) depends
                # is a refusal of the input, not a silent skip
                stops = [x for x in res.events if x.idx < e.idx and (
                    x.kind == "raise" or (x.kind == "call" and (
                        x.data.get("name") or "").split(".")[-1] in
                        ("die", "exit", "_exit")))]
                if any(any(y is a for y in tm.atoms(x.live)) for x in stops):
                    continue
                for val in (True, False):
                    def world(live, a=a, val=val):
                        outs = []
                        for kitti in (False, True):
                            def assign(t, kitti=kitti):
                                if t is a:
                                    return val
                                if t.op == "attr" and t.args[0] is args_p:
                                    return every.get(t.args[1])
                                if t.op == "iter":
                                    return True
                                if t.op == "cmp" and t.args[1] is \
                                        _args_attr("subcommand") and \
                                        tm.is_const(t.args[2], "kitti"):
                                    return kitti if t.args[0] == "Eq" \
                                        else not kitti
                                return None
                            outs.append(tm.fold(live, assign))
                        return outs
                    mine = world(e.live)
                    skipped = [k for k in (0, 1) if mine[k] is False and any(
                        world(x.live)[k] is not False for x in exports)]
                    if skipped:
                        ctx.ob("C15.2", e, False,
                               f"`{name}` at {e.where} is skipped when "
                               f"{fmt(a)[:80]} is {val} although "
                               f"{'/'.join('--' + o for o in opts)} is given "
                               f"and the run continues to the export: the "
                               f"requested step is silently not applied",
                               key=f"C15.2:{name}:data-skip")
                        break
    # nothing mutating without options
    for name in OPTION_OF:
        for e in step_events[name]:
            none_on = _fold_opts(e.live, {o: False for o in all_opts}, None)
            ctx.ob("C15.2", e, none_on is False,
                   f"without processing options `{name}` is unreachable "
                   f"(export equals input)" if none_on is False else
                   f"`{name}` at {e.where} reachable with all processing "
                   f"options off", key=f"C15.2:{name}:off-by-default")

    # --------------------------------------------------------------- C15.3
    A = _args_attr

    def _kitti_test(a: T):
        if a.op == "not":
            a = a.args[0]
        return a.op == "cmp" and a.args[0] in ("Eq", "NotEq") and \
            tm.is_const(a.args[2], "kitti")

    def timed(t: T) -> T:
        """the value for the timestamped formats (tum / euroc / bag), which
        are the ones that go through the documented association step; the
        index-based kitti branch is judged separately"""
        def sel(a):
            if not _kitti_test(a):
                return None
            if a.op == "not":
                return not (a.args[0].args[0] == "NotEq")
            return a.args[0] == "NotEq"
        return tm.select(t, sel)

    def wired(rule_key, e, pname, want: T, what):
        b = e.data.get("bound") or {}
        got = b.get(pname)
        ok = got is want or (got is not None and timed(got) is want)
        if not ok and got is not None and \
                _equal_under(e.live, got, want) is True:
            ok = True     # the same flag value wherever this site is reached
        ctx.ob("C15.3", e, ok,
               f"{what}: {pname} <- {fmt(want)}" if ok else
               f"{what}: parameter `{pname}` receives {fmt(got)}, expected "
               f"{fmt(want)}", key=f"C15.3:{rule_key}:{pname}")
    for e in step_events["downsample"]:
        wired("downsample", e, "num_poses", A("downsample"), "downsample")
    # motion filter: decided end to end (see lib.motion_filter_probe) — for
    # every call, of the given trajectories and of the reference, the filter
    # compares the path with args.motion_filter[0] and the rotation angle
    # with args.motion_filter[1] taken as degrees, whatever the signatures
    import math
    from ..lib import motion_filter_probe, PROBE_DIST, PROBE_ANGLE_DEG
    mf = A("motion_filter")
    probe = motion_filter_probe(
        prog, f, lambda e: _callee(e) == TP + "motion_filter",
        tm.sub(mf, const(0)), tm.sub(mf, const(1)))
    for k, (e, d_, a_) in enumerate(probe):
        if d_ is None or a_ is None:
            ctx.undecidable("C15.3", e, "motion_filter: thresholds compared "
                            "inside the filter not found / not evaluable "
                            "(unknown idiom)")
            continue
        okd = abs(d_ - PROBE_DIST) < 1e-12
        oka = abs(a_ - math.radians(PROBE_ANGLE_DEG)) < 1e-12
        ctx.ob("C15.3", e, okd,
               "motion_filter: distance_threshold <- args.motion_filter[0] "
               "(meters)" if okd else
               f"motion_filter: for `--motion_filter 2 3` the path is "
               f"compared with {d_:g} m", key="C15.3:motion_filter:"
               "distance_threshold")
        ctx.ob("C15.3", e, oka,
               "motion_filter: angle_threshold <- args.motion_filter[1], "
               "converted from degrees exactly once" if oka else
               f"motion_filter: for `--motion_filter 2 3` the filter behind "
               f"{fmt(e.data.get('recv'))[:50]}.motion_filter compares the "
               f"rotation angle with {a_:.6g} rad — expected "
               f"{math.radians(PROBE_ANGLE_DEG):.6g} rad (3 degrees)",
               key="C15.3:motion_filter:degrees")
    for e in step_events["t_offset"]:
        ok = e.data["value"] is A("t_offset") and e.data["op"] == "Add"
        ctx.ob("C15.3", e, ok, "time offset: timestamps += args.t_offset"
               if ok else f"time offset adds {fmt(e.data['value'])} with "
               f"{e.data['op']}", key="C15.3:t_offset:value")
    assoc = step_events["associate"]
    ctx.require(len(assoc) == 1, "expected one associate_trajectories call")
    ae = assoc[0]
    ref_traj = None
    for ev in res.calls("evo.main_traj.load_trajectories"):
        ref_traj = tm.sub(ev.data["result"], const(1))
    ctx.require(ref_traj is not None, "load_trajectories call not found")
    wired("associate", ae, "traj_1", ref_traj,
          "association (reference first)")
    wired("associate", ae, "max_diff", A("t_max_diff"), "association")
    b = ae.data["bound"] or {}
    t2 = b.get("traj_2")
    ok = t2 is not None and t2.op == "sub" and t2.args[0].op == "elem" and \
        tm.is_const(t2.args[1], 1)
    ctx.ob("C15.3", ae, ok,
           "association: second argument is the current trajectory of the "
           "loop" if ok else f"association: traj_2 is {fmt(t2)}",
           key="C15.3:associate:traj_2")
    ok = "offset_2" not in b
    ctx.ob("C15.3", ae, ok,
           "association: no second time offset (already applied to the "
           "timestamps)" if ok else
           "association applies the time offset a second time",
           key="C15.3:associate:no-double-offset")
    synced_ref = tm.sub(ae.data["result"], const(0))
    synced_est = tm.sub(ae.data["result"], const(1))
    for e in step_events["align"] + step_events["align_origin"]:
        nm = "align" if e in step_events["align"] else "align_origin"
        bb = e.data["bound"] or {}
        ref = bb.get("traj_ref")
        alts = tm.strip_ite(ref) if ref is not None else []

        def plain_ref(a: T) -> bool:
            # the reference itself or a private copy of it
            while is_call_to(a, "copy.deepcopy", "copy.copy") and \
                    len(a.args[1]) == 1:
                a = a.args[1][0]
            return a is ref_traj
        ok = ref is not None and synced_ref in alts and \
            all(a is synced_ref or plain_ref(a) for a in alts) and \
            (len(alts) == 1 or (
                ref.op == "ite" and _kitti_test(ref.args[0]) and
                timed(ref) is synced_ref))
        ctx.ob("C15.3", e, ok,
               f"{nm}: aligned to the *associated* reference (the full "
               f"reference only in the index-based kitti case)" if ok else
               f"{nm}: reference argument is {fmt(ref)} — not the "
               f"time-associated reference, pose pairs do not correspond",
               key=f"C15.3:{nm}:traj_ref", ref=fmt(ref))
        recv = e.data.get("recv")
        ralts = tm.strip_ite(recv) if recv is not None else []
        if _only_kitti(e):
            # index-based format: no association, the loop's own trajectory
            ok = recv is not None and recv.op == "sub" and \
                recv.args[1] is t2.args[0].args[0].__class__ or \
                (recv is not None and recv.op == "sub" and
                 recv.args[1].op == "sub" and
                 recv.args[1].args[0] is t2.args[0])
        else:
            ok = recv is not None and any(a is synced_est for a in ralts)
        ctx.ob("C15.3", e, bool(ok),
               f"{nm}: applied to the synchronised estimate (kitti: the "
               f"loop's own trajectory)" if ok else
               f"{nm}: receiver is {fmt(recv)}", key=f"C15.3:{nm}:recv")
    for e in step_events["align"]:
        wired("align", e, "correct_scale", A("correct_scale"), "align")
        wired("align", e, "n", A("n_to_align"), "align")
        bb = e.data["bound"] or {}
        cos = bb.get("correct_only_scale")
        want = T("boolop", "And", (A("correct_scale"),
                                    T("unop", "Not", A("align"))))
        if cos is None and e.data.get("target") is not None:
            import ast as _ast
            d_ = e.data["target"].defaults().get("correct_only_scale")
            if isinstance(d_, _ast.Constant):
                cos = const(d_.value)     # not passed: the callee's default
        ok = cos is want or (cos is not None and
                             _equal_under(e.live, cos, want) is True)
        ctx.ob("C15.3", e, ok,
               "align: correct_only_scale <- correct_scale and not align"
               if ok else f"align: correct_only_scale is {fmt(cos)}",
               key="C15.3:align:correct_only_scale")
    lte = lt[0]
    path = lte.data["args"][0] if lte.data["args"] else None
    want = tm.ite(A("transform_left"), A("transform_left"),
                  A("transform_right"))
    ok = path is want or (
        # `left or right`: the first one that is given — the same choice
        path is not None and path.op == "boolop" and path.args[0] == "Or" and
        tuple(path.args[1]) == (A("transform_left"), A("transform_right")))
    ctx.ob("C15.3", lte, ok,
           "transform file: --transform_left if given else "
           "--transform_right" if ok else
           f"transform file path is {fmt(path)}", key="C15.3:transform:path")
    for e in step_events["transform"]:
        wired("transform", e, "right_mul", A("transform_right"), "transform")
        wired("transform", e, "propagate", A("propagate_transform"),
              "transform")
        bb = e.data["bound"] or {}
        tval = bb.get("t")
        ok = tval is not None and any(x is lte.data["result"]
                                      for x in tval.walk())
        ctx.ob("C15.3", e, ok, "transform: matrix is the loaded one "
               "(optionally inverted)" if ok else
               f"transform: matrix is {fmt(tval)}",
               key="C15.3:transform:matrix")
        # inverted iff --invert_transform
        if tval is not None and tval.op == "ite":
            c, a_, b_ = tval.args
            ok = c is A("invert_transform") and b_ is lte.data["result"] \
                and all(x.op == "call" and "inverse" in
                        (tm.callee_name(x) or "") and x.args[1] and
                        x.args[1][0] is lte.data["result"]
                        for x in tm.strip_ite(a_))
            ctx.ob("C15.3", e, ok,
                   "transform: inverse used iff --invert_transform" if ok
                   else f"transform matrix selection: {fmt(tval)}",
                   key="C15.3:transform:invert-flag")
    for e in step_events["project"]:
        bb = e.data["bound"] or {}
        pv = bb.get("plane")
        if pv is not None and pv.op == "ite":
            # `plane = Plane(opt) if opt else None` ... `if plane: project`:
            # the alternative this call site can be reached with
            lits = set(e.live.args) if e.live.op == "and" else {e.live}
            for _ in range(3):
                if pv.op != "ite":
                    break
                if pv.args[0] in lits or tm.is_const(pv.args[2], None):
                    pv = pv.args[1]
                elif tm.mk_not(pv.args[0]) in lits or \
                        tm.is_const(pv.args[1], None):
                    pv = pv.args[2]
                else:
                    break
        ok = pv is not None and pv.op == "call" and pv.args[1] and \
            pv.args[1][0] is A("project_to_plane")
        ctx.ob("C15.3", e, ok,
               "project: plane <- Plane(args.project_to_plane)" if ok else
               f"project: plane is {fmt(pv)}", key="C15.3:project:plane")

    # --------------------------------------------------------------- C15.4
    results = sweep(prog, "plain")
    S = Summaries(prog, results)
    allowed = {TP + "downsample", TP + "motion_filter", TP + "project"}
    touched = []
    for e in res.of_kind("call"):
        tgt = e.data.get("target")
        if tgt is None:
            continue
        bb = e.data.get("bound") or {}
        for pname in S.mutated_params(tgt.qualname):
            v = bb.get(pname)
            if v is None:
                continue
            if any(a is ref_traj or _may_iterate(a, ref_traj)
                   for a in tm.strip_ite(v)):
                touched.append((e, tgt.qualname, pname))
    for (e, q, pname) in touched:
        ok = q in allowed
        ctx.ob("C15.4", e, ok,
               f"reference is modified by {q.rsplit('.', 1)[1]} (allowed: "
               f"down-sampling, filtering, projection)" if ok else
               f"the reference trajectory itself is modified by {q} at "
               f"{e.where} (only down-sampling, motion filtering and "
               f"projection may touch it)", key=f"C15.4:ref-touched:{q}")
    def aliases(t, obj, depth=0):
        if t is obj:
            return True
        if depth > 12 or not isinstance(t, T):
            return False
        if t.op in ("attr", "sub", "elem", "upd", "mut"):
            return aliases(t.args[0], obj, depth + 1)
        if t.op == "ite":
            return aliases(t.args[1], obj, depth + 1) or \
                aliases(t.args[2], obj, depth + 1)
        if t.op in ("loopvar",):
            return aliases(t.args[2], obj, depth + 1)
        return False
    for e in res.of_kind("augassign", "setattr", "setitem"):
        tgt = e.data.get("target") or e.data.get("base")
        if tgt is not None and aliases(tgt, ref_traj):
            ctx.ob("C15.4", e, False,
                   f"the reference is modified in place at {e.where} "
                   f"({e.kind})", key=f"C15.4:ref-inplace:{e.kind}")
    ctx.ob("C15.4", f, len(touched) >= 3,
           "reference reaches exactly its three permitted mutators",
           key="C15.4:count", nontrivial=False,
           # (fewer *recognised* sites — a generator that yields the
           # reference among the trajectories — is no evidence of a missing
           # step: C15.9 decides who each step is applied to)
           evidence=False,
           sites=[f"{q}@{e.where}" for e, q, _ in touched])

    # --------------------------------------------------------------- C15.5
    loaded = lte.data["result"]
    n_inv = 0
    for e in res.of_kind("call"):
        n = e.data.get("name") or ""
        if not n.startswith("evo.core.lie_algebra.") or "inverse" not in n:
            continue
        a0 = e.data["args"][0] if e.data["args"] else None
        if a0 is None or not any(x is loaded for x in a0.walk()):
            continue
        n_inv += 1
        if n.endswith("sim3_inverse"):
            ok = True
        else:
            guard = [a for a in tm.atoms(e.live)
                     if a.op == "call" and (tm.callee_name(a) or "").endswith(
                         "lie_algebra.is_se3")]
            ok = any(tm.fold(e.live, lambda x: False if x is g else None)
                     is False for g in guard)
        ctx.ob("C15.5", e, ok,
               f"inversion of the loaded SE(3)/Sim(3) matrix uses "
               f"{n.rsplit('.', 1)[1]} (Sim(3)-correct)" if ok else
               f"{n.rsplit('.', 1)[1]} is applied to a matrix from "
               f"load_transform, which also accepts Sim(3): for scale != 1 "
               f"the result is not the inverse",
               key="C15.5:se3-inverse-on-sim3")
    if n_inv == 0:
        # the inversion may be delegated to the loader: load_transform(path,
        # invert=args.invert_transform)
        bl = lte.data.get("bound") or {}
        flag = [k for k, v in bl.items() if v is A("invert_transform")]
        if len(flag) == 1 and lte.data.get("target") is not None:
            n_inv = _delegated_inversion(ctx, prog, lte.data["target"],
                                         flag[0])
    ctx.require(n_inv >= 1, "--invert_transform handling not found")
    # load_transform indeed validates with is_sim3 (kind SIM3)
    rl = results["evo.tools.file_interface.load_transform"]
    ok = bool(rl.calls("evo.core.lie_algebra.is_sim3"))
    ctx.ob("C15.5", rl.func, ok,
           "load_transform validates with is_sim3 (kind: SE(3) or Sim(3))",
           key="C15.5:kind-source", nontrivial=False)

    ctx.section(_loading, ctx)
    ctx.section(_merge_step, ctx)
    ctx.section(_step_semantics, ctx)
    ctx.section(_subjects, ctx, f, res, step_events, ref_traj)

    # --------------------------------------------------------------- C15.6
    proc_last = max(e.idx for n in OPTION_OF for e in step_events[n])
    for e in step_events["export"]:
        if e.data["name"].endswith("write_bag_trajectory"):
            continue
        ok = e.idx > proc_last
        bb = e.data["bound"] or {}
        dest, traj = bb.get("file_path"), bb.get("traj")
        # (name, trajectory) pairs collected in a list beforehand and looped
        # over: the loop element is read through to the pair it stands for
        inst = _pair_instances(dest, traj) if dest is not None and \
            traj is not None else None
        if inst:
            for d_, t_ in inst:
                st_ = [x for x in d_.walk()
                       if is_call_to(x, "evo.main_traj.to_filestem")]
                okp = False
                if len(st_) == 1 and st_[0].args[1]:
                    key = st_[0].args[1][0]
                    if t_.op == "sub" and key.op == "sub" and \
                            t_.args[0] is key.args[0] and \
                            tm.is_const(key.args[1], 0) and \
                            tm.is_const(t_.args[1], 1):
                        okp = True
                    if key is A("ref") and any(x is ref_traj
                                               for x in t_.walk()):
                        okp = True
                ctx.ob("C15.6", e, ok and okp,
                       "export after all processing, trajectory under its "
                       "own name (pairs collected beforehand)"
                       if ok and okp else
                       f"export at {e.where}: file stem {fmt(d_)[:80]} does "
                       f"not belong to the written trajectory "
                       f"{fmt(t_)[:60]}", key="C15.6:export")
            continue
        stem = [x for x in (dest.walk() if dest is not None else [])
                if is_call_to(x, "evo.main_traj.to_filestem")]
        ok2 = False
        if len(stem) == 1 and traj is not None and stem[0].args[1]:
            key = stem[0].args[1][0]
            if traj.op == "sub" and key.op == "sub" and \
                    traj.args[0] is key.args[0] and \
                    tm.is_const(key.args[1], 0) and \
                    tm.is_const(traj.args[1], 1):
                ok2 = True       # (name, traj) of the same items() element
            if key is A("ref") and any(x is ref_traj for x in traj.walk()):
                ok2 = True
            if ok2 and traj.op == "sub" and traj.args[0].op == "elem":
                # one loop over a list of (name, trajectory) pairs to which
                # the reference was appended: the appended pair is an export
                # site of its own (it replaces the separate --ref export)
                extra = _appended_pairs(traj.args[0].args[0])
                for k_, v_ in extra or ():
                    okp = k_ is A("ref") and any(x is ref_traj
                                                 for x in v_.walk())
                    ctx.ob("C15.6", e, ok and okp,
                           "export after all processing, the reference "
                           "under the name given with --ref" if ok and okp
                           else f"export at {e.where}: the appended pair "
                                f"({fmt(k_)}, {fmt(v_)}) is not (--ref, "
                                f"reference trajectory)",
                           key="C15.6:export")
        ctx.ob("C15.6", e, ok and ok2,
               "export after all processing, trajectory under its own name"
               if ok and ok2 else
               f"export at {e.where}: "
               + ("runs before processing finished" if not ok else
                  f"file stem {fmt(dest)} does not belong to the written "
                  f"trajectory {fmt(traj)}"), key="C15.6:export")


def _pair_instances(dest: T, traj: T):
    """[(dest, traj)] with a loop element over a list of pairs — built by a
    comprehension, possibly with further pairs appended — replaced by each
    kind of pair the list holds; None if there is no such element"""
    els = [x for x in list(dest.walk()) + list(traj.walk())
           if x.op == "elem"]
    cands = []
    for x in els:
        L = Interp.unname(x.args[0])
        if L.op in ("comp", "mut", "ite") and not any(x is c for c in cands):
            cands.append(x)
    def go(c: T, depth=0):
        c = Interp.unname(c)
        if depth > 8:
            return
        if c.op == "ite":
            go(c.args[1], depth + 1)
            go(c.args[2], depth + 1)
        elif c.op == "mut" and c.args[1] == "append" and len(c.args[2]) == 1:
            go(c.args[0], depth + 1)
            p_ = Interp.unname(c.args[2][0])
            if p_.op == "tuple" and not any(p_ is k for k in kinds):
                kinds.append(p_)
        elif c.op == "comp" and c.args[0] == "list" and \
                len(c.args[2]) == 1 and not c.args[3] and \
                Interp.unname(c.args[1]).op == "tuple":
            if not any(c.args[1] is k for k in kinds):
                kinds.append(Interp.unname(c.args[1]))
        elif not (c.op == "list" and not c.args) and c.op != "undefined":
            # a part that is no literal pair (list(d.items()), a call ...):
            # the element is not read through, the items() rules judge it
            opaque.append(c)
    found = []
    for x in cands:
        kinds = []
        opaque = []
        go(x.args[0])
        if kinds and not opaque:
            found.append((x, kinds))
    # (the outermost such element: inner ones occur inside its pairs)
    found = [(x, k) for x, k in found if not any(
        x is not y and any(z is x for z in y.args[0].walk())
        for y, _ in found)]
    if len(found) != 1:
        return None
    el, kinds = found[0]

    def subst(t: T, pair: T) -> T:
        t = t.map(lambda x: pair if x is el else None)
        return t.map(lambda x: x.args[0].args[tm.const_val(x.args[1])] if (
            x.op == "sub" and x.args[0].op == "tuple" and
            tm.is_const(x.args[1]) and type(tm.const_val(x.args[1])) is int
            and 0 <= tm.const_val(x.args[1]) < len(x.args[0].args)) else None)
    return [(subst(dest, p_), subst(traj, p_)) for p_ in kinds]


def _appended_pairs(coll: T):
    """the literal (key, value) pairs appended to a list of items()"""
    out = []

    def go(c: T, depth=0):
        c = Interp.unname(c)
        if depth > 8:
            return
        if c.op == "ite":
            go(c.args[1], depth + 1)
            go(c.args[2], depth + 1)
        elif c.op == "mut" and c.args[1] == "append" and \
                len(c.args[2]) == 1:
            go(c.args[0], depth + 1)
            p_ = Interp.unname(c.args[2][0])
            if p_.op == "tuple" and len(p_.args) == 2 and \
                    not any(p_.args == q for q in out):
                out.append(p_.args)
    go(coll)
    return out


def _delegated_inversion(ctx, prog, loader, flag: str) -> int:
    """C15.5 where load_transform itself inverts on request: every kind of
    file must come back as the true inverse of what the loader returns
    without the flag — sim3_inverse of the loaded matrix, or, where the
    loader inverts in the (rotation, translation, scale) parametrisation of
    a JSON file, entry by entry the definition [[R^T / s, -R^T t / s],
    [0, 1]] of the forward matrix [[s R, t], [0, 1]] (polynomial entry
    algebra, sa/affine.py). Returns the number of inversion sites judged."""
    from ..affine import Aff, AffError, atom, f_add, mul, p_const, inverse, \
        show, f_scalar
    LIE = "evo.core.lie_algebra."
    r1 = Interp(prog).run(loader, {flag: const(True)})
    conds = []

    def atoms_of(c: T):
        # a condition can itself be a conditional value (`invert` re-bound
        # in one branch): its atoms are those of all three parts
        if c.op == "ite":
            for z in c.args:
                atoms_of(z)
        elif c.op in ("and", "or", "not"):
            for z in c.args:
                atoms_of(z)
        elif not tm.is_const(c) and not any(c is k for k in conds):
            conds.append(c)
    for x in r1.ret.walk():
        if x.op == "ite":
            atoms_of(x.args[0])
    if len(conds) > 4:
        ctx.undecidable("C15.5", loader, "load_transform(invert=True): too "
                        "many alternatives")
        return 1
    import itertools
    seen = set()
    n = 0
    for bits in itertools.product((True, False), repeat=len(conds)):
        env = dict(zip(map(id, conds), bits))

        def val(c: T):
            if tm.is_const(c):
                return bool(tm.const_val(c))
            if c.op == "ite":
                a_ = val(c.args[0])
                return None if a_ is None else val(c.args[1] if a_
                                                   else c.args[2])
            if c.op == "not":
                a_ = val(c.args[0])
                return None if a_ is None else not a_
            if c.op in ("and", "or"):
                vs = [val(z) for z in c.args]
                if None in vs:
                    return None
                return all(vs) if c.op == "and" else any(vs)
            return env.get(id(c))

        def sel(x: T):
            if x.op == "ite":
                v_ = val(x.args[0])
                if v_ is not None:
                    return x.args[1] if v_ else x.args[2]
            return None
        t = r1.ret
        for _ in range(6):
            t2 = t.map(sel)
            if t2 is t:
                break
            t = t2
        if id(t) in seen:
            continue
        seen.add(id(t))
        n += 1
        inner = t.args[1][0] if is_call_to(t, LIE + "sim3_inverse") and \
            t.args[1] else None
        js = [x for x in t.walk() if x.op == "call" and (
            tm.callee_name(x) or "").endswith("load_transform_json")]
        js_inv = [x for x in js if any(
            tm.is_const(v, True) for _, v in x.args[2]) or (
            len(x.args[1]) > 1 and tm.is_const(x.args[1][1], True))]
        if inner is not None and not js_inv:
            ctx.ob("C15.5", loader, True,
                   f"load_transform(invert=True): "
                   f"sim3_inverse({fmt(inner)[:50]})",
                   key=f"C15.5:delegated:{n}")
        elif inner is not None and js_inv:
            ctx.ob("C15.5", loader, False,
                   "load_transform(invert=True): a JSON transform is "
                   "inverted by its loader *and* by sim3_inverse — the "
                   "result is the original transformation",
                   key=f"C15.5:delegated:{n}")
        elif js_inv and t is js_inv[0]:
            _json_inverse(ctx, prog, js_inv[0], n)
        elif is_call_to(t, LIE + "se3_inverse"):
            ctx.ob("C15.5", loader, False,
                   "load_transform(invert=True) uses se3_inverse on a matrix "
                   "that may be Sim(3): for scale != 1 the result is not "
                   "the inverse", key=f"C15.5:delegated:{n}")
        else:
            ctx.ob("C15.5", loader, False,
                   f"load_transform(invert=True) can return "
                   f"{fmt(t)[:80]} — not inverted",
                   key=f"C15.5:delegated:{n}")
    return max(n, 1)


def _json_inverse(ctx, prog, call: T, n: int):
    from ..affine import Aff, AffError, atom, f_add, mul, p_const, inverse, \
        show
    from ..lib import strip_asarray
    LIE = "evo.core.lie_algebra."
    g = prog.functions.get(tm.callee_name(call))
    if g is None:
        ctx.undecidable("C15.5", call, "JSON loader not resolved")
        return
    inv_name = [k for k, v in call.args[2] if tm.is_const(v, True)]
    inv_name = inv_name[0] if inv_name else g.params[1]
    inl = lambda fn: fn.module.name == "evo.core.lie_algebra" and \
        fn.name in ("sim3", "se3", "so3_from_se3")
    runs = {}
    for val in (False, True):
        rr = Interp(prog, inline=inl, max_depth=3,
                    assume=lambda a_: False if is_call_to(
                        a_, "builtins.hasattr") else None).run(
            g, {inv_name: const(val)})
        runs[val] = strip_asarray(rr.ret)
    # sources: the rotation matrix of the stored quaternion (opaque), the
    # stored numbers
    qm = [x for x in runs[False].walk() if x.op == "call" and (
        tm.callee_name(x) or "").endswith("quaternion_matrix")]
    if not qm:
        ctx.undecidable("C15.5", g, "JSON loader: rotation source not found")
        return
    data_reads = {}
    for val in (False, True):
        for x in runs[val].walk():
            if x.op == "sub" and tm.is_const(x.args[1]) and isinstance(
                    x.args[1].args[1], str) and x.args[1].args[1] in (
                    "x", "y", "z", "scale"):
                data_reads[x] = x.args[1].args[1]
    has_scale = [x for v in runs.values() for x in v.walk()
                 if x.op == "cmp" and x.args[0] in ("In", "NotIn") and
                 tm.is_const(x.args[1], "scale")]
    bad = unknown = None
    for with_scale in (True, False):
        def pick(t_):
            return tm.deep_select(t_, lambda a_: (
                (a_.args[0] == "In") == with_scale) if any(
                a_ is h for h in has_scale) else None)
        fwd, inv = pick(runs[False]), pick(runs[True])
        aff = Aff({qm[0]: ("R", [(4,), (4,)])}, dict(data_reads), [], {},
                  unname=Interp.unname)
        try:
            F = [[aff.entry_at(fwd, [(i,), (j,)]) for j in range(4)]
                 for i in range(4)]
            G = [[aff.entry_at(inv, [(i,), (j,)]) for j in range(4)]
                 for i in range(4)]
        except AffError as ex:
            unknown = str(ex)
            continue
        s_poly = atom(("s", "scale")) if with_scale else p_const(1)
        k = mul(inverse(s_poly), inverse(s_poly))
        for i in range(4):
            for j in range(4):
                if i == 3:
                    exp = p_const(1 if j == 3 else 0)
                elif j < 3:
                    exp = mul(k, F[j][i])
                else:
                    tot = {}
                    for m_ in range(3):
                        tot = f_add(tot, mul(F[m_][i], F[m_][3]))
                    exp = f_add({}, mul(k, tot), -1.0)
                if G[i][j] != exp and bad is None:
                    bad = (f"entry ({i}, {j}) of the inverted JSON "
                           f"transform is {show(G[i][j])[:100]}, the "
                           f"inverse of the stored transformation has "
                           f"{show(exp)[:100]}"
                           f"{'' if with_scale else ' (file without scale)'}")
    if bad is None and unknown is not None:
        ctx.undecidable("C15.5", g, f"JSON loader inversion: {unknown}")
        return
    ctx.ob("C15.5", g, bad is None,
           "load_transform_json(invert=True) is, entry by entry, the inverse "
           "[[R^T / s, -R^T t / s], [0, 1]] of the transformation it returns "
           "without the flag" if bad is None else
           f"load_transform_json(invert=True) is not the inverse: {bad}",
           key=f"C15.5:delegated:{n}:json")


def _loading(ctx):
    """C15.10: 'the trajectories it exports equal the inputs ...' starts with
    loading: every given file (except the one named as --ref) is read with
    the reader of the sub-command's format and kept under its own name; the
    reference is read from --ref with the same reader."""
    prog = ctx.prog
    f = prog.func("evo.main_traj.load_trajectories")
    ctx.analysed_fn(f.qualname)
    A = _args_attr
    FI_ = "evo.tools.file_interface."
    table = {"tum": ("traj_files", FI_ + "read_tum_trajectory_file"),
             "kitti": ("pose_files", FI_ + "read_kitti_poses_file"),
             "euroc": ("state_gt_csv", FI_ + "read_euroc_csv_trajectory")}
    for sc, (files, reader) in table.items():
        r = Interp(prog).run(f, {}, None, preset_attrs={
            (tm.param("args"), "subcommand"): const(sc)})
        ret = r.ret
        if ret.op != "tuple" or len(ret.args) != 2:
            ctx.undecidable("C15.10", f, f"load[{sc}]: return is not "
                            f"(trajectories, reference): {fmt(ret)[:80]}")
            continue
        trajs, ref = ret.args
        # reference
        okr = ref.op == "ite" and ref.args[0] is A("ref") and \
            is_call_to(ref.args[1], reader) and ref.args[1].args[1] and \
            ref.args[1].args[1][0] is A("ref") and \
            tm.is_const(ref.args[2], None)
        ctx.ob("C15.10", f, bool(okr),
               f"load[{sc}]: the reference is {reader.rsplit('.', 1)[1]}"
               f"(args.ref) iff --ref is given" if okr else
               f"load[{sc}]: reference is {fmt(ref)[:100]}",
               key=f"C15.10:{sc}:reference")
        # trajectories: stores keyed by the file, read by the format reader,
        # skipped exactly for the reference file
        stores = [(k, v, g, e) for k, v, g, e in keyed_writes(r)
                  if k is not None and is_call_to(v, *[x[1] for x in
                                                      table.values()])]
        ok = len(stores) == 1
        why = f"{len(stores)} stores"
        if ok:
            k, v, g, e = stores[0]
            el_ok = k.op == "elem" and k.args[0] is A(files)
            rd_ok = is_call_to(v, reader) and v.args[1] and v.args[1][0] is k
            skip = [a for a in tm.atoms(g) if a.op == "cmp" and
                    a.args[0] in ("Eq", "NotEq") and
                    {a.args[1], a.args[2]} == {k, A("ref")}]
            sk_ok = len(skip) == 1 and tm.fold(
                g, lambda t: (skip[0].args[0] == "Eq") if t is skip[0]
                else None) is False and tm.fold(
                g, lambda t: (skip[0].args[0] != "Eq") if t is skip[0]
                else (True if t.op == "iter" else None)) is not False
            ok = el_ok and rd_ok and sk_ok
            why = (f"key {fmt(k)[:40]}, value {fmt(v)[:60]}, guard "
                   f"{fmt(g)[:60]}")
        ctx.ob("C15.10", f, bool(ok),
               f"load[{sc}]: every file of args.{files} except --ref is "
               f"read with {reader.rsplit('.', 1)[1]} and kept under its "
               f"own name" if ok else
               f"load[{sc}]: trajectories are not {{file: "
               f"{reader.rsplit('.', 1)[1]}(file)}} for every given file "
               f"but the reference: {why}", key=f"C15.10:{sc}:trajectories")


def _may_iterate(t: T, obj: T) -> bool:
    """t is the element of an iteration whose iterable can hold `obj`
    itself (a list literal / itertools.chain argument / conditional list)"""
    if not isinstance(t, T):
        return False
    base = t
    while base.op in ("sub", "attr") and base.op != "elem":
        base = base.args[0]
    if base.op != "elem":
        return False

    def holds(it: T, depth=0) -> bool:
        if depth > 8:
            return False
        if it.op in ("list", "tuple"):
            return any(x is obj or (x.op in ("tuple", "list") and any(
                y is obj for y in x.args)) or
                (x.op == "star" and holds(x.args[0], depth + 1))
                for x in it.args)
        if it.op == "ite":
            return holds(it.args[1], depth + 1) or holds(it.args[2],
                                                         depth + 1)
        if it.op == "named":
            return holds(it.args[1], depth + 1)
        if it.op == "call" and tm.callee_name(it) in (
                "itertools.chain", "builtins.list", "builtins.tuple",
                "builtins.reversed", "builtins.sorted"):
            return any(holds(a, depth + 1) for a in it.args[1])
        if it.op == "binop" and it.args[0] == "Add":
            return holds(it.args[1], depth + 1) or holds(it.args[2],
                                                         depth + 1)
        if it.op == "mut" and it.args[1] in ("append", "extend", "insert"):
            # a list that was grown: what it held plus what was added
            return holds(it.args[0], depth + 1) or any(
                holds(T("list", a), depth + 1) or holds(a, depth + 1)
                for a in it.args[2])
        if it.op == "upd":
            # a dict / list with one slot stored: what it held plus the value
            return it.args[2] is obj or holds(it.args[0], depth + 1)
        if it.op == "call" and tm.callee_name(it) in (
                ".items", ".values", ".copy") and not it.args[1]:
            return holds(tm.method_recv(it), depth + 1)
        if it.op == "call" and tm.callee_name(it) == "builtins.dict":
            return any(holds(a, depth + 1) for a in it.args[1])
        if it.op in ("loopvar", "loopout"):
            return holds(it.args[2], depth + 1) or (
                it.op == "loopout" and holds(it.args[3], depth + 1))
        return False
    return holds(base.args[0])


def _subjects(ctx, f, res, step_events, ref_traj):
    """C15.9: who each step is applied to. Down-sampling, motion filtering
    and projection act on *every* given trajectory and on the reference;
    time offset, alignment and the loaded transformation on every trajectory
    (never the reference, C15.4); every export option writes every trajectory
    and the reference. A step that is still present for the reference but no
    longer loops over the trajectories (or the reverse) keeps C15.1-3
    satisfied while the exported estimate is unprocessed."""
    trajs = None
    for ev in res.calls("evo.main_traj.load_trajectories"):
        trajs = tm.sub(ev.data["result"], const(0))
    ctx.require(trajs is not None, "load_trajectories call not found")

    def subject(t: Optional[T]) -> str:
        if t is None:
            return "none"
        base = t
        depth = 0
        while isinstance(base, T) and base.op in ("attr", "sub") and \
                depth < 6:
            if base is ref_traj:
                return "ref"
            base = base.args[0]
            depth += 1
        if t is ref_traj or base is ref_traj:
            return "ref"
        whole = False
        for x in t.walk():
            if x.op == "elem":
                it = x.args[0]
                partial = any(y.op == "sub" and y.args[1].op == "slice"
                              for y in it.walk()
                              if any(z is trajs for z in y.walk()))
                if any(z is trajs for z in it.walk()) and not partial:
                    whole = True
        if whole:
            return "est"
        return "other"

    def subjects(t: Optional[T]) -> set:
        out = set()
        for a in (tm.strip_ite(t) if t is not None else []):
            out.add(subject(a))
            if _may_iterate(a, ref_traj):
                out.add("ref")
        return out or {"none"}

    def of(e: Event) -> set:
        if e.kind == "augassign":
            return subjects(e.data["target"])
        b = e.data.get("bound") or {}
        if "traj" in b:
            return subjects(b["traj"])
        return subjects(e.data.get("recv"))
    need = {"downsample": {"est", "ref"}, "motion_filter": {"est", "ref"},
            "project": {"est", "ref"}, "t_offset": {"est"},
            "align": {"est"}, "align_origin": {"est"}, "transform": {"est"}}
    for name, want in need.items():
        # a step that is skipped for *some* trajectories — its call stands
        # under a condition on the trajectory it is applied to, not only on
        # the options — is the documented step only if the skipped call
        # would have been a no-op: data, not shape
        for e in step_events[name]:
            subj = e.data.get("recv") if "traj" not in (
                e.data.get("bound") or {}) else e.data["bound"]["traj"]
            root = subj
            while isinstance(root, T) and root.op in ("attr", "sub") and \
                    root.op != "elem":
                root = root.args[0]
            if not isinstance(root, T) or e.live is None:
                continue
            if root.op == "elem" or root is ref_traj:
                dep = [a for a in tm.atoms(e.live)
                       if any(x is root for x in a.walk())
                       and not (root is ref_traj and a is ref_traj)]

                if dep:
                    ctx.undecidable(
                        "C15.9", e, f"`{name}` at {e.where} is skipped for "
                        f"trajectories chosen by their data "
                        f"({fmt(dep[0])[:80]}): the documented step only if "
                        f"the skipped call is a no-op")
        got = set().union(*[of(e) for e in step_events[name]])
        ok = want <= got
        if not ok and got <= {"other", "none"}:
            ctx.undecidable("C15.9", step_events[name][0], f"`{name}`: what "
                            f"it is applied to is not read (a helper / "
                            f"generator hands out the trajectories)")
            continue
        ctx.ob("C15.9", step_events[name][0], ok,
               f"`{name}` is applied to "
               f"{' and '.join(sorted(want)).replace('est', 'every given trajectory').replace('ref', 'the reference')}"
               if ok else
               f"`{name}` is applied to {sorted(got)} only — "
               f"{sorted(want - got)} is missing: "
               + ("the given trajectories are exported without this step"
                  if "est" in want - got else
                  "the reference is exported without this step"),
               key=f"C15.9:{name}:subjects", got=sorted(got))
    # the association step *replaces* each trajectory by its synchronised
    # copy (trajectories[name] = ...): later steps must iterate the
    # collection as it is then, not a snapshot of its values taken earlier
    assoc = step_events["associate"][0]
    later = [x for x in res.env.values()] if False else None
    post = []
    for v in res.env.values():
        if not isinstance(v, T):
            continue
        for x in v.walk():
            if x.op == "loopout" and assoc.loops and \
                    x.args[1] == assoc.loops[-1] and \
                    any(z is trajs for z in x.walk()) and \
                    not any(x is p_ for p_ in post):
                post.append(x)
    if post:
        for name in ("transform", "project", "export"):
            stale = []
            for e in step_events[name]:
                if e.idx < assoc.idx:
                    continue
                b = e.data.get("bound") or {}
                t = b.get("traj") if "traj" in b else e.data.get("recv")
                for a in (tm.strip_ite(t) if t is not None else []):
                    if subject(a) != "est":
                        continue
                    if not any(any(z is p_ for z in a.walk())
                               for p_ in post):
                        stale.append(e)
            ctx.ob("C15.9", stale[0] if stale else step_events[name][0],
                   not stale,
                   f"`{name}` iterates the trajectories as they are after "
                   f"association" if not stale else
                   f"`{name}` at {stale[0].where} iterates a collection "
                   f"built from the trajectories *before* the association "
                   f"step replaced them by their synchronised copies: with "
                   f"--sync/--align the exported trajectories miss this step",
                   key=f"C15.9:{name}:current-collection")
    kinds = {"tum": "write_tum_trajectory_file",
             "kitti": "write_kitti_poses_file",
             "bag": "write_bag_trajectory"}
    for k, fn in kinds.items():
        evs = [e for e in step_events["export"]
               if (e.data.get("name") or "").endswith(fn)]
        got = set().union(*[of(e) for e in evs]) if evs else set()
        ok = {"est", "ref"} <= got
        if not ok and got <= {"other", "none"}:
            # no export call of that writer is read with its subject (the
            # exports go through a worker function / functools.partial)
            if [e for e in res.events if e.kind == "call" and fn in (
                    fmt(x) for x in e.data.get("args") or ())] or any(
                    fn in fmt(v_)[:200] for e in res.events
                    if e.kind == "call"
                    for v_ in list(e.data.get("args") or ())):
                ctx.undecidable("C15.9", f, f"export as {k}: the writer is "
                                f"handed to a worker function; who is "
                                f"written is not read")
                continue
        ctx.ob("C15.9", evs[0] if evs else f, ok,
               f"export as {k}: every given trajectory and the reference "
               f"are written" if ok else
               f"export as {k} writes {sorted(got)} only",
               key=f"C15.9:export-{k}:subjects", got=sorted(got))


def _step_semantics(ctx):
    """'the exported trajectories equal the inputs processed in the
    documented order' needs each step to do what its name says: left / right
    / propagating transformation (C08.5), down-sampling and motion filtering
    (C11.1, C11.2), association with the inclusive tolerance (C05.2/4/5); time
    cropping is not an evo_traj step."""
    from ..core import import_rules
    n = import_rules(ctx, "c08", ("C08.5",), "C15.8")
    n += import_rules(ctx, "c11", ("C11.1", "C11.2"), "C15.8")
    ctx.require(n >= 12, "C15.8: step-semantics instances not found")
    # association to the reference: nearest stamp within the *inclusive*
    # tolerance --t_max_diff, roles and offset sign kept (C05.2/4/5)
    n = import_rules(ctx, "c05", ("C05.2", "C05.4", "C05.5"), "C15.8")
    ctx.require(n >= 4, "C15.8: association instances not found")


def _merge_step(ctx):
    """the documented `merging` step: the merged trajectory must be the
    time-sorted union with every pose keeping its own data (rule shared with
    C11.5, reported here as C15.7)"""
    from ..core import Ctx
    from .c11 import _merge
    sub_ = Ctx(ctx.pid, ctx.prog, ctx.tier, ctx.seed)
    _merge(sub_, ctx.prog)
    for o in sub_.obligations:
        ctx.ob("C15.7", o.site, o.ok, o.msg,
               key=o.key.replace("C11.5", "C15.7"), **o.facts)
    ctx.undecided.extend(sub_.undecided)


def _only_kitti(e: Event) -> bool:
    def assign(a: T):
        # the world of the timestamped formats: `== "kitti"` is false,
        # `!= "kitti"` is true
        if a.op == "cmp" and a.args[0] in ("Eq", "NotEq") and \
                a.args[1] is _args_attr("subcommand") and \
                tm.is_const(a.args[2], "kitti"):
            return a.args[0] == "NotEq"
        return None
    return tm.fold(e.live, assign) is False


def _kitti_ite(ref: T, ref_traj: T, synced_ref: T) -> bool:
    if ref.op != "ite":
        return False
    c, a, b = ref.args
    return c.op == "cmp" and c.args[0] == "Eq" and \
        tm.is_const(c.args[2], "kitti") and a is ref_traj and b is synced_ref


VARIANTS = [
    dict(name="project-before-transform", file="evo/main_traj.py",
         edits=[("evo/main_traj.py",
                 "    # Note: projection is done after potential alignment & transformation steps.\n"
                 "    if args.project_to_plane:\n"
                 "        plane = trajectory.Plane(args.project_to_plane)\n"
                 "        logger.debug(SEP)\n"
                 "        logger.debug(\"Projecting trajectories to %s plane.\", plane.value)\n"
                 "        for traj in trajectories.values():\n"
                 "            traj.project(plane)\n"
                 "        if ref_traj:\n"
                 "            ref_traj.project(plane)\n", ""),
                ("evo/main_traj.py",
                 "    if args.transform_left or args.transform_right:\n",
                 "    if args.project_to_plane:\n"
                 "        plane = trajectory.Plane(args.project_to_plane)\n"
                 "        for traj in trajectories.values():\n"
                 "            traj.project(plane)\n"
                 "        if ref_traj:\n"
                 "            ref_traj.project(plane)\n"
                 "    if args.transform_left or args.transform_right:\n")],
         expect="fire", rule="C15.1"),
    dict(name="right-mul-from-left-flag", file="evo/main_traj.py",
         find="traj.transform(transform, right_mul=args.transform_right,",
         replace="traj.transform(transform, right_mul=args.transform_left,",
         expect="fire", rule="C15.3"),
    dict(name="offset-applied-to-ref", file="evo/main_traj.py",
         find="            traj.timestamps += args.t_offset\n",
         replace="            traj.timestamps += args.t_offset\n"
                 "        if ref_traj:\n"
                 "            ref_traj.timestamps += args.t_offset\n",
         expect="fire", rule="C15.4"),
    dict(name="se3-inverse-restored", file="evo/main_traj.py",
         find="            transform = lie.sim3_inverse(transform)",
         replace="            transform = lie.se3_inverse(transform)",
         expect="fire", rule="C15.5"),
    dict(name="se3-inverse-guarded", file="evo/main_traj.py",
         find="            transform = lie.sim3_inverse(transform)",
         replace="            if lie.is_se3(transform):\n"
                 "                transform = lie.se3_inverse(transform)\n"
                 "            else:\n"
                 "                transform = lie.sim3_inverse(transform)",
         expect="silent"),
    dict(name="align-origin-full-ref", file="evo/main_traj.py",
         find="                trajectories[name].align_origin(ref_traj_tmp)",
         replace="                trajectories[name].align_origin(ref_traj)",
         expect="fire", rule="C15.3"),
    dict(name="transform-needs-align", file="evo/main_traj.py",
         find="    if args.transform_left or args.transform_right:\n",
         replace="    if (args.transform_left or args.transform_right) and args.align:\n",
         expect="fire", rule="C15.2"),
    dict(name="degrees-flag-dropped", file="evo/main_traj.py",
         find="            traj.motion_filter(distance_threshold, angle_threshold, True)\n        if ref_traj:",
         replace="            traj.motion_filter(distance_threshold, angle_threshold)\n        if ref_traj:",
         expect="fire", rule="C15.3"),
    dict(name="ref-exported-under-traj-name", file="evo/main_traj.py",
         find="            dest = to_filestem(args.ref, args) + \".tum\"",
         replace="            dest = to_filestem(name, args) + \".tum\"",
         expect="fire", rule="C15.6"),
    dict(name="tmp-variable-for-path", file="evo/main_traj.py",
         find="        transform = file_interface.load_transform(tf_path)",
         replace="        tf_file = tf_path\n        transform = file_interface.load_transform(tf_file)",
         expect="silent"),
]
