"""C04 — trajectory alignment applies exactly the returned transform."""
from __future__ import annotations

import itertools
from typing import Optional

from .. import terms as tm
from ..effects import Summaries
from ..interp import Interp
from ..lib import fmt, is_call_to, sweep
from ..terms import T, const
from .c08 import _dot_operands

EXPLANATION = """
PosePath3D.align / align_origin and the two CLI cores main_ape.ape /
main_rpe.rpe are specialised by constant propagation for every flag
combination. C04.1: the Umeyama call maps the estimate's positions (first
point set) onto the reference's (second), both transposed, with_scale =
correct_scale or correct_only_scale. C04.2: with n given both point sets carry
the identical row slice [:n], with n == -1 neither is sliced. C04.3 (per
mode): scale-only applies scale(s) and nothing else; similarity applies
scale(s) *before* transform(se3(r, t)) (the reverse order would give
s*(R p + t)); rigid applies only transform(se3(r, t)); r, t, s are the three
results of the same Umeyama call, the transform left-multiplies, and the
function returns exactly (r, t, s). C04.4: origin alignment applies
dot(ref_pose_0, inverse(own_pose_0)) from the left and returns it. C04.5: no
effect on the reference (mutation summaries). C04.6: for the 8 combinations of
(align, correct_scale, align_origin) in ape() and rpe(), the value stored under
alignment_transformation_sim3 is built from the results of every alignment
call executed on that path, in the order applied (origin . umeyama), and in
scale-only mode carries no rotation/translation. C04.7: the scale that
similarity / scale-only alignment applies is Umeyama's reflection-corrected
scale tr(D S)/sigma^2 and exactly 1.0 without scale estimation (instances of
C03.3/C03.4).
"""
UNDECIDED = [
    "RMSE never larger after alignment / optimal in its class (numerical, "
    "rests on C03)",
    "idempotence of re-alignment (numerical)",
    "projection after alignment is non-linear and not part of the recorded "
    "matrix",
]
TRUSTED = ["lie.se3 / lie.sim3 build [sR t; 0 1] (checked in C09.2)"]
ASSUMPTIONS = []
MANIFEST = dict(
    text="Decides the structural content of alignment for all flag "
         "combinations: operand roles of the Umeyama call, the first-n "
         "restriction on both sides, that what is applied to the estimate "
         "is exactly what is returned (mode by mode, in the right order, "
         "left-multiplied), the origin transform's operand order, no effect "
         "on the reference, and that the matrix recorded by evo_ape/evo_rpe "
         "is composed of exactly the applied steps in the applied order.",
    note="Least-squares optimality, RMSE monotonicity and idempotence are "
         "numerical and not decided. se3()/sim3() slot layout is decided in "
         "C09.2.",
    technique="SCCP-style specialisation per flag combination + provenance "
              "term matching + must-precede on the event log + mutation "
              "summaries",
)
FLOORS = {"C04.1": 4, "C04.2": 4, "C04.3": 8, "C04.4": 3, "C04.5": 2,
          "C04.6": 14, "C04.7": 3, "C04.8": 2, "C04.9": 4, "C04.10": 2,
          "C04.11": 2}

ALIGN = "evo.core.trajectory.PosePath3D.align"
ORIGIN = "evo.core.trajectory.PosePath3D.align_origin"
UME = "evo.core.geometry.umeyama_alignment"
KEY = "alignment_transformation_sim3"


def _strip_T(t: T) -> Optional[T]:
    """x.T / x.transpose() / np.transpose(x) -> x"""
    if t.op == "attr" and t.args[1] == "T":
        return t.args[0]
    if t.op == "call" and is_call_to(t, ".transpose") and not t.args[1]:
        return tm.method_recv(t)
    if t.op == "call" and is_call_to(t, "numpy.transpose") and \
            len(t.args[1]) == 1:
        return t.args[1][0]
    return None


def _row_slice(t: T):
    """(base, n) if t is base[:n] or base[:n, :], else (t, None)"""
    if t.op == "sub":
        idx = t.args[1]
        if idx.op == "tuple" and len(idx.args) == 2 and \
                idx.args[1] == T("slice", tm.NONE, tm.NONE, tm.NONE):
            idx = idx.args[0]
        if idx.op == "slice" and tm.is_const(idx.args[0], None) and \
                tm.is_const(idx.args[2], None):
            if tm.is_const(idx.args[1], None):
                return t.args[0], None       # base[:None] is all of base
            return t.args[0], idx.args[1]
    return t, None


_UME_SUMMARY = {}
_NEG = {"Eq": "NotEq", "NotEq": "Eq", "Is": "IsNot", "IsNot": "Is"}


def _world(n_atom: T, v: bool):
    """the configuration's assumption on the test of n against its marker,
    for the atom itself and for its spelled-out complement (n != -1)"""
    def w(t: T):
        if t is n_atom:
            return v
        if n_atom.op == "cmp" and t.op == "cmp" and \
                {t.args[1], t.args[2]} == {n_atom.args[1], n_atom.args[2]} \
                and t.args[0] in _NEG:
            if t.args[0] == n_atom.args[0]:
                return v
            if _NEG[t.args[0]] == n_atom.args[0]:
                return not v
        return None
    return w


def _effective_points(prog, e, npar: T, world=None) -> dict:
    """the point sets the Umeyama step really works on: where the algorithm
    gained a parameter that restricts its inputs itself (n / num_points ...),
    the re-bound x and y of umeyama_alignment are expressed through the
    call's arguments and written in the spelling of the pinned call
    (positions[:n, :].T). A restriction along the *rows* of the 3 x n matrix
    (coordinates instead of points) is marked as such."""
    b = dict(e.data["bound"] or {})
    tgt = e.data.get("target")
    ALL0 = T("slice", tm.NONE, tm.NONE, tm.NONE)

    def canon(t: T) -> T:
        # (P.T)[:, :n] -> P[:n, :].T ; (P.T)[:n] restricts coordinates
        if t is not None and t.op == "sub":
            inner = _strip_T(t.args[0])
            idx = t.args[1]
            if inner is not None and idx.op == "tuple" and \
                    len(idx.args) == 2 and idx.args[0] is ALL0 and \
                    idx.args[1].op == "slice":
                return tm.attr(tm.sub(inner, T("tuple", idx.args[1], ALL0)),
                               "T")
            if inner is not None and idx.op == "slice":
                return T("coordinate-slice", t)
        return t
    if tgt is None or set(b) <= {"x", "y", "with_scale"}:
        for k in ("x", "y"):
            if k in b:
                b[k] = canon(b[k])
        return b
    key = (id(prog), tgt.qualname)
    if key not in _UME_SUMMARY:
        r = Interp(prog).run(tgt)
        _UME_SUMMARY[key] = (r.env.get(tgt.params[0]),
                             r.env.get(tgt.params[1]))
    import ast as _ast
    defaults = tgt.defaults()
    vals = {}
    for p_ in tgt.params:
        if p_ in b:
            vals[tm.param(p_)] = b[p_]
        elif p_ in defaults and isinstance(defaults[p_], _ast.Constant):
            vals[tm.param(p_)] = const(defaults[p_].value)
    ALL_ = T("slice", tm.NONE, tm.NONE, tm.NONE)

    def settle(t: T) -> T:
        t = t.map(lambda x_: vals.get(x_))

        def known(a_: T):
            if a_.op == "cmp" and a_.args[0] in ("Is", "IsNot") and \
                    a_.args[2] is tm.NONE:
                if a_.args[1] is tm.NONE:
                    return a_.args[0] == "Is"
                if a_.args[1] is npar or (tm.is_const(a_.args[1]) and
                                          a_.args[1] is not tm.NONE):
                    return a_.args[0] == "IsNot"
            return world(a_) if world is not None else None
        t = tm.deep_select(t, known)
        # (P.T)[:, :n]  ->  P[:n, :].T   (columns of the 3 x n matrix are
        # the points);  (P.T)[:n]  ->  marked: rows are coordinates
        if t.op == "sub":
            inner = _strip_T(t.args[0])
            idx = t.args[1]
            if inner is not None and idx.op == "tuple" and \
                    len(idx.args) == 2 and idx.args[0] is ALL_ and \
                    idx.args[1].op == "slice":
                return tm.attr(tm.sub(inner, T("tuple", idx.args[1], ALL_)),
                               "T")
            if inner is not None and idx.op == "slice":
                return T("coordinate-slice", t)
        return t
    for k, summ in zip(("x", "y"), _UME_SUMMARY[key]):
        if summ is not None and k in b:
            b[k] = settle(summ)
    return b


def check(ctx):
    prog = ctx.prog
    fa = prog.func(ALIGN)
    ctx.analysed_fn(ALIGN, ORIGIN)
    from ..lib import extra_defaults
    extra = extra_defaults(fa, ["self", "traj_ref", "correct_scale",
                                "correct_only_scale", "n"])
    ctx.require(extra is not None, "PosePath3D.align signature changed")
    selfp, refp, npar = tm.param("self"), tm.param("traj_ref"), tm.param("n")
    n_atom = None
    base = Interp(prog).run(fa, dict(extra))
    cands = []
    for e in base.events:
        cands.extend(tm.atoms(e.live))
    for e in base.calls(UME):
        for v in _effective_points(prog, e, npar).values():
            for x in v.walk():
                if x.op == "ite":
                    cands.extend(tm.atoms(x.args[0]))
    sentinel = None
    for a in cands:
        if a.op == "cmp" and a.args[0] in ("Eq", "NotEq", "Is", "IsNot") \
                and npar in (a.args[1], a.args[2]) and any(
                    tm.is_const(z) and (z.args[1] is None or
                                        isinstance(z.args[1], int))
                    for z in (a.args[1], a.args[2])):
            n_atom = a
            sentinel = [z for z in (a.args[1], a.args[2])
                        if tm.is_const(z)][0]
            break
    n_cases = (True, False)
    if n_atom is None:
        # no test of n at all: the row restriction [:n] is applied whatever
        # n is. Right if the "all poses" default is None ([:None] is
        # everything), wrong if it is a negative count
        import ast as _ast
        d = fa.defaults().get("n")
        if isinstance(d, (_ast.Name, _ast.Attribute)):
            d = fa.module.constants.get(_ast.unparse(d).split(".")[-1], d)
        dv = d.value if isinstance(d, _ast.Constant) else (
            -d.operand.value if isinstance(d, _ast.UnaryOp) and isinstance(
                d.op, _ast.USub) and isinstance(d.operand, _ast.Constant)
            else "?")
        ums = [e for e in base.calls(UME) if not tm.is_const(e.live, False)]
        sliced = bool(ums) and all(
            (lambda v_: v_ is not None and _row_slice(v_)[1] is npar)(
                _strip_T(_effective_points(prog, e, npar)[k]))
            for e in ums for k in ("x", "y") if e.data["bound"].get(k))
        if sliced and isinstance(dv, int) and not isinstance(dv, bool) \
                and dv < 0:
            ctx.ob("C04.2", ums[0], False,
                   f"align: the point sets are always restricted to [:n], "
                   f"also for the default n={dv} that stands for 'all "
                   f"poses': [:{dv}] drops the last {-dv} pose pair(s) from "
                   f"the alignment", key="C04.2:first-n")
        else:
            ctx.require(sliced and dv is None, "test of n against its 'all "
                        "poses' marker not found in align (unknown idiom)")
            ctx.ob("C04.2", ums[0], True,
                   "align: [:n] with the default n=None selects all poses",
                   key="C04.2:first-n:none-default")
        n_cases = (False,)
        n_atom = T("never")
        sentinel = const(None)
    n_all_true = n_atom.args[0] in ("Eq", "Is") if n_atom.args else True
    _sentinel_agreement(ctx, prog, fa, sentinel)

    for cs, cos in itertools.product([False, True], repeat=2):
        for n_all in n_cases:
            cfg = dict(extra, correct_scale=const(cs),
                       correct_only_scale=const(cos))
            av = n_all if n_all_true else not n_all
            it = Interp(prog, assume=_world(n_atom, av))
            r = it.run(fa, cfg)
            ctx.analysed["configs"] += 1
            mode = f"correct_scale={cs},only_scale={cos},n" \
                   f"{'==-1' if n_all else ' given'}"
            um_all = [e for e in r.calls(UME)
                      if not tm.is_const(e.live, False)]
            ctx.require(len(um_all) >= 1, f"align[{mode}]: no Umeyama call")
            if len(um_all) > 1:
                # several call sites remain under this configuration (e.g. a
                # shortcut branch): each is checked for the first-n rule
                from ..lib import comparisons
                cnt = tm.attr(selfp, "num_poses")
                for e in um_all:
                    bb = _effective_points(
                        prog, e, npar,
                        _world(n_atom, av))
                    xs_ = _strip_T(bb.get("x")) if bb.get("x") else None
                    ys_ = _strip_T(bb.get("y")) if bb.get("y") else None
                    xn_ = _row_slice(xs_)[1] if xs_ is not None else None
                    yn_ = _row_slice(ys_)[1] if ys_ is not None else None
                    if n_all or (xn_ is npar and yn_ is npar):
                        continue
                    whole = any(c == (cnt, "LtE", npar) or
                                c == (cnt, "Lt", npar)
                                for c in comparisons(e.live))
                    ctx.ob("C04.2", e, whole,
                           f"align[{mode}]: unsliced Umeyama call only when "
                           f"n covers all poses (count <= n)" if whole else
                           f"align[{mode}]: with n given, the Umeyama call "
                           f"at {e.where} uses *all* poses under "
                           f"{fmt(e.live)[:120]} — the transformation must "
                           f"be determined from the first n pose pairs only",
                           key="C04.2:first-n")
                continue
            um = um_all
            b = _effective_points(
                prog, um[0], npar,
                _world(n_atom, av))
            x, y, ws = b.get("x"), b.get("y"), b.get("with_scale")
            coord = [v_ for v_ in (x, y) if v_ is not None and
                     v_.op == "coordinate-slice"]
            if coord:
                ctx.ob("C04.2", um[0], False,
                       f"align[{mode}]: the restriction to the first n is "
                       f"applied to {fmt(coord[0].args[0])[:80]} — the rows "
                       f"of the 3 x n point matrix are the coordinates, so "
                       f"for n >= 3 all poses are used (and for n < 3 "
                       f"coordinates are dropped)", key="C04.2:first-n")
                continue
            xs, ys = _strip_T(x) if x else None, _strip_T(y) if y else None
            xb, xn = _row_slice(xs) if xs is not None else (None, None)
            yb, yn = _row_slice(ys) if ys is not None else (None, None)
            # roles: whichever rows are selected (C04.2 decides that part)
            xr = xs.args[0] if xs is not None and xs.op == "sub" else xb
            yr = ys.args[0] if ys is not None and ys.op == "sub" else yb
            ok = xr is tm.attr(selfp, "positions_xyz") and \
                yr is tm.attr(refp, "positions_xyz")
            ctx.ob("C04.1", um[0], ok,
                   f"align[{mode}]: Umeyama maps own positions (x) onto the "
                   f"reference's (y), both transposed" if ok else
                   f"align[{mode}]: Umeyama arguments are x={fmt(x)}, "
                   f"y={fmt(y)} — expected own positions then reference "
                   f"positions, transposed (swapped roles give the inverse "
                   f"map)", key="C04.1:umeyama-roles", x=fmt(x), y=fmt(y))
            want_ws = cs or cos
            ok = ws is not None and tm.is_const(ws) and \
                bool(ws.args[1]) == want_ws
            ctx.ob("C04.1", um[0], ok,
                   f"align[{mode}]: with_scale = {want_ws}" if ok else
                   f"align[{mode}]: with_scale is {fmt(ws)}, expected "
                   f"{want_ws}", key="C04.1:with_scale",
                   # (a value looked up in a table / taken from a mode object
                   # that does not fold is not evidence)
                   evidence=ws is not None and not any(
                       x.op in ("named", "dict", "unknown") or
                       "missing arg" in fmt(x)[:30] for x in ws.walk()))
            if n_all:
                ok = xn is None and yn is None
                msg = "neither point set is sliced"
            else:
                ok = xn is npar and yn is npar
                msg = "both point sets carry the identical slice [:n]"
            ctx.ob("C04.2", um[0], ok,
                   f"align[{mode}]: {msg}" if ok else
                   f"align[{mode}]: row restriction differs: own "
                   f"{fmt(xs)}, reference {fmt(ys)}",
                   key="C04.2:first-n", x=fmt(xs), y=fmt(ys))
            if not n_all:
                continue
            # ------------------------------------------------ C04.3
            U = um[0].data["result"]
            R, Tt, S = (tm.sub(U, const(k)) for k in range(3))
            scales = [e for e in r.of_kind("call") if
                      (e.data.get("name") or "").endswith("PosePath3D.scale")
                      and e.data.get("recv") is selfp]
            trans = [e for e in r.of_kind("call") if
                     (e.data.get("name") or "").endswith(
                         "PosePath3D.transform")
                     and e.data.get("recv") is selfp]
            if cos:
                want = "scale(s) only"
                ok = len(scales) == 1 and not trans
            elif cs:
                want = "scale(s) then transform(se3(r, t))"
                ok = len(scales) == 1 and len(trans) == 1 and \
                    scales[0].idx < trans[0].idx
            else:
                want = "transform(se3(r, t)) only"
                ok = not scales and len(trans) == 1
            ctx.ob("C04.3", fa, ok,
                   f"align[{mode}]: applies {want}" if ok else
                   f"align[{mode}]: applied operations are "
                   f"{[e.data['name'].rsplit('.', 1)[1] + '@' + e.where for e in sorted(scales + trans, key=lambda e: e.idx)]}"
                   f", expected {want}", key=f"C04.3:applied:{cs}:{cos}",
                   # evidence: the operations that run under this flag
                   # combination are all read (their conditions fold); a step
                   # table / mode object that this run cannot resolve — every
                   # operation then *may* run, or none is seen — is not
                   evidence=bool(scales or trans) and not any(
                       x.op in ("named", "dict") or
                       (x.op == "call" and x.args[0].op == "cls")
                       for e in scales + trans for x in e.live.walk()))
            for e in scales:
                sv = (e.data["bound"] or {}).get("s")
                ctx.ob("C04.3", e, sv is S,
                       f"align[{mode}]: scale factor is the Umeyama scale"
                       if sv is S else
                       f"align[{mode}]: scale() receives {fmt(sv)}, not "
                       f"the scale returned by Umeyama",
                       key="C04.3:scale-arg")
            for e in trans:
                bb = e.data["bound"] or {}
                tv = bb.get("t")
                ok = tv is not None and is_call_to(
                    tv, "evo.core.lie_algebra.se3") and \
                    tuple(tv.args[1]) == (R, Tt) and not tv.args[2]
                ctx.ob("C04.3", e, ok,
                       f"align[{mode}]: transform(se3(r, t)) with r, t of "
                       f"the same Umeyama call" if ok else
                       f"align[{mode}]: transform receives {fmt(tv)}",
                       key="C04.3:transform-arg")
                rm_ = bb.get("right_mul")
                pg = bb.get("propagate")
                ok = (rm_ is None or tm.is_const(rm_, False)) and \
                    (pg is None or tm.is_const(pg, False))
                ctx.ob("C04.3", e, ok,
                       f"align[{mode}]: left-multiplied" if ok else
                       f"align[{mode}]: transform is applied with "
                       f"right_mul={fmt(rm_)}, propagate={fmt(pg)}",
                       key="C04.3:left-mul")
            ok = r.ret is T("tuple", R, Tt, S)
            ctx.ob("C04.3", fa, ok,
                   f"align[{mode}]: returns (r, t, s) of the Umeyama call"
                   if ok else f"align[{mode}]: returns {fmt(r.ret)}",
                   key="C04.3:returns")

    # ------------------------------------------------------------- C04.4
    fo = prog.func(ORIGIN)
    ro = Interp(prog).run(fo)
    tr = [e for e in ro.of_kind("call")
          if (e.data.get("name") or "").endswith("PosePath3D.transform")]
    ctx.require(len(tr) == 1, "align_origin: transform call not found")
    bb = tr[0].data["bound"] or {}
    mat = bb.get("t")
    ops = _dot_operands(mat) if mat is not None else None
    own0 = tm.sub(tm.attr(selfp, "poses_se3"), const(0))
    ref0 = tm.sub(tm.attr(refp, "poses_se3"), const(0))
    ok = ops is not None and ops[0] is ref0 and \
        is_call_to(ops[1], "evo.core.lie_algebra.se3_inverse",
                   "evo.core.lie_algebra.sim3_inverse") and \
        ops[1].args[1] and ops[1].args[1][0] is own0
    ctx.ob("C04.4", tr[0], ok,
           "align_origin applies ref_pose_0 . inverse(own_pose_0)" if ok else
           f"align_origin applies {fmt(mat)} — expected "
           f"dot(ref.poses_se3[0], inverse(self.poses_se3[0]))",
           key="C04.4:origin-matrix", matrix=fmt(mat))
    rm_ = bb.get("right_mul")
    ok = rm_ is None or tm.is_const(rm_, False)
    ctx.ob("C04.4", tr[0], ok,
           "align_origin: applied from the left" if ok else
           "align_origin: applied with right_mul", key="C04.4:left-mul")
    ok = ro.ret is mat
    ctx.ob("C04.4", fo, ok,
           "align_origin returns the applied matrix" if ok else
           f"align_origin returns {fmt(ro.ret)}, applied {fmt(mat)}",
           key="C04.4:returns")

    # ------------------------------------------------------------- C04.5
    results = sweep(prog, "plain")
    S_ = Summaries(prog, results)
    for q in (ALIGN, ORIGIN):
        m = S_.mutated_params(q).get("traj_ref", [])
        ctx.ob("C04.5", prog.func(q), not m,
               f"{q.rsplit('.', 1)[1]}: no effect on the reference"
               if not m else
               f"{q.rsplit('.', 1)[1]} modifies the reference: {m[0]!r}",
               key=f"C04.5:{q.rsplit('.', 1)[1]}")

    ctx.section(_umeyama_scale, ctx)

    # ------------------------------------------------------------- C04.6
    for fq in ("evo.main_ape.ape", "evo.main_rpe.rpe"):
        f = prog.func(fq)
        ctx.analysed_fn(fq)
        est, ref = tm.param("traj_est"), tm.param("traj_ref")
        for al, cs, ao in itertools.product([False, True], repeat=3):
            cfg = {"align": const(al), "correct_scale": const(cs),
                   "align_origin": const(ao)}
            r = Interp(prog).run(f, cfg)
            ctx.analysed["configs"] += 1
            mode = f"align={al},correct_scale={cs},align_origin={ao}"
            ac = [e for e in r.calls(ALIGN) if e.data.get("recv") is est]
            oc = [e for e in r.calls(ORIGIN) if e.data.get("recv") is est]
            want_a = al or cs
            ok = (len(ac) == 1) == want_a and (len(oc) == 1) == ao and \
                len(ac) <= 1 and len(oc) <= 1
            ctx.ob("C04.6", f, ok,
                   f"{f.name}[{mode}]: executes "
                   f"{'align ' if want_a else ''}"
                   f"{'align_origin' if ao else ''}".rstrip() or
                   f"{f.name}[{mode}]: no alignment" if ok else
                   f"{f.name}[{mode}]: alignment calls executed: align x"
                   f"{len(ac)}, align_origin x{len(oc)}",
                   key=f"C04.6:{f.name}:calls")
            if ac and oc:
                ok = ac[0].idx < oc[0].idx
                ctx.ob("C04.6", oc[0], ok,
                       f"{f.name}[{mode}]: Umeyama/scale step precedes "
                       f"origin alignment",
                       key=f"C04.6:{f.name}:order")
            for e in ac:
                bb = e.data["bound"] or {}
                only = cs and not al
                ok = bb.get("traj_ref") is ref and \
                    tm.is_const(bb.get("correct_scale", const(False)), cs) \
                    and tm.is_const(bb.get("correct_only_scale",
                                           const(False)), only) and \
                    bb.get("n") is tm.param("n_to_align")
                ctx.ob("C04.6", e, ok,
                       f"{f.name}[{mode}]: align(ref, correct_scale={cs}, "
                       f"only_scale={only}, n=n_to_align)" if ok else
                       f"{f.name}[{mode}]: align receives "
                       f"{ {k: fmt(v) for k, v in bb.items()} }",
                       key=f"C04.6:{f.name}:align-args")
            for e in oc:
                ok = (e.data["bound"] or {}).get("traj_ref") is ref
                ctx.ob("C04.6", e, ok,
                       f"{f.name}[{mode}]: align_origin(ref)",
                       key=f"C04.6:{f.name}:origin-args")
            stores = [e for e in r.of_kind("call")
                      if (e.data.get("name") or "").endswith(
                          "Result.add_np_array") and e.data["args"] and
                      tm.is_const(e.data["args"][0], KEY)]
            stored = None
            for e in stores:
                if tm.fold(e.live, lambda t: None) is not False:
                    stored = e.data["args"][1] if len(e.data["args"]) > 1 \
                        else (e.data["bound"] or {}).get("array")
            if not ac and not oc:
                ok = stored is None or tm.is_const(stored, None)
                ctx.ob("C04.6", f, ok,
                       f"{f.name}[{mode}]: no alignment matrix recorded"
                       if ok else
                       f"{f.name}[{mode}]: records {fmt(stored)} although "
                       f"nothing was applied",
                       key=f"C04.6:{f.name}:none")
                continue
            ctx.require(stored is not None,
                        f"{f.name}[{mode}]: {KEY} is not recorded although "
                        f"an alignment was applied (unknown idiom)") \
                if False else None
            if stored is None:
                ctx.ob("C04.6", f, False,
                       f"{f.name}[{mode}]: an alignment is applied but no "
                       f"{KEY} is recorded",
                       key=f"C04.6:{f.name}:missing:{al}:{cs}:{ao}")
                continue
            U = ac[0].data["result"] if ac else None
            O = oc[0].data["result"] if oc else None
            a_part, ok_comp = stored, True
            if O is not None and U is not None:
                ops = _dot_operands(stored)
                ok_comp = ops is not None and ops[0] is O
                a_part = ops[1] if ops is not None else stored
                ctx.ob("C04.6", stores[-1], ok_comp,
                       f"{f.name}[{mode}]: recorded = origin . "
                       f"(umeyama/scale) — origin applied last, composed "
                       f"from the left" if ok_comp else
                       f"{f.name}[{mode}]: recorded matrix {fmt(stored)} "
                       f"is not origin_transform . alignment_transform "
                       f"(the order in which they were applied)",
                       key=f"C04.6:{f.name}:composition:{al}:{cs}:{ao}",
                       stored=fmt(stored))
            elif O is not None:
                ok = stored is O
                ctx.ob("C04.6", stores[-1], ok,
                       f"{f.name}[{mode}]: recorded = origin transform"
                       if ok else
                       f"{f.name}[{mode}]: recorded {fmt(stored)}, applied "
                       f"only the origin transform",
                       key=f"C04.6:{f.name}:origin-only:{al}:{cs}:{ao}")
                continue
            if U is not None and ok_comp:
                R, Tt, S = (tm.sub(U, const(k)) for k in range(3))
                only = cs and not al
                is_sim3 = is_call_to(a_part, "evo.core.lie_algebra.sim3") \
                    and len(a_part.args[1]) == 3
                if only:
                    ok = is_sim3 and a_part.args[1][2] is S and \
                        not any(x is R or x is Tt for x in a_part.walk())
                    if ok:
                        # ... and the identity rotation / zero translation
                        # of the right size
                        r0, t0 = a_part.args[1][0], a_part.args[1][1]
                        dim_r = r0.args[1][0].args[1] if is_call_to(
                            r0, "numpy.eye", "numpy.identity") and r0.args[1] \
                            and tm.is_const(r0.args[1][0]) else None
                        dim_t = t0.args[1][0].args[1] if is_call_to(
                            t0, "numpy.zeros") and t0.args[1] and \
                            tm.is_const(t0.args[1][0]) else None
                        if dim_r is None or dim_t is None:
                            ctx.undecidable(
                                "C04.6", stores[-1], f"{f.name}[{mode}]: "
                                f"identity rotation / zero translation of "
                                f"the scale-only record not recognised: "
                                f"{fmt(a_part)[:100]}")
                            continue
                        ok = (dim_r, dim_t) == (3, 3)
                    ctx.ob("C04.6", stores[-1], ok,
                           f"{f.name}[{mode}]: scale-only: recorded matrix "
                           f"carries the scale and no rotation/translation"
                           if ok else
                           f"{f.name}[{mode}]: scale-only mode applied only "
                           f"s but records {fmt(a_part)} (rotation / "
                           f"translation that were never applied)",
                           key=f"C04.6:{f.name}:scale-only:{al}:{cs}:{ao}",
                           stored=fmt(a_part))
                else:
                    ok = is_sim3 and tuple(a_part.args[1]) == (R, Tt, S)
                    ctx.ob("C04.6", stores[-1], ok,
                           f"{f.name}[{mode}]: recorded = sim3(r, t, s) of "
                           f"the applied Umeyama result" if ok else
                           f"{f.name}[{mode}]: recorded {fmt(a_part)}, "
                           f"applied sim3(r, t, s) of {fmt(U)}",
                           key=f"C04.6:{f.name}:umeyama:{al}:{cs}:{ao}",
                           stored=fmt(a_part))


def _const_eval(t: T, env):
    """value of a term under an assignment of leaf terms to Python values;
    raises KeyError / ValueError when it is not a closed expression"""
    while t.op == "named":
        t = t.args[1]
    if any(t is k for k in env):
        return [v for k, v in env.items() if k is t][0]
    if tm.is_const(t):
        return t.args[1]
    if t.op == "ite":
        return _const_eval(t.args[1] if _const_eval(t.args[0], env)
                           else t.args[2], env)
    if t.op == "cmp":
        l, r = _const_eval(t.args[1], env), _const_eval(t.args[2], env)
        return {"Eq": l == r, "NotEq": l != r, "Is": l is r,
                "IsNot": l is not r, "Lt": l < r, "LtE": l <= r,
                "Gt": l > r, "GtE": l >= r}[t.args[0]]
    if t.op == "not":
        return not _const_eval(t.args[0], env)
    if t.op == "unop" and t.args[0] == "Not":
        return not _const_eval(t.args[1], env)
    if t.op == "unop" and t.args[0] == "USub":
        return -_const_eval(t.args[1], env)
    raise ValueError(fmt(t))


def _sentinel_agreement(ctx, prog, fa, sentinel: T):
    """C04.9: 'determines it from the first n pose pairs only when n is
    given'. PosePath3D.align marks 'all poses' with one particular value of
    `n`; every command-line path must deliver exactly that value when the
    user gave no --n_to_align (the parsers' default), otherwise the default
    is taken literally as a slice bound (positions[:-1] drops the last
    pair)."""
    from ..lib import parser_arguments, sweep
    import ast
    S = sentinel.args[1]
    dflt = fa.defaults().get("n")
    try:
        dv = ast.literal_eval(dflt) if dflt is not None else "<none>"
    except Exception:
        dv = "<expr>"
        # a named module constant (ALIGN_ALL_POSES = -1) as the default
        if isinstance(dflt, (ast.Name, ast.Attribute)):
            cn = fa.module.constants.get(ast.unparse(dflt).split(".")[-1])
            try:
                dv = ast.literal_eval(cn) if cn is not None else dv
            except Exception:
                pass
    ctx.ob("C04.9", fa, dv == S and type(dv) is type(S),
           f"align(): the default of `n` is its own 'all poses' marker "
           f"({S!r})" if dv == S else
           f"align(): default n={dv!r} but 'all poses' is recognised as "
           f"{S!r}", key="C04.9:align-default")
    results = sweep(prog, "plain")
    for app, core in (("ape", "evo.main_ape.ape"), ("rpe", "evo.main_rpe.rpe"),
                      ("traj", None)):
        pa = [k for m, n_, o, k in parser_arguments(prog)
              if m == f"evo.main_{app}_parser" and "--n_to_align" in o]
        if len(pa) != 1 or "default" not in pa[0]:
            ctx.undecidable("C04.9", fa, f"evo_{app}: --n_to_align default "
                            f"not found")
            continue
        try:
            cli = ast.literal_eval(pa[0]["default"])
        except Exception:
            ctx.undecidable("C04.9", fa, f"evo_{app}: non-literal default")
            continue
        A = tm.attr(tm.param("args"), "n_to_align")
        env = {A: cli}
        ctx.require(f"evo.main_{app}.run" in results,
                    f"anchor function vanished: evo.main_{app}.run")
        run = results[f"evo.main_{app}.run"]
        chain = f"--n_to_align default {cli!r}"
        try:
            if core is not None:
                ce = run.calls(core)
                if len(ce) != 1:
                    raise ValueError("core call not found")
                passed = (ce[0].data["bound"] or {}).get("n_to_align")
                fcore = prog.func(core)
                if passed is None:
                    d2 = fcore.defaults().get("n_to_align")
                    v = ast.literal_eval(d2)
                else:
                    v = _const_eval(passed, env)
                rc = results[core]
                al = [e for e in rc.calls(ALIGN)]
                if not al:
                    raise ValueError("align call not found")
                nb = (al[0].data["bound"] or {}).get("n")
                got = S if nb is None and dv == S else _const_eval(
                    nb, {tm.param("n_to_align"): v})
                site = al[0]
                chain += f" -> {core.rsplit('.', 1)[1]}(n_to_align={v!r})"
            else:
                al = [e for e in run.calls(ALIGN)]
                if not al:
                    raise ValueError("align call not found")
                nb = (al[0].data["bound"] or {}).get("n")
                if nb is not None:
                    # the association-based formats (tum / euroc / bag); the
                    # index-based kitti branch is judged below
                    sub_ = tm.attr(tm.param("args"), "subcommand")

                    def fmt_world(kitti):
                        return lambda a_: (kitti == (a_.args[0] == "Eq")) \
                            if a_.op == "cmp" and a_.args[0] in (
                                "Eq", "NotEq") and a_.args[1] is sub_ and \
                            tm.is_const(a_.args[2], "kitti") else None
                    nb_k = tm.deep_select(nb, fmt_world(True))
                    nb = tm.deep_select(nb, fmt_world(False))
                    if nb_k is not nb:
                        # kitti: the marker, or explicitly the number of all
                        # (matched) poses
                        nb_k = tm.deep_select(nb_k, lambda a_: True if (
                            a_.op == "cmp" and a_.args[0] == "Eq" and
                            a_.args[1] is A and tm.is_const(a_.args[2], cli))
                            else None)
                        alts = tm.strip_ite(nb_k)
                        okk = all(a_ is A or (a_.op == "attr" and a_.args[1]
                                              == "num_poses") or
                                  is_call_to(a_, "builtins.len")
                                  for a_ in alts)
                        if not okk:
                            raise ValueError(f"kitti branch passes "
                                             f"{fmt(nb_k)[:60]}")
                got = dv if nb is None else _const_eval(nb, env)
                site = al[0]
        except (ValueError, KeyError, IndexError, TypeError) as e:
            ctx.undecidable("C04.9", fa, f"evo_{app}: value of `n` for the "
                            f"default --n_to_align not computable: {e}")
            continue
        ok = got == S and type(got) is type(S)
        ctx.ob("C04.9", site, ok,
               f"evo_{app}: {chain} reaches align as n={got!r}, its 'all "
               f"poses' marker" if ok else
               f"evo_{app}: {chain} reaches align as n={got!r}, but align "
               f"treats only {S!r} as 'all poses': the value is used as a "
               f"slice bound (first n pairs) although no n was given",
               key=f"C04.9:{app}:default-reaches-sentinel")


def _umeyama_scale(ctx):
    """similarity / scale-only alignment applies the scale returned by
    Umeyama: that scale must use the reflection-corrected trace tr(D S)
    (necessary for 'never larger than under any other similarity'); shared
    with C03.4"""
    from ..core import import_rules
    n = import_rules(ctx, "c03", ("C03.4", "C03.3", "C03.7"), "C04.7")
    ctx.require(n >= 3, "C04.7: Umeyama sign-fix instances not found")
    # the transform align() applies is Umeyama's: it must treat the point
    # sets it is handed (3 x n, n >= 3 incl. n = 3) as such — centred
    # covariance and the typed equivariance of (r, t, c) are necessary for
    # 'never larger than under any other transformation of the class'
    n = import_rules(ctx, "c03", ("C03.5", "C03.6"), "C04.10")
    ctx.require(n >= 2, "C04.10: Umeyama covariance / equivariance "
                "instances not found")
    # "scale-only mode multiplies positions by s and nothing else" / "p ->
    # s*R*p + t" rest on what PosePath3D.scale does in every cache state
    n = import_rules(ctx, "c08", ("C08.6",), "C04.8")
    ctx.require(n >= 2, "C04.8: scale-effect instances not found")
    # ... and on scale / transform building *new* pose matrices: a matrix
    # that occurs twice in the list, or is shared with the reference, would
    # receive an in-place operation twice / move the reference (C16.2)
    n = import_rules(ctx, "c16", ("C16.2",), "C04.8",
                     pred=lambda o: ".PosePath3D." in o.key or
                     ".PoseTrajectory3D." in o.key)
    ctx.require(n >= 3, "C04.8: pose-storage write instances not found")
    # the similarity that is applied and recorded is assembled by
    # lie.se3 / lie.sim3: [[s*R, t], [0, 1]] exactly, for every s (C09.2)
    n = import_rules(ctx, "c09", ("C09.2",), "C04.11",
                     pred=lambda o: o.key.split(":")[-1] in ("se3", "sim3"))
    ctx.require(n >= 2, "C04.11: se3 / sim3 instances not found")


VARIANTS = [
    dict(name="umeyama-roles-swapped", file="evo/core/trajectory.py",
         find="            r_a, t_a, s = geometry.umeyama_alignment(self.positions_xyz.T,\n"
              "                                                     traj_ref.positions_xyz.T,\n",
         replace="            r_a, t_a, s = geometry.umeyama_alignment(traj_ref.positions_xyz.T,\n"
                 "                                                     self.positions_xyz.T,\n",
         expect="fire", rule="C04.1"),
    dict(name="slice-one-side-only", file="evo/core/trajectory.py",
         find="                self.positions_xyz[:n, :].T, traj_ref.positions_xyz[:n, :].T,",
         replace="                self.positions_xyz[:n, :].T, traj_ref.positions_xyz.T,",
         expect="fire", rule="C04.2"),
    dict(name="transform-before-scale", file="evo/core/trajectory.py",
         find="        elif correct_scale:\n            self.scale(s)\n"
              "            self.transform(lie.se3(r_a, t_a))",
         replace="        elif correct_scale:\n            self.transform(lie.se3(r_a, t_a))\n"
                 "            self.scale(s)",
         expect="fire", rule="C04.3"),
    dict(name="origin-right-mul", file="evo/core/trajectory.py",
         find="        self.transform(to_ref_origin)",
         replace="        self.transform(to_ref_origin, right_mul=True)",
         expect="fire", rule="C04.4"),
    dict(name="origin-operands-swapped", file="evo/core/trajectory.py",
         find="        to_ref_origin = np.dot(traj_ref_origin, lie.se3_inverse(traj_origin))",
         replace="        to_ref_origin = np.dot(lie.se3_inverse(traj_origin), traj_ref_origin)",
         expect="fire", rule="C04.4"),
    dict(name="recorded-composition-swapped", file="evo/main_ape.py",
         find="            alignment_transformation = origin_transformation.dot(\n"
              "                alignment_transformation)",
         replace="            alignment_transformation = alignment_transformation.dot(\n"
                 "                origin_transformation)",
         expect="fire", rule="C04.6"),
    dict(name="scale-only-records-rt", file="evo/main_rpe.py",
         find="        if only_scale:\n            # Only the scale was applied to the trajectory.\n"
              "            r_a, t_a = np.eye(3), np.zeros(3)\n",
         replace="", expect="fire", rule="C04.6"),
    dict(name="origin-overwrites", file="evo/main_ape.py",
         find="        if alignment_transformation is None:\n"
              "            alignment_transformation = origin_transformation\n"
              "        else:\n"
              "            alignment_transformation = origin_transformation.dot(\n"
              "                alignment_transformation)",
         replace="        alignment_transformation = origin_transformation",
         expect="fire", rule="C04.6"),
    dict(name="temporary-for-se3", file="evo/core/trajectory.py",
         find="        else:\n            self.transform(lie.se3(r_a, t_a))\n\n        return r_a, t_a, s",
         replace="        else:\n            rigid = lie.se3(r_a, t_a)\n            self.transform(rigid)\n\n        return r_a, t_a, s",
         expect="silent"),
    dict(name="matmul-spelling", file="evo/main_ape.py",
         find="            alignment_transformation = origin_transformation.dot(\n"
              "                alignment_transformation)",
         replace="            alignment_transformation = np.dot(origin_transformation,\n"
                 "                alignment_transformation)",
         expect="silent"),
]
