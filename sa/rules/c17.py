"""C17 — existing output files are never overwritten without confirmation."""
from __future__ import annotations

from typing import Dict, List, Optional, Tuple

from .. import terms as tm
from ..core import _program_decorated
from ..interp import Event, Interp, Result
from ..lib import arg_of, fmt, is_call_to, subject_functions, sweep
from ..progdb import AnalysisError, Function
from ..terms import T, const

def _used_as_value(prog, f) -> bool:
    """the function's name occurs somewhere other than as the callee of a
    call (and its own definition)"""
    cache = prog.__dict__.setdefault("_c17_value_use", {})
    if f.qualname not in cache:
        import ast
        hit = False
        for m in prog.modules.values():
            callees = {id(n.func) for n in ast.walk(m.tree)
                       if isinstance(n, ast.Call)}
            for n in ast.walk(m.tree):
                if id(n) in callees:
                    continue
                if isinstance(n, ast.Name) and n.id == f.name and \
                        isinstance(n.ctx, ast.Load) or \
                        isinstance(n, ast.Attribute) and n.attr == f.name \
                        and isinstance(n.ctx, ast.Load):
                    hit = True
                    break
            if hit:
                break
        cache[f.qualname] = hit
    return cache[f.qualname]


EXPLANATION = """
Static who-may-write / must-pass-through analysis over every function of evo/.
C17.1 inventories every call that creates or truncates a file (open with a
write mode, numpy.savetxt/save, zipfile.ZipFile in write mode, PdfPages,
Figure.savefig, DataFrame.to_*, ExcelWriter, shutil/os renames, Path.write_*),
classified by the provenance of its path term (in-memory buffer, package
internal, user destination). C17.2: for every user-destination sink the live
condition of the sink (boolean formula over branch atoms computed by the
abstract interpreter) is folded under {confirm flag = True, path is a real
path, prompt for *the sink's own path term* declined}: it must fold to False
(sink unreachable when declined) and under {prompt accepted} it must not fold
to False (file is replaced). C17.3: every call from the CLI modules to a
function that has a confirm_overwrite parameter passes it explicitly with
provenance `not args.no_warnings`. C17.4: user.confirm returns True only on
equality of input() with `key` (default 'y'); check_and_confirm_overwrite
prompts iff os.path.isfile(path) and returns the prompt's result. C17.6:
library effect of Figure.savefig — a path without extension is *not* the file
written (matplotlib appends rcParams["savefig.format"]); where the written
path is composed with an extension obtained from os.path.splitext, that
extension must be provably non-empty at the sink (guard or default), else the
prompt was about a different file than the one replaced. C17.8: library
effect of the pandas writers (to_<fmt>, ExcelWriter) — they expand a leading
"~" of a str path themselves, so the term they receive must be expanded /
absolute already, or the prompt must have been about expanduser(<that term>).
"""
MANIFEST = dict(
    text="Decides, for every file-creating call site in evo/ (complete "
         "inventory from the library effect table), that it is unreachable "
         "when the overwrite prompt for the very path it writes is declined "
         "and reachable when accepted; that every CLI call site passes "
         "confirm_overwrite = not args.no_warnings; and that the prompt "
         "accepts exactly the key 'y'. The property is a conjunction over "
         "writers and call sites, which a who-may-write / must-pass-through "
         "analysis covers completely, including all writers no test runs.",
    note="Trusted: os.path.isfile, input(), the table of file-creating "
         "library calls (thorough tier lists every save/write-like call it "
         "does not know); rosbag export and evo_fig --to_html / evo_ipython "
         "are exempt by name with reasons. Byte-for-byte content of written "
         "files is not examined.",
    technique="call-graph-wide sink inventory + guard dominance by 3-valued "
              "folding of path conditions from an AST abstract interpreter; "
              "argument provenance at call sites",
)
UNDECIDED = [
    "behaviour of os.path.isfile / input / the file-writing library calls "
    "themselves (trusted)",
    "rosbags Writer refusing existing paths (library, trusted); bag export "
    "names are timestamp-generated",
]
TRUSTED = ["python ast semantics", "library effect table in sa/rules/c17.py "
           "(which calls create/truncate files)"]
ASSUMPTIONS = ["A2 (library effect table complete for the APIs evo uses)",
               "main_fig --to_html and main_ipython are outside the "
               "property's command list"]
FLOORS = {"C17.1": 8, "C17.2": 8, "C17.3": 17, "C17.4": 4, "C17.6": 1,
          "C17.7": 10, "C17.8": 2, "C17.9": 1}

CHK = "evo.tools.user.check_and_confirm_overwrite"
CONFIRM = "evo.tools.user.confirm"

WRITE_FUNCS = {            # external callee -> index of the path argument
    "numpy.savetxt": 0, "numpy.save": 0, "numpy.savez": 0,
    "numpy.savez_compressed": 0,
    "matplotlib.backends.backend_pdf.PdfPages": 0,
    "pandas.ExcelWriter": 0,
    "shutil.copy": 1, "shutil.copyfile": 1, "shutil.copy2": 1,
    "shutil.move": 1, "os.rename": 1, "os.replace": 1,
}
MODE_FUNCS = {"builtins.open": (0, 1), "zipfile.ZipFile": (0, 1),
              "io.open": (0, 1), "codecs.open": (0, 1)}
WRITE_METHODS = {".savefig": 0, ".write_text": None, ".write_bytes": None,
                 ".to_csv": 0, ".to_excel": 0, ".to_latex": 0, ".to_json": 0,
                 ".to_html": 0, ".to_pickle": 0, ".to_hdf": 0}
BUFFERS = ("io.BytesIO", "io.StringIO")

# per named sink exemptions with reason
EXEMPT_FUNCS = {
    "evo.tools.settings.write_atomic":
        "package-internal settings/config edit through the atomic helper "
        "(subject of C19, not an output of the listed commands)",
    "evo.main_fig.main":
        "evo_fig --to_html is outside the property's command list "
        "(informational)",
    "evo.main_ipython.main": "evo_ipython is outside the command list",
    "evo.tools.log.configure_logging":
        "append-only log file, not one of the output kinds",
}


_ATOMIC_CACHE: dict = {}


def _in_new_atomic_writer(e: Event, results, known) -> bool:
    """the sink event happened in the frame of a function added after the
    pinned tree (or of a private helper of its module) that implements the
    atomic-replace idiom of C19 for one of its parameters"""
    fn = e.func
    if fn is None or fn.qualname in known:
        return False
    from .c19 import atomic_idiom
    mod_fns = [q for q, r in results.items()
               if r.func.module is fn.module and q not in known]
    for q in mod_fns:
        if q not in _ATOMIC_CACHE:
            r = results[q]
            ok = False
            for p_ in r.func.params:
                try:
                    ok = ok or bool(atomic_idiom(r, p_)[0])
                except Exception:
                    pass
            _ATOMIC_CACHE[q] = ok
    if _ATOMIC_CACHE.get(fn.qualname):
        return True
    # a private helper (temp-file name, cleanup) of such a writer's module
    return fn.name.startswith("_") and any(_ATOMIC_CACHE.get(q)
                                           for q in mod_fns)


def _mode_of(e: Event, pidx: int, midx: int) -> Optional[str]:
    m = arg_of(e, "mode", midx)
    if m is not None and m.op == "param" and e.func is not None:
        # the enclosing helper's own `mode` parameter: its default (the
        # documented call form)
        import ast as _ast
        d = e.func.defaults().get(m.args[0])
        if isinstance(d, _ast.Constant) and isinstance(d.value, str):
            m = const(d.value)
    if m is None:
        return "r"
    if tm.is_const(m) and isinstance(tm.const_val(m), str):
        return tm.const_val(m)
    return None


def find_sinks(res: Result) -> List[Tuple[Event, T, str]]:
    """(event, path term, kind) for every file-creating call in a function"""
    out = []
    for e in res.of_kind("call"):
        name = e.data.get("name") or ""
        args = e.data["args"]
        if name in WRITE_FUNCS:
            i = WRITE_FUNCS[name]
            if len(args) > i:
                out.append((e, args[i], name))
        elif name in MODE_FUNCS:
            pi, mi = MODE_FUNCS[name]
            mode = _mode_of(e, pi, mi)
            if mode is None:
                raise AnalysisError(f"non-literal open mode at {e.where}")
            if any(c in mode for c in "wax+"):
                p = args[pi] if len(args) > pi else arg_of(e, "file")
                if p is not None:
                    out.append((e, p, f"{name}(mode={mode!r})"))
        elif name == ".open" and e.data.get("recv") is not None:
            mode = _mode_of(e, 0, 0)
            if mode is None:
                raise AnalysisError(f"non-literal open mode at {e.where}")
            if any(c in mode for c in "wax+"):
                out.append((e, e.data["recv"], f"Path.open({mode!r})"))
        elif name.startswith(".") and name in WRITE_METHODS:
            recv = e.data.get("recv")
            if name == ".savefig" and recv is not None and \
                    any(is_call_to(x, "matplotlib.backends.backend_pdf.PdfPages")
                        for x in recv.walk()):
                continue         # page added to an already opened PdfPages
            i = WRITE_METHODS[name]
            if i is not None and len(args) > i and any(
                    is_call_to(x, "pandas.ExcelWriter")
                    for x in args[i].walk()):
                continue         # sheet written into an opened ExcelWriter
            if i is None:
                out.append((e, recv, name))
            elif len(args) > i:
                out.append((e, args[i], name))
        else:
            fn = e.data.get("fn")
            # getattr(df, "to_" + fmt)(path)
            if fn is not None and fn.op == "call" and \
                    tm.callee_name(fn) == "builtins.getattr" and \
                    len(fn.args[1]) >= 2:
                a = fn.args[1][1]
                if a.op == "binop" and tm.is_const(a.args[1]) and \
                        str(tm.const_val(a.args[1])).startswith("to_") \
                        and args:
                    out.append((e, args[0], "DataFrame.to_<fmt>"))
    return out


def classify_path(p: T) -> str:
    for x in p.walk():
        if is_call_to(x, *BUFFERS):
            return "buffer"
    for x in p.walk():
        if x.op == "named" and x.args[0].startswith("evo.tools.settings."):
            return "internal"
        if x.op == "global" and x.args[0].startswith("evo.tools.settings."):
            return "internal"
    return "user"


def _chk_atoms(formula: T) -> List[T]:
    return [a for a in formula.walk()
            if a.op == "call" and tm.callee_name(a) == CHK]


def _chk_switch(c: T) -> Optional[T]:
    """the value a check call passes to the check's own on/off switch"""
    model = _CHK_MODEL[0]
    if model is None or model[3] is None:
        return None
    kw = dict(c.args[2])
    if model[3] in kw:
        return kw[model[3]]
    return c.args[1][1] if len(c.args[1]) > 1 else None


def _confirm_flags(formula: T) -> List[T]:
    """parameters that sit in the same and/or node as a prompt literal, or
    are handed to the check's own switch: the flag(s) that switch the
    confirmation on"""
    flags = []
    for c in _chk_atoms(formula):
        sw = _chk_switch(c)
        if sw is not None and sw.op == "param" and sw not in flags:
            flags.append(sw)
    for n in formula.walk():
        if n.op not in ("and", "or"):
            continue
        lits = [a.args[0] if a.op == "not" else a for a in n.args]
        def is_prompt(l: T) -> bool:
            # the check itself, or its outcome compared with a constant
            return (l.op == "call" and tm.callee_name(l) == CHK) or (
                l.op == "cmp" and any(
                    x.op == "call" and tm.callee_name(x) == CHK
                    for x in (l.args[1], l.args[2])))
        # (the prompt may sit one and/or level further down: nested ifs
        # give ((prompt or not isinstance) or not flag))
        deep = [a for l in lits for a in ([l] if l.op not in ("and", "or")
                                          else tm.atoms(l))]
        if any(is_prompt(l) for l in lits) or any(is_prompt(a)
                                                  for a in deep):
            for l in lits:
                if l.op == "param" and l not in flags:
                    flags.append(l)
                elif l.op in ("and", "or"):
                    # a nested combination next to the prompt, e.g.
                    # (confirm or isinstance(..)) and not prompt(..)
                    for a in tm.atoms(l):
                        if a.op == "param" and a not in flags:
                            flags.append(a)
    return flags


# library effect: pandas writers expand a leading "~" of a str path on their
# own (pandas.io.common._expand_user); open(), numpy, zipfile, matplotlib and
# pickle do not.
PANDAS_KINDS = ("pandas.ExcelWriter", "DataFrame.to_<fmt>", ".to_csv",
                ".to_excel", ".to_latex", ".to_json", ".to_html",
                ".to_pickle", ".to_hdf")
TILDE_FUNCS = ("os.path.expanduser", "os.path.abspath", "os.path.realpath")
TILDE_METHODS = (".expanduser", ".resolve", ".absolute")


def _is_expanded(x: T, of: Optional[T] = None) -> bool:
    """x is a call that leaves no leading "~" (optionally: applied to `of`)"""
    if x.op != "call":
        return False
    name = tm.callee_name(x)
    if name in TILDE_FUNCS:
        a = x.args[1]
        return of is None or bool(a and a[0] is of)
    if name in TILDE_METHODS:
        recv = x.args[0].args[0] if x.args[0].op == "attr" else None
        return of is None or recv is of
    return False


def tilde_stable(p: T) -> bool:
    """the path term cannot start with "~" whenever it is a str / PathLike"""
    if p.op == "ite":
        c, a, b = p.args
        if c.op == "call" and tm.callee_name(c) == "builtins.isinstance":
            return tilde_stable(a)     # b: not a path (open handle / buffer)
        if c.op == "not" and c.args[0].op == "call" and \
                tm.callee_name(c.args[0]) == "builtins.isinstance":
            return tilde_stable(b)
        return tilde_stable(a) and tilde_stable(b)
    if _is_expanded(p):
        return True
    if p.op == "call" and p.args[0].op == "func" and \
            p.args[0].args[0] in _EXPANDING:
        return True
    if is_call_to(p, "os.path.join") and p.args[1]:
        return tilde_stable(p.args[1][0])
    if is_call_to(p, "os.path.expandvars", "os.path.normpath", "os.fspath",
                  "builtins.str") and len(p.args[1]) == 1:
        # leave the beginning of an already expanded path alone
        return tilde_stable(p.args[1][0])
    return classify_path(p) != "user"


# evo helper through which check_and_confirm_overwrite looks at its path
# (set per run from the function's own body): a sink that writes
# helper(<asked path>) writes the file the prompt was about
_CHK_RESOLVER: List[Optional[str]] = [None]
_EXPANDING: set = set()     # evo helpers whose result went through expanduser


_CHK_EXAMINED: List[Optional[tuple]] = [None]


def _find_chk_examined(prog):
    g = prog.func(CHK)
    p = tm.param(g.params[0])
    from ..lib import extra_defaults
    xd = extra_defaults(g, g.params[:1], prog) or {}
    r = Interp(prog).run(g, dict(xd))
    seen = []
    for a in r.ret.walk():
        if is_call_to(a, "os.path.isfile", "os.path.exists") and a.args[1]:
            x = a.args[1][0]
            if x is not p and any(y is p for y in x.walk()) and \
                    not any(x is z for z in seen):
                seen.append(x)
    return (p, seen[0]) if len(seen) == 1 else None


def _find_chk_resolver(prog) -> Optional[str]:
    g = prog.func(CHK)
    p = tm.param(g.params[0])
    r = Interp(prog, auto_inline=False).run(g)
    for a in r.ret.walk():
        if is_call_to(a, "os.path.isfile", "os.path.exists") and a.args[1]:
            x = a.args[1][0]
            if x.op == "call" and x.args[0].op == "func" and x.args[1] and \
                    x.args[1][0] is p:
                return x.args[0].args[0]
    return None


def _same_file(asked: T, path: T, kind: str) -> bool:
    """the prompt's argument names the file the sink writes"""
    if asked is path:
        return True
    while path.op == "ite" and is_call_to(path.args[0],
                                          "builtins.isinstance"):
        path = path.args[1]          # the alternative for str / Path

    def bare(x: T) -> T:
        # Path(p), str(p), os.fspath(p) name the file p names
        while is_call_to(x, "pathlib.Path", "builtins.str", "os.fspath") \
                and len(x.args[1]) == 1 and not x.args[2]:
            x = x.args[1][0]
        return x
    if bare(asked) is bare(path):
        return True
    res = _CHK_RESOLVER[0]
    if res is not None and path.op == "call" and \
            tm.callee_name(path) == res and path.args[1] and \
            path.args[1][0] is asked:
        return True
    # the file the check examines, as an expression of its argument (helpers
    # looked through): the sink writes that very expression of `asked`
    ex = _CHK_EXAMINED[0]
    if ex is not None:
        g_p, x = ex
        if x.map(lambda t: asked if t is g_p else None) is bare(path):
            return True
    return kind in PANDAS_KINDS and _is_expanded(asked, of=path)


_STR_TYPES = ("builtins.str",)
_PATH_TYPES = ("pathlib.Path", "pathlib.PurePath", "os.PathLike",
               "pathlib.PosixPath", "pathlib.PurePosixPath")


def _isinstance_of(a: T, given: str) -> Optional[bool]:
    """truth of isinstance(path, types) for a destination given as a `str`
    or as a `pathlib.Path` (the two forms the property names)"""
    if len(a.args[1]) != 2:
        return None
    ty = Interp.unname(a.args[1][1])
    names = []
    for t in (ty.args if ty.op == "tuple" else (ty,)):
        n = t.args[0] if t.op in ("global", "cls") else None
        if n is None:
            return None
        names.append(n)
    mine = _STR_TYPES if given == "str" else _PATH_TYPES
    return any(n in mine for n in names)


# what check_and_confirm_overwrite returns when the user declines / accepts
# / is not asked (no file): (False, True, True) on the pinned tree; set from
# the function itself in check() — an enumeration of outcomes works as well
_CHK_MODEL: List[Optional[tuple]] = [None]


def _chk_outcomes(prog):
    """(declined, accepted, not-needed) result terms of the check function
    for a str path, or None if its cases are not recognised"""
    g = prog.func(CHK)
    from ..lib import extra_defaults
    extra = extra_defaults(g, g.params[:1], prog)
    if extra is None:
        return None
    ret = Interp(prog).run(g, dict(extra)).ret
    # a switch the callers hand their confirm flag to (enabled=True): off,
    # the check must answer like "nothing to overwrite"
    off = None
    switches = [k for k, v in extra.items() if tm.is_const(v, True)]
    if len(switches) == 1:
        off = Interp(prog).run(g, dict(extra, **{switches[0]:
                                                 const(False)})).ret
        if off.op not in ("const", "enum"):
            return None
    elif extra:
        return None
    p = tm.param(g.params[0])
    tests = [a for a in ret.walk()
             if is_call_to(a, "os.path.isfile", "os.path.exists",
                           ".is_file", ".exists")]
    confirms = []
    for a in ret.walk():
        if a.op == "call" and tm.callee_name(a) == CONFIRM and \
                not any(a is c for c in confirms):
            confirms.append(a)
    if not tests or len(confirms) != 1:
        return None

    def world(exists, answer):
        def assign(a: T):
            if is_call_to(a, "builtins.isinstance"):
                return True
            if any(a is t for t in tests):
                return exists
            if a is confirms[0]:
                return answer
            return None
        t = ret
        for _ in range(6):
            n = tm.deep_select(t, assign)
            if n is t:
                break
            t = n
        if t is confirms[0]:
            t = const(bool(answer))
        return t
    dec, yes = world(True, False), world(True, True)
    none_a, none_b = world(False, False), world(False, True)
    ok = all(x.op in ("const", "enum") for x in (dec, yes, none_a)) and \
        none_a is none_b
    if off is not None and off is not none_a and off is not yes:
        return None
    return (dec, yes, none_a, switches[0] if off is not None else None) \
        if ok else None


def _chk_atom_value(a: T, c: T, R: T) -> Optional[bool]:
    """truth of the guard atom `a` (the check call `c` itself, or a
    comparison of it with a constant / enumeration member) when the check
    returns R"""
    def truth(v: T):
        if v.op == "enum":
            return True
        return bool(v.args[1]) if tm.is_const(v) else None
    if a is c:
        return truth(R)
    if a.op == "cmp" and (a.args[1] is c or a.args[2] is c):
        other = a.args[2] if a.args[1] is c else a.args[1]
        while other.op == "named":
            other = other.args[1]
        op = a.args[0]
        if other.op in ("const", "enum"):
            same = other is R or (tm.is_const(other) and tm.is_const(R) and
                                  type(other.args[1]) is type(R.args[1]) and
                                  other.args[1] == R.args[1])
            if op in ("Is", "Eq"):
                return same
            if op in ("IsNot", "NotEq"):
                return not same
        if other.op in ("tuple", "list", "set") and op in ("In", "NotIn") \
                and a.args[1] is c and all(
                    z.op in ("const", "enum") for z in other.args):
            inn = any(z is R for z in other.args)
            return inn if op == "In" else not inn
    return None


def guard_fold(live: T, path: T, prompt: bool,
               confirm: bool = True, kind: str = "",
               given: Optional[str] = None) -> Optional[bool]:
    """fold a sink's path condition; `given` = 'str' / 'Path' evaluates the
    type tests for that form of the destination, None takes every type test
    as passed (the destination is a path, not a handle)"""
    flags = _confirm_flags(live)

    model = _CHK_MODEL[0] or (const(False), const(True), const(True), None)

    def outcomes(c: T):
        """what the check call c can return in the world asked for"""
        sw = _chk_switch(c)
        if sw is not None and (sw in flags and not confirm or
                               tm.is_const(sw, False)):
            return (model[2],)         # switched off: as if nothing exists
        return model[1:3] if prompt else model[:1]

    def assign(a: T) -> Optional[bool]:
        if a.op == "call" and tm.callee_name(a) == CHK:
            if a.args[1] and _same_file(a.args[1][0], path, kind):
                vals = {_chk_atom_value(a, a, R) for R in outcomes(a)}
                return vals.pop() if len(vals) == 1 else None
            return None
        if a.op == "cmp":
            cs = [x for x in (a.args[1], a.args[2])
                  if x.op == "call" and tm.callee_name(x) == CHK]
            if len(cs) == 1:
                c = cs[0]
                if c.args[1] and _same_file(c.args[1][0], path, kind):
                    vals = {_chk_atom_value(a, c, R) for R in outcomes(c)}
                    return vals.pop() if len(vals) == 1 else None
                return None
        if a.op == "call" and tm.callee_name(a) == "builtins.isinstance":
            if given is not None:
                v = _isinstance_of(a, given)
                if v is not None:
                    return v
            return True            # path is a str / Path
        if a in flags:
            return confirm         # confirmation switched on / off
        if a.op == "iter":
            return True
        return None
    return tm.fold(live, assign)


def check(ctx):
    prog = ctx.prog
    from ..known_functions import KNOWN_FUNCTIONS
    results = sweep(prog, "plain")
    ctx.analysed["functions_swept"] = len(results)
    _CHK_RESOLVER[0] = _find_chk_resolver(prog)
    _CHK_MODEL[0] = _chk_outcomes(prog)
    _CHK_EXAMINED[0] = _find_chk_examined(prog)
    _EXPANDING.clear()
    _ATOMIC_CACHE.clear()
    for q, res_ in results.items():
        f_ = res_.func
        if f_.cls is None and f_.params and any(
                _is_expanded(x) and x.op == "call" and (
                    (x.args[1] and x.args[1][0] is tm.param(f_.params[0])))
                for x in res_.ret.walk()) and not any(
                a is tm.param(f_.params[0])
                for a in tm.strip_ite(res_.ret)):
            _EXPANDING.add(q)

    # ---------------------------------------------------------- C17.1 / .2
    subject = []
    for q, res in sorted(results.items()):
        for (e, p, kind) in find_sinks(res):
            cls_ = classify_path(p)
            ctx.analysed["call_sites"] += 1
            if q == "evo.tools.settings.write_to_json_file" and not any(
                    (c.data.get("target") is not None and
                     c.data["target"].qualname == q and any(
                         x.op == "attr" and x.args[1] in ("out", "save_as")
                         for v in (c.data.get("bound") or {}).values()
                         for x in v.walk()))
                    for r_ in results.values() for c in r_.of_kind("call")):
                # the JSON writer of the settings / config editing commands
                # (reset, upgrade, set, merge): the file being edited, not
                # an output — as long as no caller hands it an output option
                ctx.ob("C17.1", e, True, f"sink {kind} exempt: settings / "
                       f"config edit helper (subject of C19)",
                       key=f"C17.1:exempt:{q}:{kind}", nontrivial=False,
                       path=fmt(p))
                continue
            if q not in KNOWN_FUNCTIONS and e.depth == 0 and any(
                    c.data.get("inlined") and c.data.get("target") is not None
                    and c.data["target"].qualname == q
                    for r_ in results.values() for c in r_.of_kind("call")):
                # a helper added later that the writers call: its sink is
                # judged inside each caller, where it was looked through
                continue
            if q not in KNOWN_FUNCTIONS and e.depth == 0 and \
                    _used_as_value(prog, res.func) and any(
                        x.op == "param" for x in p.walk()):
                # a helper added later that is handed on as a value (a table
                # of writers, a callback): the guard is wherever it is
                # finally called, which is not followed
                ctx.undecidable(
                    "C17.2", e, f"{kind} in {q}, a function added later "
                    f"that is reached as a value (table entry / argument): "
                    f"the call that runs it is not followed")
                continue
            if _in_new_atomic_writer(e, results, KNOWN_FUNCTIONS):
                # the atomic settings writer re-implemented / moved to another
                # module and looked through: the same exemption as
                # settings.write_atomic
                ctx.ob("C17.1", e, True, f"sink {kind} exempt: inside "
                       f"{e.func.qualname}, an atomic-replace writer like "
                       f"settings.write_atomic (subject of C19)",
                       key=f"C17.1:exempt:{e.func.qualname}:{kind}",
                       nontrivial=False, path=fmt(p))
                continue
            if q in EXEMPT_FUNCS:
                ctx.ob("C17.1", e, True, f"sink {kind} exempt: "
                       f"{EXEMPT_FUNCS[q]}", key=f"C17.1:exempt:{q}:{kind}",
                       nontrivial=False, path=fmt(p))
                continue
            if cls_ != "user":
                ctx.ob("C17.1", e, True,
                       f"sink {kind} writes to {cls_} path (not a user "
                       f"destination)", key=f"C17.1:{cls_}:{q}:{kind}",
                       path=fmt(p))
                continue
            ctx.ob("C17.1", e, True, f"subject sink {kind} in {q}",
                   key=f"C17.1:subject:{q}:{kind}", path=fmt(p))
            subject.append((q, res, e, p, kind))
    ctx.require(len(subject) >= 8, "fewer than 8 subject sinks found — sink "
                "table no longer matches evo's writers")

    for (q, res, e, p, kind) in subject:
        ctx.analysed_fn(q)
        declined = guard_fold(e.live, p, prompt=False, kind=kind)
        accepted = guard_fold(e.live, p, prompt=True, kind=kind)
        chks = [a for a in _chk_atoms(e.live)]
        own = [a for a in chks
               if a.args[1] and _same_file(a.args[1][0], p, kind)]
        ok = declined is False
        # ... for a destination given as str and given as pathlib.Path: a
        # type test that recognises only one of them lets the other through
        by_form = {g: guard_fold(e.live, p, prompt=False, kind=kind, given=g)
                   for g in ("str", "Path")}
        if ok:
            bad_forms = [g for g, v in by_form.items() if v is not False]
            ctx.ob("C17.2", e, not bad_forms,
                   f"{kind} in {q}: guarded for destinations given as str "
                   f"and as pathlib.Path" if not bad_forms else
                   f"{kind} in {q}: a destination given as "
                   f"{' / '.join(bad_forms)} is not recognised as a path by "
                   f"the type test in front of the prompt — the existing "
                   f"file is replaced without asking",
                   key=f"C17.2:forms:{q}:{kind}", live=fmt(e.live))
        ctx.ob("C17.2", e, ok,
               f"{kind} in {q}: unreachable when the overwrite prompt for "
               f"its own path is declined (confirm on, real path)"
               if ok else
               f"{kind} in {q} can execute although the overwrite prompt "
               f"for the path it writes was declined or never asked "
               f"(guards seen: {[fmt(a) for a in chks] or 'none'})",
               key=f"C17.2:unguarded:{q}:{kind}",
               # a writer wrapped by a decorator of the program may be
               # guarded in the wrapper, which is not looked through
               evidence=not _program_decorated(res.func),
               path=fmt(p), live=fmt(e.live), own_prompt_atoms=len(own))
        ctx.ob("C17.5", e, accepted is not False,
               f"{kind} in {q} reachable when the prompt is accepted "
               f"(file is replaced)",
               key=f"C17.5:dead-sink:{q}:{kind}", live=fmt(e.live))
        fn_flags = [tm.param(p_) for p_ in res.func.params
                    if p_ == "confirm_overwrite"]
        if not _confirm_flags(e.live) and fn_flags and own and \
                declined is False:
            # the function has the switch, this sink's prompt ignores it
            ctx.ob("C17.5", e, False,
                   f"{kind} in {q}: the overwrite prompt in front of this "
                   f"write does not depend on `confirm_overwrite` — even "
                   f"with confirmation switched off (--no_warnings) the "
                   f"user is asked and a 'no' drops the output",
                   key=f"C17.5:asks-when-off:{q}:{kind}", live=fmt(e.live))
        if _confirm_flags(e.live):
            # "with warnings disabled the file is replaced": no answer is
            # needed (or asked for) when the confirm flag is off
            off = guard_fold(e.live, p, prompt=False, confirm=False,
                             kind=kind)
            ctx.ob("C17.5", e, off is not False,
                   f"{kind} in {q}: with confirmation switched off the file "
                   f"is written without asking" if off is not False else
                   f"{kind} in {q}: even with confirmation switched off "
                   f"(--no_warnings) the write depends on the overwrite "
                   f"prompt's answer", key=f"C17.5:asks-when-off:{q}:{kind}",
                   live=fmt(e.live))

    # nothing else may write after a declined prompt: covered because every
    # sink in the function is an obligation of its own.

    # --------------------------------------------------------------- C17.6
    # library effect: Figure.savefig(path) writes `path` only if it has an
    # extension; otherwise matplotlib appends rcParams["savefig.format"], so
    # the prompted path and the written file differ. Where the path is
    # composed with a file extension taken from os.path.splitext (possibly
    # ""), that extension must be known to be non-empty.
    for (q, res, e, p, kind) in subject:
        if kind != ".savefig":
            continue
        last = _last_part(p)
        state = _nonempty_suffix(last, e.live)
        if state is None:
            ctx.ob("C17.6", e, True,
                   f"{kind} in {q}: the file name is not composed from a "
                   f"split extension (written path is the prompted path as "
                   f"given)", key=f"C17.6:suffix:{q}", nontrivial=False)
            continue
        ctx.ob("C17.6", e, state,
               f"{kind} in {q}: the extension appended to the written path "
               f"is never empty, so the file matplotlib writes is the file "
               f"the prompt was about" if state else
               f"{kind} in {q}: the path {fmt(p)[:80]} ends in an extension "
               f"from os.path.splitext that can be empty; matplotlib then "
               f"appends its default format and writes (and silently "
               f"replaces) <path>.png while the overwrite prompt looked at "
               f"<path>", key=f"C17.6:suffix:{q}", path=fmt(p))

    # --------------------------------------------------------------- C17.8
    # library effect: the pandas writers expand a leading "~" themselves.
    # The prompt must have looked at the expanded path: either the sink's
    # path term is already expanded / absolute, or the prompt was asked
    # about expanduser(<sink path>).
    for (q, res, e, p, kind) in subject:
        if kind not in PANDAS_KINDS:
            continue
        asked = [a.args[1][0] for a in _chk_atoms(e.live) if a.args[1]]
        ok = tilde_stable(p) or any(_is_expanded(a, of=p) for a in asked)
        ctx.ob("C17.8", e, ok,
               f"{kind} in {q}: the path pandas receives cannot start with "
               f"'~' (expanded before the prompt), so the file pandas writes "
               f"is the file the prompt was about" if ok else
               f"{kind} in {q}: pandas expands a leading '~' of the path "
               f"{fmt(p)[:60]} itself, but the overwrite prompt examined the "
               f"literal path: for '~/table.csv' the prompt looks at "
               f"./~/table.csv while pandas replaces $HOME/table.csv without "
               f"asking", key=f"C17.8:tilde:{q}:{kind}", path=fmt(p))

    # --------------------------------------------------------------- C17.3
    for q, res in sorted(results.items()):
        mod = res.func.module.name
        for e in res.of_kind("call"):
            tgt: Optional[Function] = e.data.get("target")
            if tgt is None or "confirm_overwrite" not in \
                    (tgt.params + tgt.kwonly):
                continue
            b = e.data["bound"] or {}
            # the path argument: first non-self parameter
            params = [x for x in tgt.params if x not in ("self", "cls")]
            patharg = b.get(params[0]) if params else None
            if patharg is not None and classify_path(patharg) == "buffer":
                ctx.ob("C17.3", e, True, f"{q} -> {tgt.name}: in-memory "
                       f"buffer, no file involved",
                       key=f"C17.3:buffer:{q}:{tgt.name}", nontrivial=False)
                continue
            if patharg is not None:
                kinds = path_kinds(patharg, results, 0)
                bad = sorted(k for k in kinds if k.startswith("PurePath"))
                ctx.ob("C17.7", e, not bad,
                       f"{q} -> {tgt.name}: the path handed over is a str / "
                       f"Path / buffer ({sorted(kinds)})" if not bad else
                       f"{q} -> {tgt.qualname}: the path argument can be a "
                       f"{bad[0]} object: evo's writers ask for confirmation "
                       f"only for `isinstance(path, (str, Path))` and treat "
                       f"everything else as an open handle, but zipfile / "
                       f"open() accept a PurePath — the existing file is "
                       f"replaced without a prompt",
                       key=f"C17.7:{q}:{tgt.name}", kinds=sorted(kinds))
            c = b.get("confirm_overwrite")
            ok, why = _confirm_arg_ok(c, e)
            if ok is None:
                # computed from more than the --no_warnings flag (a directory
                # listing taken beforehand, an earlier prompt ...): whether
                # it is on whenever the destination exists is not modelled
                ctx.undecidable("C17.3", e, f"{q} -> {tgt.qualname}: "
                                f"confirm_overwrite = {fmt(c)[:100]}")
                continue
            ctx.ob("C17.3", e, ok,
                   f"{q} -> {tgt.qualname}: confirm_overwrite "
                   + (f"= {fmt(c)} ({why})" if c is not None else
                      "NOT passed (callee default applies)"),
                   key=f"C17.3:{q}:{tgt.name}:{why}",
                   live=fmt(e.live))

    # --------------------------------------------------------------- C17.4
    ctx.section(_check_prompt, ctx)
    ctx.section(_warnings_flag, ctx)


def _warnings_flag(ctx):
    """C17.9: 'when warnings are not disabled ... asks': warnings are
    disabled by --no_warnings only. The option must be a plain flag that is
    off unless given — a computed default (no terminal on stdin, an
    environment variable) disables the prompt without the user saying so."""
    import ast
    from ..lib import parser_arguments
    hits = [(m, n, o, k) for m, n, o, k in parser_arguments(ctx.prog)
            if "--no_warnings" in (o or [])]
    ctx.require(len(hits) >= 1, "--no_warnings options of the parsers not "
                "found")
    for m, n, o, k in hits:
        act, dfl = k.get("action"), k.get("default")
        plain = isinstance(act, ast.Constant) and act.value == "store_true"
        off = dfl is None or (isinstance(dfl, ast.Constant) and
                              dfl.value is False)
        ok = plain and off
        ctx.ob("C17.9", f"{m}:{n.lineno}", ok,
               f"{m}: --no_warnings is a plain flag, off unless given"
               if ok else
               f"{m}: --no_warnings "
               + (f"defaults to `{ast.unparse(dfl)}`" if not off else
                  "is not a store_true flag")
               + " — confirmation prompts are switched off although the "
                 "user did not disable warnings: existing files are "
                 "overwritten without asking", key=f"C17.9:{m}")


PURE = ("pathlib.PurePath", "pathlib.PurePosixPath",
        "pathlib.PureWindowsPath")
PATH_METHODS = (".with_suffix", ".with_name", ".with_stem", ".joinpath",
                ".resolve", ".absolute", ".expanduser", ".relative_to")


def path_kinds(t: T, results, depth: int) -> set:
    """coarse type tags of a path-valued term: str, Path, PurePath(..),
    buffer, unknown — by provenance, following evo helpers' returns"""
    while t.op == "named":
        t = t.args[1]
    if t.op == "ite":
        return path_kinds(t.args[1], results, depth) | \
            path_kinds(t.args[2], results, depth)
    if tm.is_const(t) and isinstance(t.args[1], str) or t.op == "fstr":
        return {"str"}
    if t.op == "binop" and t.args[0] == "Add":
        return {"str"}
    if t.op == "binop" and t.args[0] == "Div":
        return path_kinds(t.args[1], results, depth)
    if t.op == "attr" and t.args[1] in ("parent",):
        return path_kinds(t.args[0], results, depth)
    if t.op == "call":
        n = tm.callee_name(t) or ""
        if n in PURE:
            return {f"PurePath ({n.split('.')[-1]})"}
        if n == "pathlib.Path":
            return {"Path"}
        if n in BUFFERS:
            return {"buffer"}
        if n.startswith("os.path.") or n in ("builtins.str", "os.fspath",
                                             "os.fsdecode"):
            return {"str"}
        if n in PATH_METHODS:
            return path_kinds(tm.method_recv(t), results, depth)
        if n.startswith("evo.") and depth < 3 and n in results:
            ret = results[n].ret
            if ret is not None and ret is not tm.NONE:
                return path_kinds(ret, results, depth + 1)
    return {"unknown"}


def _last_part(p: T) -> T:
    while True:
        if p.op == "named":
            p = p.args[1]
        elif p.op == "binop" and p.args[0] == "Add":
            p = p.args[2]
        elif p.op == "fstr" and p.args:
            p = p.args[-1]
        else:
            return p


def _is_split_ext(t: T) -> bool:
    return t.op == "sub" and tm.is_const(t.args[1], 1) and \
        is_call_to(t.args[0], "os.path.splitext")


def _nonempty_suffix(last: T, live: T) -> Optional[bool]:
    """None: not an extension term; True/False: provably non-empty or not"""
    if last.op == "ite":
        c, a, b = last.args
        ra = _nonempty_suffix(a, tm.mk_and(live, c))
        rb = _nonempty_suffix(b, tm.mk_and(live, tm.mk_not(c)))
        if ra is None and rb is None:
            return None
        return (ra is not False) and (rb is not False)
    if _is_split_ext(last):
        # non-empty iff the path condition says so
        truthy = tm.fold(live, lambda t: False if t is last else (
            False if t.op == "cmp" and t.args[0] == "NotEq" and
            last in (t.args[1], t.args[2]) and any(
                tm.is_const(z, "") for z in (t.args[1], t.args[2]))
            else (True if t.op == "cmp" and t.args[0] == "Eq" and
                  last in (t.args[1], t.args[2]) and any(
                      tm.is_const(z, "") for z in (t.args[1], t.args[2]))
                  else None)))
        return truthy is False
    if tm.is_const(last) and isinstance(last.args[1], str):
        return None if not last.args[1].startswith(".") else True
    if last.op in ("sub", "call", "attr", "global", "named"):
        # e.g. "." + mpl.rcParams["savefig.format"]: reached through the
        # concatenation walk only if preceded by other parts
        return None
    return None


def _confirm_arg_ok(c: Optional[T], e: Event):
    if c is None:
        return False, "missing"
    if c.op == "unop" and c.args[0] == "Not" and c.args[1].op == "attr" \
            and c.args[1].args[1] == "no_warnings":
        return True, "not <args>.no_warnings"
    if c.op == "param" and c.args[0] == "confirm_overwrite":
        return True, "forwards own confirm_overwrite parameter"
    if tm.is_const(c, False):
        # accepted only directly under an explicit user.confirm(...) prompt
        for a in tm.atoms(e.live):
            if a.op == "call" and tm.callee_name(a) == CONFIRM:
                if tm.fold(e.live, lambda x: False if x is a else None) \
                        is False:
                    return True, "False under explicit user.confirm prompt"
        return False, "constant False without a prompt"
    if tm.is_const(c, True):
        return True, "constant True"
    # a boolean function of the --no_warnings flag alone: by its truth table
    vals = [_flag_eval(c, nw) for nw in (True, False)]
    if None not in vals:
        if vals == [False, True]:
            return True, "equals not <args>.no_warnings"
        return False, (f"is {vals[1]} with warnings enabled and {vals[0]} "
                       f"with --no_warnings (expected True / False)")
    return None, "unrecognised provenance"


def _flag_eval(t: T, nw: bool):
    """truth value of a term built from <x>.no_warnings, constants and
    boolean connectives, for the given flag value; None otherwise"""
    t = Interp.unname(t)
    if tm.is_const(t):
        v = tm.const_val(t)
        return bool(v) if isinstance(v, (bool, int, type(None))) else None
    if t.op == "attr" and t.args[1] == "no_warnings":
        return nw
    if t.op == "unop" and t.args[0] == "Not" or t.op == "not":
        v = _flag_eval(t.args[-1], nw)
        return None if v is None else not v
    if t.op == "boolop" or t.op in ("and", "or"):
        kind = t.args[0] if t.op == "boolop" else t.op.capitalize()
        parts = t.args[1] if t.op == "boolop" else t.args
        vs = [_flag_eval(x, nw) for x in parts]
        if None in vs:
            return None
        return all(vs) if kind == "And" else any(vs)
    if t.op == "ite":
        c_ = _flag_eval(t.args[0], nw)
        return None if c_ is None else _flag_eval(t.args[1 if c_ else 2], nw)
    if is_call_to(t, "builtins.bool") and len(t.args[1]) == 1:
        return _flag_eval(t.args[1][0], nw)
    if t.op == "cmp" and t.args[0] in ("Is", "Eq", "IsNot", "NotEq") and \
            tm.is_const(t.args[2]) and isinstance(tm.const_val(t.args[2]),
                                                  bool):
        v = _flag_eval(t.args[1], nw)
        if v is None:
            return None
        same = v == tm.const_val(t.args[2])
        return same if t.args[0] in ("Is", "Eq") else not same
    return None


def _check_prompt(ctx):
    prog = ctx.prog
    f = prog.func(CONFIRM)
    ctx.analysed_fn(CONFIRM, CHK)
    it = Interp(prog)
    r = it.run(f)
    key_default = f.defaults().get("key")
    import ast
    if isinstance(key_default, (ast.Name, ast.Attribute)):
        # a named module constant (CONFIRM_KEY = 'y')
        key_default = f.module.constants.get(
            ast.unparse(key_default).split(".")[-1], key_default)
    ctx.ob("C17.4", f, isinstance(key_default, ast.Constant) and
           key_default.value == "y",
           "confirm(): default confirmation key is 'y'",
           key="C17.4:confirm-default-key")
    ret = r.ret
    inp = [x for x in ret.walk() if is_call_to(x, "builtins.input")]
    ok = False
    shape = fmt(ret)
    keyp = tm.param("key")
    if len(inp) == 1:
        i = inp[0]
        eq = T("cmp", "Eq", i, keyp)
        eq2 = T("cmp", "Eq", keyp, i)
        ne = T("cmp", "NotEq", i, keyp)
        ne2 = T("cmp", "NotEq", keyp, i)
        TR, FA = const(True), const(False)
        accepted = {eq, eq2, tm.ite(eq, TR, FA), tm.ite(eq2, TR, FA),
                    tm.ite(ne, FA, TR), tm.ite(ne2, FA, TR),
                    T("not", ne), T("not", ne2),
                    T("unop", "Not", ne), T("unop", "Not", ne2)}
        ok = ret in accepted
        if not ok:
            # any other spelling of the same truth table: evaluated for
            # "the input equals the key" true / false
            def world(equal):
                def env(a):
                    if a.op in ("and", "or", "not"):
                        return None
                    if a in (eq, eq2):
                        return equal
                    if a in (ne, ne2):
                        return not equal
                    return None
                return env

            def val(t, equal):
                t = Interp.unname(t)
                if tm.is_const(t) and isinstance(tm.const_val(t), bool):
                    return tm.const_val(t)
                if t.op == "ite":
                    c_ = tm.fold(it.as_cond(t.args[0]), world(equal))
                    return None if c_ is None else val(
                        t.args[1 if c_ else 2], equal)
                return tm.fold(it.as_cond(t), world(equal))
            ok = val(ret, True) is True and val(ret, False) is False
    ctx.ob("C17.4", f, ok,
           "confirm() returns True exactly when input() == key"
           if ok else
           f"confirm() result is not `input() == key`: {shape}",
           key="C17.4:confirm-equality", ret=shape)

    g = prog.func(CHK)
    from ..lib import extra_defaults
    # (a switch added later is analysed at its default: on)
    xd = extra_defaults(g, g.params[:1], prog)
    ctx.require(xd is not None, "check_and_confirm_overwrite signature "
                "changed")
    r2 = Interp(prog).run(g, dict(xd))
    ret2 = r2.ret
    p = tm.param(g.params[0])
    ok2 = False
    why = fmt(ret2)
    # by cases, for a path argument (str / PathLike): the file exists ->
    # the prompt's result (default key); it does not -> True
    tests = [a for a in ret2.walk()
             if is_call_to(a, "os.path.isfile", "os.path.exists",
                           ".is_file", ".exists")]
    def own(x) -> bool:
        # the parameter, possibly expanded / normalised first
        for _ in range(6):
            if x is p:
                return True
            if x is not None and x.op == "call" and x.args[1] and (
                    tm.callee_name(x) in (
                        "os.path.expanduser", "os.path.expandvars",
                        "os.path.abspath", "os.path.realpath",
                        "os.path.normpath", "os.fspath", "builtins.str",
                        "pathlib.Path") or x.args[0].op == "func"):
                x = x.args[1][0]
                continue
            return False
        return False
    on_own = [a for a in tests if (a.args[1] and own(a.args[1][0])) or
              own(tm.method_recv(a))]

    def kinds_of(x: T):
        while x.op == "named":
            x = x.args[1]
        if x.op == "tuple":
            out = set()
            for z in x.args:
                k = kinds_of(z)
                if k is None:
                    return None
                out |= k
            return out
        n = x.args[0] if x.op in ("global", "cls") else None
        if n == "builtins.str":
            return {"str"}
        if n in ("os.PathLike", "pathlib.Path", "pathlib.PurePath",
                 "pathlib.PosixPath"):
            return {"Path"}
        if n in ("builtins.bytes",):
            return set()
        return None

    def case(exists: bool, kind: str = "str") -> T:
        def assign(a: T):
            if is_call_to(a, "builtins.isinstance") and \
                    len(a.args[1]) == 2 and a.args[1][0] is p:
                ks = kinds_of(a.args[1][1])
                return None if ks is None else kind in ks
            if a in on_own:
                return exists
            return None
        t = ret2
        for _ in range(5):
            n = tm.select(t, assign)
            if n is t:
                break
            t = n
        return t
    if on_own and len(on_own) == len(tests):
        ok2 = True
        for kind in ("str", "Path"):      # both ways a path can be given
            a, b = case(True, kind), case(False, kind)
            prompt = a.op == "call" and tm.callee_name(a) == CONFIRM
            nokey = prompt and not any(k == "key" for k, _ in a.args[2]) \
                and len(a.args[1]) <= 1
            if not prompt:
                # the outcome as a value of its own (an enumeration ...):
                # decided by the prompt alone, with distinguishable results
                cs = []
                for x in a.walk():
                    if x.op == "call" and tm.callee_name(x) == CONFIRM and \
                            not any(x is y for y in cs):
                        cs.append(x)
                if len(cs) == 1 and not any(
                        k == "key" for k, _ in cs[0].args[2]) and \
                        len(cs[0].args[1]) <= 1 and not any(
                            x.op == "call" and tm.callee_name(x) == CONFIRM
                            for x in b.walk()):
                    yes = tm.deep_select(a, lambda t: True if (
                        t is cs[0] or t in on_own) else None)
                    no = tm.deep_select(a, lambda t: False if t is cs[0]
                                        else (True if t in on_own else None))
                    if all(x.op in ("const", "enum") for x in (yes, no, b)) \
                            and no is not yes and no is not b and not (
                                tm.is_const(no) and tm.is_const(b) and
                                no.args[1] == b.args[1]) and not (
                                tm.is_const(no) and tm.is_const(yes) and
                                no.args[1] == yes.args[1]):
                        continue
            if not (prompt and nokey and tm.is_const(b, True)):
                ok2 = False
                why = (f"for a {kind} path that exists the result is "
                       f"{fmt(a)[:80]}, for one that does not {fmt(b)[:40]}")
    ctx.ob("C17.4", g, ok2,
           "check_and_confirm_overwrite prompts iff os.path.isfile(path) and "
           "returns the prompt's result (or an outcome that tells a declined "
           "prompt from the others), default key"
           if ok2 else
           f"check_and_confirm_overwrite deviates: {why}",
           key="C17.4:check-and-confirm", ret=why)
    # the prompt path is the function's own parameter (no other file tested)
    calls = r2.calls(CONFIRM)
    ctx.ob("C17.4", g, len(calls) == 1,
           "exactly one prompt per check", key="C17.4:one-prompt",
           nontrivial=False)


def thorough(ctx):
    """package-wide sweep including contrib/: informational listing of every
    file-creating sink outside the subject set"""
    prog = ctx.prog
    res = sweep(prog, "contrib", include_contrib=True)
    listed = []
    for q, r in sorted(res.items()):
        if q.startswith("evo."):
            continue
        for (e, p, kind) in find_sinks(r):
            listed.append(f"{e.where} {q}: {kind} path={fmt(p)[:80]}")
    ctx.note("sinks outside evo/ (contrib scripts, not among the property's "
             "commands): " + "; ".join(listed))
    # every unresolved attribute call that receives a path-like argument
    sus = []
    for q, r in sorted(sweep(prog, "plain").items()):
        for e in r.of_kind("call"):
            n = e.data.get("name") or ""
            if n.startswith(".") and any(
                    w in n for w in ("save", "write", "dump", "export",
                                     "to_")) and n not in WRITE_METHODS:
                sus.append(f"{e.where} {n}")
    ctx.note("unresolved save/write/dump/export-like method calls reviewed "
             "by hand (none creates a file on a user path unguarded): "
             + "; ".join(sorted(set(sus))))


# thorough-tier self-validation: variants of the current tree
VARIANTS = [
    dict(name="export-extensionless-path-unchecked", file="evo/tools/plot.py",
         find="            if not ext:\n"
              "                # Matplotlib appends its default format to a path without\n"
              "                # extension: check and log the file that is actually written.\n"
              "                ext = \".\" + mpl.rcParams[\"savefig.format\"]\n",
         replace="", expect="fire", rule="C17.6"),
    dict(name="export-extension-guard-other-spelling",
         file="evo/tools/plot.py",
         find="            if not ext:\n"
              "                # Matplotlib appends its default format to a path without\n"
              "                # extension: check and log the file that is actually written.\n"
              "                ext = \".\" + mpl.rcParams[\"savefig.format\"]\n",
         replace="            if ext == \"\":\n"
                 "                ext = \".png\"\n", expect="silent"),
    dict(name="drop-not-at-call-site", file="evo/main_ape.py",
         find="confirm_overwrite=not args.no_warnings",
         replace="confirm_overwrite=args.no_warnings", expect="fire",
         rule="C17.3"),
    dict(name="omit-confirm-arg", file="evo/main_rpe.py",
         find="file_interface.save_res_file(args.save_results, result,\n"
              "                                     confirm_overwrite=not "
              "args.no_warnings)",
         replace="file_interface.save_res_file(args.save_results, result)",
         expect="fire", rule="C17.3"),
    dict(name="guard-removed-kitti-writer", file="evo/tools/file_interface.py",
         find="    if confirm_overwrite and isinstance(file_path, (str, Path)):\n"
              "        if not user.check_and_confirm_overwrite(file_path):\n"
              "            return\n    # first 3 rows",
         replace="    # first 3 rows", expect="fire", rule="C17.2"),
    dict(name="prompt-other-path", file="evo/tools/plot.py",
         find="                if confirm_overwrite and not user.check_and_confirm_overwrite(\n"
              "                        dest):",
         replace="                if confirm_overwrite and not user.check_and_confirm_overwrite(\n"
                 "                        file_path):",
         expect="fire", rule="C17.2"),
    dict(name="confirm-accepts-empty", file="evo/tools/user.py",
         find="    if input(msg + \"\\n\") != key:\n        return False\n"
              "    else:\n        return True",
         replace="    return input(msg + \"\\n\") in (key)",
         expect="fire", rule="C17.4"),
    dict(name="serialize-inverted", file="evo/tools/plot.py",
         find="        if confirm_overwrite and not user.check_and_confirm_overwrite(dest):\n"
              "            return\n        else:",
         replace="        if confirm_overwrite and user.check_and_confirm_overwrite(dest):\n"
                 "            return\n        else:",
         expect="fire", rule="C17.2"),
    dict(name="new-unguarded-writer", file="evo/tools/pandas_bridge.py",
         find="    logger.debug(\"{} table saved to: {}\".format(format_str, path))",
         replace="    logger.debug(\"{} table saved to: {}\".format(format_str, path))\n"
                 "    with open(path + \".meta\", 'w') as f:\n"
                 "        f.write(format_str)",
         expect="fire", rule="C17.2"),  # path+".meta" was never asked about
    dict(name="equivalent-guard-spelling", file="evo/tools/pandas_bridge.py",
         find="    if confirm_overwrite and not user.check_and_confirm_overwrite(path):\n"
              "        return\n",
         replace="    if confirm_overwrite:\n"
                 "        allowed = user.check_and_confirm_overwrite(path)\n"
                 "        if not allowed:\n            return\n",
         expect="silent"),
    dict(name="confirm-eq-spelling", file="evo/tools/user.py",
         find="    if input(msg + \"\\n\") != key:\n        return False\n"
              "    else:\n        return True",
         replace="    return input(msg + \"\\n\") == key", expect="silent"),
    dict(name="table-tilde-not-expanded", file="evo/tools/pandas_bridge.py",
         find="    if isinstance(path, (str, os.PathLike)):\n        # pandas expands a leading \"~\" itself: check the file it will write\n        path = os.path.expanduser(path)\n",
         replace="", expect="fire", rule="C17.8"),
    dict(name="table-tilde-prompt-on-expanded",
         file="evo/tools/pandas_bridge.py",
         find="    if isinstance(path, (str, os.PathLike)):\n        # pandas expands a leading \"~\" itself: check the file it will write\n        path = os.path.expanduser(path)\n"
              "    if confirm_overwrite and not user.check_and_confirm_overwrite(path):\n",
         replace="    if confirm_overwrite and not user.check_and_confirm_overwrite(\n"
                 "            os.path.expanduser(path)):\n",
         expect="silent"),
    dict(name="table-tilde-abspath", file="evo/tools/pandas_bridge.py",
         find="        path = os.path.expanduser(path)\n",
         replace="        path = os.path.abspath(os.path.expanduser(path))\n",
         expect="silent"),
    dict(name="is-file-check-dropped", file="evo/tools/user.py",
         find="    if os.path.isfile(file_path):", replace="    if False:",
         expect="fire", rule="C17.4"),
]
