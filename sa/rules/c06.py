"""C06 — writing and re-reading any supported format is lossless
(structure)."""
from __future__ import annotations

import re
from typing import Dict, List, Optional, Tuple

from .. import terms as tm
from ..interp import Interp
from ..layout import Layout, LayoutError
from ..lib import fmt, indirect_calls, is_call_to, per_element, sweep
from ..terms import T, const
from .c07 import FI, TUM, WXYZ, XYZ, Reader, _traj_base

EXPLANATION = """
Bit-exactness inside numpy / json is trusted library behaviour (savetxt's
default '%.18e' prints 19 significant digits, np.save is binary, json uses the
shortest round-trip repr). What evo's own code can do to break losslessness is
finite and visible in its shape. C06.1: every np.savetxt reachable from the
TUM / KITTI writers (also via save_res_file) has no fmt, or literal formats
whose every conversion keeps >= 17 significant digits. C06.2: no lossy
operation (round/around/rint/trunc/floor, narrowing astype/dtype, int(),
string formatting) on any value path between the trajectory / result object
and the sink, nor between the source and the object on the read side; only
layout operations are allowed on those paths; readers convert with
astype(float). C06.3: arrays of a result go through np.save / np.load, info
and stats through json.dumps / json.loads of the dictionaries themselves, and
the archive member names agree between writer and reader (the format suffix
is the last piece of the name the loader selects by). C06.4: no row is
dropped or reordered on any of these paths. C06.5: writer and reader layouts
are inverse (composition is the identity on timestamps, positions,
quaternions for TUM; the 3x4 block for KITTI; the 7 DataFrame columns + index
for pandas; (x,y,z) / (w,x,y,z) for the bag writer vs reader). C06.6: the bag
time split takes sec by floor and nanosec from the *fractional remainder*
(stamp - sec) * 1e9 — computing nanoseconds from the full epoch-sized stamp
times 1e9 exceeds float64's integer range and loses up to 128 ns — and the
reader uses the reciprocal constant; every bag export call of the command-line
tools passes the frame id stored with the trajectory it writes. C06.7: the
message helpers take the fields as they are (instances of C07.1). C06.8: the
trajectory constructors store what the readers parsed as given (instances of
C07.8).
C06.3 every-member (wave 7): with load_trajectories=True no further filter
(an empty name selection ...) may skip the members of a format.
"""
UNDECIDED = [
    "that the bag's float -> (sec, nanosec) -> float path stays within 1 ns "
    "for every epoch timestamp (floating point)",
    "exactness for magnitudes 1e+-300 (numpy / json library behaviour)",
]
TRUSTED = ["numpy.savetxt default format '%.18e'", "numpy.save/load",
           "json float repr round trip"]
ASSUMPTIONS = ["A3 library numerics"]
MANIFEST = dict(
    text="Decides that evo's own code puts no lossy step on any value path "
         "of the TUM / KITTI / result-archive / pandas / bag round trips: "
         "no precision-reducing format or conversion, no dropped or "
         "reordered rows, binary/JSON paths for results with matching "
         "member names, writer and reader layouts inverse to each other, "
         "and a bag time split that derives nanoseconds from the "
         "fractional remainder.",
    note="Bit-exactness of numpy's text format, np.save and json is trusted "
         "(A3); the 1 ns bound of the bag time path is not decided "
         "numerically.",
    technique="sink/format inventory + allow-list dataflow on provenance "
              "terms + layout algebra composition",
)
FLOORS = {"C06.1": 2, "C06.2": 8, "C06.3": 6, "C06.4": 2, "C06.5": 6,
          "C06.6": 3, "C06.7": 2, "C06.8": 4}

LOSSY = ("builtins.round", "numpy.round", "numpy.around", "numpy.rint",
         "numpy.trunc", "numpy.floor", "numpy.ceil", "numpy.fix",
         "numpy.round_", "builtins.int", "numpy.float32", "numpy.float16",
         "numpy.int32", "numpy.int64", "builtins.format", ".format",
         ".round", "numpy.format_float_positional", "builtins.str")
NARROW = ("float32", "float16", "int", "int32", "int64", "half", "single",
          "str")
LAYOUT_OPS = ("numpy.column_stack", "numpy.roll", "numpy.array",
              "numpy.asarray", ".flatten", ".to_numpy", "numpy.hstack",
              "numpy.arange", "builtins.isinstance")


def sig_digits(conv: str) -> Optional[int]:
    m = re.fullmatch(r"%[-+ #0]*\d*(?:\.(\d+))?([eEfFgGdirs])", conv)
    if not m:
        return None
    prec, kind = m.group(1), m.group(2)
    if kind in "eE":
        return (int(prec) if prec is not None else 6) + 1
    if kind in "gG":
        return int(prec) if prec is not None else 6
    if kind in "rs":
        return 17     # repr / str of a float64 is its shortest round-trip text
    return 0          # f, d, i: not a fixed number of significant digits


def _format_strings(f_: T, fn, prog) -> Optional[List[str]]:
    """the printf formats a savetxt `fmt` argument can consist of: literal
    strings, lists of them, list concatenation / repetition, a validated
    pass-through helper, and a parameter of the writer at its default (the
    documented call form)"""
    f_ = Interp.unname(f_)
    if tm.is_const(f_) and isinstance(f_.args[1], str):
        return [f_.args[1]]
    if f_.op == "fstr" and all(
            tm.is_const(x) and isinstance(x.args[1], (str, int)) and
            not isinstance(x.args[1], bool) for x in f_.args):
        return ["".join(str(x.args[1]) for x in f_.args)]
    if f_.op in ("list", "tuple"):
        out = []
        for x in f_.args:
            s = _format_strings(x, fn, prog)
            if s is None:
                return None
            out += s
        return out
    if f_.op == "binop" and f_.args[0] == "Add":
        a = _format_strings(f_.args[1], fn, prog)
        b = _format_strings(f_.args[2], fn, prog)
        return None if a is None or b is None else a + b
    if f_.op == "binop" and f_.args[0] == "Mult":
        for x in (f_.args[1], f_.args[2]):
            s = _format_strings(x, fn, prog)
            if s is not None:
                return s
        return None
    if f_.op == "param":
        import ast as _ast
        d = fn.defaults().get(f_.args[0])
        if isinstance(d, _ast.Constant) and isinstance(d.value, str):
            return [d.value]
        if isinstance(d, _ast.Name):
            v = Interp(prog).global_name(d.id, fn.module)
            if tm.is_const(v) and \
                    isinstance(v.args[1], str):
                return [v.args[1]]
        return None
    if f_.op == "call" and len(f_.args[1]) == 1 and \
            (tm.callee_name(f_) or "").startswith("evo."):
        # a checking helper that returns its argument
        return _format_strings(f_.args[1][0], fn, prog)
    return None


def lossy_ops(t: T) -> List[str]:
    out = []
    for x in t.walk():
        if x.op == "call":
            n = tm.callee_name(x) or ""
            if any(n == l or (l.startswith(".") and n == l) for l in LOSSY):
                out.append(n)
            if n in ("pandas.read_csv", "pandas.read_table",
                     "pandas.read_fwf"):
                fp = dict(x.args[2]).get("float_precision")
                if not (fp is not None and tm.is_const(fp, "round_trip")):
                    out.append(f"{n} without float_precision='round_trip' "
                               f"(pandas' default float parser is not "
                               f"correctly rounded: 17-digit values come "
                               f"back 1 ulp off)")
            if n == ".astype" and x.args[1]:
                a = x.args[1][0]
                nm = a.args[0] if a.op == "global" else (
                    a.args[1] if tm.is_const(a) else "?")
                if any(str(nm).endswith(k) for k in NARROW):
                    out.append(f"astype({nm})")
            for k, v in x.args[2]:
                if k == "dtype" and any(
                        str(v.args[0] if v.op == "global" else v.args[-1])
                        .endswith(kk) for kk in NARROW):
                    out.append(f"dtype={fmt(v)}")
        if x.op == "fstr":
            out.append("f-string")
        if x.op == "binop" and x.args[0] == "Mod" and tm.is_const(x.args[1]) \
                and isinstance(x.args[1].args[1], str):
            out.append("% formatting")
    return out


def unknown_ops(t: T) -> List[str]:
    out = []
    for x in t.walk():
        if x.op == "call":
            n = tm.callee_name(x) or ""
            if n not in LAYOUT_OPS and not any(n == l for l in LOSSY) and \
                    n != ".astype":
                out.append(n)
        if x.op == "binop":
            out.append(f"arithmetic {x.args[0]}")
    return out


def check(ctx):
    prog = ctx.prog
    results = sweep(prog, "plain")
    # bag export/import "preserves positions and orientations exactly": the
    # message helpers must take the fields as they are (instances of C07.1)
    from ..core import import_rules
    n = import_rules(ctx, "c07", ("C07.1",), "C06.7",
                     pred=lambda o: ":msg:" in o.key)
    ctx.require(n >= 2, "C06.7: message-field instances not found")
    # loading hands the parsed columns to the trajectory constructors: they
    # must store them as given (instances of C07.8)
    n = import_rules(ctx, "c07", ("C07.8",), "C06.8")
    ctx.require(n >= 4, "C06.8: constructor instances not found")
    ctx.analysed_fn(*(FI + n for n in (
        "write_tum_trajectory_file", "write_kitti_poses_file",
        "read_tum_trajectory_file", "read_kitti_poses_file", "save_res_file",
        "load_res_file", "write_bag_trajectory", "read_bag_trajectory")),
        "evo.tools.pandas_bridge.trajectory_to_df",
        "evo.tools.pandas_bridge.df_to_trajectory")
    # --------------------------------------------------------------- C06.1
    from ..known_functions import KNOWN_FUNCTIONS
    n_sinks = 0
    for q, r in sorted(results.items()):
        if not q.startswith("evo.tools.file_interface"):
            continue
        for e in r.calls("numpy.savetxt"):
            if q not in KNOWN_FUNCTIONS and e.depth == 0 and any(
                    c.data.get("inlined") and c.data.get("target") is not None
                    and c.data["target"].qualname == q
                    for r_ in results.values() for c in r_.of_kind("call")):
                continue     # a helper added later: judged in its callers
            n_sinks += 1
            kw = dict(e.data["kwargs"])
            f_ = kw.get("fmt")
            if f_ is None and len(e.data["args"]) > 2:
                f_ = e.data["args"][2]
            if f_ is None:
                ctx.ob("C06.1", e, True,
                       f"{q}: savetxt with numpy's default '%.18e' (19 "
                       f"significant digits)", key=f"C06.1:{q}:default")
                continue
            fu = Interp.unname(f_)
            specs = []
            strs = _format_strings(fu, r.func, prog)
            if strs is not None:
                specs = [s for x in strs
                         for s in re.findall(r"%[^%]*?[a-zA-Z]", x)]
            else:
                ctx.undecidable("C06.1", e, f"{q}: non-literal savetxt "
                                f"format {fmt(f_)}")
                continue
            digs = [sig_digits(s) for s in specs]
            bad = [s for s, d in zip(specs, digs) if d is None or d < 17]
            ctx.ob("C06.1", e, not bad and bool(specs),
                   f"{q}: explicit format keeps >= 17 significant digits "
                   f"({sorted(set(specs))})" if not bad and specs else
                   f"{q}: savetxt format {sorted(set(bad))} does not keep "
                   f"17 significant digits — values are rounded on write "
                   f"(float64 needs 17)", key=f"C06.1:{q}:lossy-format",
                   fmt=fmt(f_))
    ctx.require(n_sinks >= 2, "fewer than 2 savetxt sinks found")

    # --------------------------------------------------------------- C06.2
    paths: List[Tuple[str, object, T]] = []
    for name in ("write_tum_trajectory_file", "write_kitti_poses_file"):
        r = results[FI + name]
        for e in r.calls("numpy.savetxt"):
            paths.append((f"{name}: array written", e, e.data["args"][1]))
    r = results[FI + "save_res_file"]
    for e in r.calls("numpy.save"):
        paths.append(("save_res_file: array saved", e, e.data["args"][1]))
    for e in r.calls("json.dumps"):
        paths.append(("save_res_file: json document", e, e.data["args"][0]))
    r = results["evo.tools.pandas_bridge.trajectory_to_df"]
    paths.append(("trajectory_to_df: DataFrame data", r.func, r.ret))
    r = results["evo.tools.pandas_bridge.df_to_trajectory"]
    paths.append(("df_to_trajectory: constructor arguments", r.func, r.ret))
    for name in ("read_tum_trajectory_file", "read_kitti_poses_file"):
        r = results[FI + name]
        paths.append((f"{name}: constructor arguments", r.func, r.ret))
    r = results[FI + "load_res_file"]
    for e in r.calls("evo.core.result.Result.add_np_array"):
        paths.append(("load_res_file: array loaded", e,
                      e.data["args"][1]))
    from ..lib import exact_text
    for what, site, term in paths:
        # conversions that verify their own round trip are exact
        bad = lossy_ops(exact_text(term))
        # string conversions that only build *names* are not value paths
        ctx.ob("C06.2", site, not bad,
               f"{what}: no precision-reducing operation on the value path"
               if not bad else
               f"{what}: lossy operation(s) {sorted(set(bad))} on the value "
               f"path — values no longer round-trip bit for bit",
               key=f"C06.2:{what.split(':')[0]}:lossy", term=fmt(term))
    for name in ("read_tum_trajectory_file", "read_kitti_poses_file"):
        rd = Reader(prog, name)
        ok = bool(rd.conv) and rd.conv[0].data["args"] and (
            rd.conv[0].data["args"][0] is tm.glob("builtins.float") or
            (rd.conv[0].data["args"][0].op == "global" and
             rd.conv[0].data["args"][0].args[0] in ("numpy.float64",
                                                    "numpy.double")))
        if not ok and not rd.conv:
            # another parser: pandas' C reader is exact only with
            # float_precision="round_trip" (its default strtod is off by
            # one ulp for a share of 17-digit decimals); anything else is
            # not modelled
            pc = [e for e in rd.r.calls("pandas.read_csv") +
                  rd.r.calls("pandas.read_table")
                  if not tm.is_const(e.live, False)]
            if pc:
                fp = dict(pc[0].data["kwargs"]).get("float_precision")
                exact = fp is not None and tm.is_const(fp, "round_trip")
                ctx.ob("C06.2", pc[0], exact,
                       f"{name}: parsed by pandas with float_precision="
                       f"'round_trip' (correctly rounded)" if exact else
                       f"{name}: parsed by pandas.read_csv with "
                       f"float_precision={fmt(fp) if fp is not None else 'default'}"
                       f" — pandas' fast float parser is not correctly "
                       f"rounded: a share of the 17-digit values written by "
                       f"evo come back one ulp off",
                       key=f"C06.2:{name}:float64")
            else:
                ctx.undecidable("C06.2", rd.f, f"{name}: how the text "
                                f"becomes float64 is not recognised")
            continue
        ctx.ob("C06.2", rd.f, bool(ok),
               f"{name}: text is converted to float64" if ok else
               f"{name}: conversion is not astype(float)",
               key=f"C06.2:{name}:float64")

    # --------------------------------------------------------------- C06.3
    rs = results[FI + "save_res_file"]
    rl = results[FI + "load_res_file"]
    ro = tm.param("result_obj")
    ws = [e for e in rs.of_kind("call") if e.data.get("name") == ".writestr"]
    names = {}
    for e in ws:
        nm, payload = e.data["args"][:2]
        names[fmt(nm)] = payload
    ok = any(tm.is_const(e.data["args"][0], "info.json") and
             e.data["args"][1] is tm.call(tm.glob("json.dumps"),
                                          (tm.attr(ro, "info"),), ())
             for e in ws)
    ctx.ob("C06.3", rs.func, ok, "result: info -> json.dumps(info) as "
           "info.json" if ok else "result info is not written as "
           "json.dumps(result.info) to info.json", key="C06.3:save:info")
    ok = any(tm.is_const(e.data["args"][0], "stats.json") and
             e.data["args"][1] is tm.call(tm.glob("json.dumps"),
                                          (tm.attr(ro, "stats"),), ())
             for e in ws)
    ctx.ob("C06.3", rs.func, ok, "result: stats -> json.dumps(stats) as "
           "stats.json" if ok else "result stats are not written as "
           "json.dumps(result.stats) to stats.json", key="C06.3:save:stats")
    sv = rs.calls("numpy.save")
    ok = len(sv) == 1 and sv[0].data["args"][1].op == "sub" and \
        tm.is_const(sv[0].data["args"][1].args[1], 1) and any(
            x is tm.attr(ro, "np_arrays")
            for x in sv[0].data["args"][1].walk())
    npy = [e for e in ws if e.data["args"][0].op == "fstr" and
           len(e.data["args"][0].args) == 2 and
           tm.is_const(e.data["args"][0].args[1], ".npy")]
    # ... named after the key that belongs to the saved array
    if len(sv) == 1 and len(npy) == 1 and sv[0].data["args"][1].op == "sub":
        key = npy[0].data["args"][0].args[0]
        ok = ok and key.op == "sub" and tm.is_const(key.args[1], 0) and \
            key.args[0] is sv[0].data["args"][1].args[0]
    ok = ok and len(npy) == 1 and any(
        x is sv[0].data["args"][0] for x in npy[0].data["args"][1].walk())
    ctx.ob("C06.3", rs.func, ok,
           "result: every array of np_arrays is written with np.save as "
           "<name>.npy (binary)" if ok else
           "result arrays do not go through np.save into <name>.npy",
           key="C06.3:save:arrays", evidence=not indirect_calls(rs))
    info_v = rl.attrs.get((rl.ret, "info"))
    stats_v = rl.attrs.get((rl.ret, "stats"))

    def loads_of(v, member):
        return v is not None and is_call_to(v, "json.loads") and any(
            tm.is_const(x, member) for x in v.walk())
    ok = loads_of(info_v, "info.json") and loads_of(stats_v, "stats.json")
    ctx.ob("C06.3", rl.func, ok,
           "result: info / stats <- json.loads of info.json / stats.json"
           if ok else "load_res_file does not take info/stats from "
                      "json.loads of the like-named members",
           key="C06.3:load:json")
    la = rl.calls("evo.core.result.Result.add_np_array")
    # the members are selected by suffix: in a filtered list the loop runs
    # over, or by a test the loop body is conditioned on
    ok = len(la) == 1 and is_call_to(la[0].data["args"][1], "numpy.load") \
        and any(tm.is_const(x, ".npy")
                for t in (la[0].data["args"][1], la[0].live)
                for x in t.walk()) and \
        la[0].data["args"][0].op == "attr" and \
        la[0].data["args"][0].args[1] == "stem"
    ctx.ob("C06.3", rl.func, ok,
           "result: every *.npy member is np.load-ed and stored under its "
           "stem" if ok else "load_res_file does not np.load every .npy "
                             "member under its name",
           key="C06.3:load:arrays")
    for ext, writer, reader in ((".tum", "write_tum_trajectory_file",
                                 "read_tum_trajectory_file"),
                                (".kitti", "write_kitti_poses_file",
                                 "read_kitti_poses_file")):
        w_ok = any(tm.is_const(x, ext) for e in ws
                   for x in e.data["args"][0].walk()) and \
            bool(rs.calls(FI + writer))
        r_ok = bool(rl.calls(FI + reader)) and any(
            tm.is_const(x, ext) for e in rl.calls(FI + reader)
            for t in (e.data["args"][0], e.live) for x in t.walk())
        ctx.ob("C06.3", rs.func, w_ok and r_ok,
               f"result: embedded trajectories use {writer} -> *{ext} -> "
               f"{reader}" if w_ok and r_ok else
               f"embedded trajectory member {ext}: writer/reader pairing "
               f"deviates", key=f"C06.3:traj:{ext}",
               evidence=not (indirect_calls(rs) if not w_ok else
                             indirect_calls(rl)))

    # ... and the suffix is a suffix: the loader selects the members by
    # `name.endswith(ext)`, so the extension has to be the last piece of the
    # member's name
    for e in ws:
        nm = Interp.unname(e.data["args"][0])
        if nm.op != "fstr" or len(nm.args) < 2:
            continue
        exts = {".tum", ".kitti", ".npy"}
        where = [i for i, x in enumerate(nm.args) if isinstance(x, T) and any(
            tm.is_const(y) and tm.const_val(y) in exts for y in x.walk())]
        if not where:
            continue
        ok = where == [len(nm.args) - 1]
        ctx.ob("C06.3", e, ok,
               "result: the format suffix is the end of the member's name "
               "(the loader selects by endswith)" if ok else
               f"result: member name {fmt(nm)[:90]} does not end with its "
               f"format suffix — the loader selects members by "
               f"name.endswith(suffix) and will not find it",
               key="C06.3:save:suffix-last")
    # a member's payload is the *whole* buffer: rewound to 0 after it was
    # filled and before it is read
    for e in ws:
        payload = e.data["args"][1]
        reads = [x for x in payload.walk() if is_call_to(x, ".read") and
                 is_call_to(tm.method_recv(x), "io.BytesIO", "io.StringIO")]
        for rd_ in reads:
            buf = tm.method_recv(rd_)
            rd_ev = [x for x in rs.of_kind("call")
                     if x.data.get("result") is rd_]
            fills = [x for x in rs.of_kind("call") if x.idx < e.idx and
                     x.data["args"] and x.data["args"][0] is buf]
            seeks = [x for x in rs.of_kind("call")
                     if x.data.get("name") == ".seek" and
                     x.data.get("recv") is buf and fills and
                     max(f_.idx for f_ in fills) < x.idx <
                     (rd_ev[0].idx if rd_ev else e.idx)]
            ok = bool(fills) and len(seeks) >= 1 and \
                tm.is_const(seeks[-1].data["args"][0], 0) and \
                not rd_.args[1]
            ctx.ob("C06.3", e, ok,
                   "result: the member is the whole buffer (seek(0) between "
                   "filling and reading it, unbounded read)" if ok else
                   f"result: the buffer written as "
                   f"{fmt(e.data['args'][0])[:50]} is not read from its "
                   f"start / not completely (seek "
                   f"{[fmt(x.data['args'][0]) for x in seeks] or 'missing'}"
                   f"): the stored member loses data",
                   key="C06.3:save:rewind")
    # loaded trajectories are stored under their member's stem
    at = rl.calls("evo.core.result.Result.add_trajectory")
    for e in at:
        b = e.data["bound"] or {}
        nm, tr = b.get("name"), b.get("traj")
        ok = nm is not None and nm.op == "attr" and nm.args[1] == "stem" \
            and tr is not None and is_call_to(
                tr, FI + "read_tum_trajectory_file",
                FI + "read_kitti_poses_file")
        ctx.ob("C06.3", e, bool(ok),
               "result: an embedded trajectory is re-read with its format's "
               "reader and stored under the member's stem" if ok else
               f"load_res_file: add_trajectory(name={fmt(nm)[:50]}, "
               f"traj={fmt(tr)[:50]})", key="C06.3:load:trajectory-name")
    ctx.ob("C06.3", rl.func, len(at) == 2,
           "result: .tum and .kitti members are both loaded back",
           key="C06.3:load:trajectory-kinds", nontrivial=False)
    # ... for *every* member when trajectories are asked for: with
    # load_trajectories=True no further filter (a name selection that is
    # empty for the plain flag ...) may skip a member
    if "load_trajectories" in rl.func.params:
        rt_ = Interp(prog).run(rl.func, {"load_trajectories": const(True)})

        def empty(x: T) -> bool:
            x = Interp.unname(x)
            return (x.op in ("set", "tuple", "list", "dict") and not x.args) \
                or (is_call_to(x, "builtins.set", "builtins.frozenset",
                               "builtins.tuple", "builtins.list") and
                    not x.args[1] and not x.args[2])

        def assign(a: T):
            if a.op in ("and", "or", "not"):
                return None
            if a.op == "iter":
                return True
            if a.op == "cmp" and a.args[0] in ("In", "NotIn") and \
                    empty(a.args[2]):
                return a.args[0] == "NotIn"
            if empty(a):
                return False
            if any(x.op == "attr" and x.args[1] in ("suffix", "name")
                   or is_call_to(x, ".endswith") for x in a.walk()):
                return True        # the member is one of this format
            return None
        for e in rt_.calls("evo.core.result.Result.add_trajectory"):
            v = tm.fold(e.live, assign)
            ctx.ob("C06.3", e, v is not False,
                   "result: with load_trajectories=True every member of the "
                   "format is loaded" if v is not False else
                   f"load_res_file(load_trajectories=True): the member loop "
                   f"at {e.where} skips every member (condition "
                   f"{fmt(e.live)[:120]}) — embedded trajectories of this "
                   f"format silently disappear on load",
                   key="C06.3:load:every-member")

    # every embedded trajectory / array gets its own fresh buffer: a buffer
    # created outside the loop keeps the tail of a longer earlier member
    for ctor, what in (("io.StringIO", "trajectory"), ("io.BytesIO",
                                                       "array")):
        users = [e for e in ws if any(
            is_call_to(x, ctor) for x in e.data["args"][1].walk())]
        for e in users:
            bufs = [x for x in e.data["args"][1].walk()
                    if is_call_to(x, ctor)]
            created = [c for c in rs.calls(ctor)
                       if c.data["result"] is bufs[0]]
            fresh = bool(created) and all(
                set(e.loops) <= set(c.loops) for c in created)
            trunc = any(x.kind == "call" and x.data.get("name") in (
                ".truncate",) and x.data.get("recv") is bufs[0]
                for x in rs.events)
            ctx.ob("C06.3", e, fresh or trunc,
                   f"result: each embedded {what} is written through its own "
                   f"fresh in-memory buffer" if fresh or trunc else
                   f"result: the {ctor} buffer for embedded {what}s is "
                   f"created outside the loop and only rewound: a member "
                   f"that is shorter than an earlier one keeps the earlier "
                   f"one's tail (corrupt .tum/.kitti/.npy member)",
                   key=f"C06.3:save:buffer:{what}")

    # ------------------------------------------------------- C06.4 / C06.5
    traj = tm.param("traj")
    rw = results[FI + "write_tum_trajectory_file"]
    from ..lib import exact_text
    data = exact_text(rw.calls("numpy.savetxt")[0].data["args"][1])
    lw = Layout(_traj_base(traj))
    try:
        wcols = lw.cols(data)
    except LayoutError as e:
        ctx.undecidable("C06.5", rw.func, f"TUM writer layout: {e}")
        wcols = None
    rd = Reader(prog, "read_tum_trajectory_file")
    if wcols is not None and rd.mat is not None:
        ctx.ob("C06.4", rw.func, not lw.row_ops and not lw.scales,
               "TUM writer: all rows, in order, unscaled" if not lw.row_ops
               else f"TUM writer selects rows: {lw.row_ops}",
               key="C06.4:tum-writer")
        lr = Layout(lambda t: wcols if t is rd.mat else None)
        init = prog.func("evo.core.trajectory.PoseTrajectory3D.__init__")
        b = Interp(prog).bind(init, list(rd.r.ret.args[1]),
                              list(rd.r.ret.args[2]), tm.param("<o>"), False)
        want = {"timestamps": ("t",), "positions_xyz": XYZ,
                "orientations_quat_wxyz": WXYZ}
        for pname, w in want.items():
            try:
                got = lr.cols(b[pname])
            except (LayoutError, KeyError) as e:
                ctx.undecidable("C06.5", rd.f, f"TUM reader layout: {e}")
                continue
            ctx.ob("C06.5", rd.f, got == w,
                   f"TUM: reader(writer({pname})) is the identity"
                   if got == w else
                   f"TUM: writing and re-reading maps {pname} = {w} to "
                   f"{got}", key=f"C06.5:tum:{pname}")
        ctx.ob("C06.4", rd.f, not lr.row_ops,
               "TUM reader: all rows, in order", key="C06.4:tum-reader")
    # KITTI: flatten()[:-4] vs entry (i,j) <- column 4i+j  (checked in C07);
    # composition: 16 row-major entries, first 12 written, 12 read back
    rk = results[FI + "write_kitti_poses_file"]
    d = rk.calls("numpy.savetxt")[0].data["args"][1]
    pe = per_element(d)
    ok = pe is not None and not pe[3] and pe[0].op == "sub" and \
        is_call_to(pe[0].args[0], ".flatten") and \
        pe[0].args[1] in (T("slice", tm.NONE, const(-4), tm.NONE),
                          T("slice", tm.NONE, const(12), tm.NONE))
    from .c07 import _kitti_rows
    tv = _kitti_rows(d, tm.attr(tm.param("traj"), "poses_se3"))
    if tv is not None:
        ok = tv[0]
    ctx.ob("C06.5", rk.func, ok,
           "KITTI: writer emits entries 0..11 of the row-major matrix, the "
           "reader places column 4i+j at (i, j): identity on the 3x4 block"
           if ok else f"KITTI writer rows: {fmt(d)}", key="C06.5:kitti")
    # pandas bridge
    rt = results["evo.tools.pandas_bridge.trajectory_to_df"]
    rf = results["evo.tools.pandas_bridge.df_to_trajectory"]
    dfc = rt.ret
    cols: Dict[str, tuple] = {}
    idx = None
    if is_call_to(dfc, "pandas.DataFrame"):
        kw = dict(dfc.args[2])
        dd = kw.get("data")
        idx = kw.get("index")
        if dd is not None and dd.op == "dict":
            lay = Layout(_traj_base(traj))
            for k, v in dd.args:
                try:
                    cols[k.args[1]] = lay.cols(v)
                except LayoutError:
                    cols[k.args[1]] = None
    okw = cols == {"x": ("x",), "y": ("y",), "z": ("z",), "qw": ("qw",),
                   "qx": ("qx",), "qy": ("qy",), "qz": ("qz",)}
    if not okw and (not cols or None in cols.values()):
        # the column table is not a literal {name: traj column} dictionary
        # (dict(zip(names, array.T)), a frame built column by column ...)
        ctx.undecidable("C06.5", rt.func, f"trajectory_to_df: column "
                        f"contents not read from a literal dictionary: "
                        f"{fmt(dfc)[:120]}")
    else:
        ctx.ob("C06.5", rt.func, okw,
             "DataFrame columns x y z qw qx qy qz carry the like-named "
             "trajectory columns" if okw else
             f"trajectory_to_df column contents: {cols}",
             key="C06.5:pandas:to_df")
    okidx = idx is not None and any(a is tm.attr(traj, "timestamps")
                                    for a in tm.strip_ite(idx))
    ctx.ob("C06.5", rt.func, okidx, "DataFrame index = timestamps",
           key="C06.5:pandas:index")
    df = tm.param("df")
    sel = lambda ks: tm.call(tm.attr(tm.sub(df, T("list", *[const(k) for k
                                                            in ks])),
                                     "to_numpy"), (), ())
    # (column lists given as named module constants are their values)
    rf_ret = rf.ret.map(lambda x: x.args[1] if (
        x.op == "named" and x.args[1].op in ("list", "tuple")) else None)
    alts = tm.strip_ite(rf_ret)
    okr = bool(alts) and all(
        a.op == "call" and a.args[1][:2] == (sel(XYZ), sel(WXYZ))
        for a in alts) and any(
        len(a.args[1]) == 3 and a.args[1][2] is tm.call(
            tm.attr(tm.attr(df, "index"), "to_numpy"), (), ())
        for a in alts)
    ctx.ob("C06.5", rf.func, okr,
           "df_to_trajectory selects (x,y,z), (qw,qx,qy,qz) and the index "
           "back into positions / quaternions / timestamps" if okr else
           f"df_to_trajectory rebuilds {fmt(rf.ret)}",
           key="C06.5:pandas:from_df")
    # whether the frame comes back *with* timestamps is decided by the kind
    # of its index (the integer pose counter trajectory_to_df writes for a
    # path) or by the requested type — never by the index values: 0, 1, 2 ...
    # are valid timestamps and must come back as timestamps
    dfi = tm.attr(df, "index")
    path_rets = [(v, l) for v, l in rf.returns
                 if v.op == "call" and len(v.args[1]) == 2 and not v.args[2]]
    for v, l in path_rets:
        ats = [a for a in tm.atoms(l) if any(x is dfi for x in a.walk())]
        by_value = [a for a in ats if not any(
            x.op == "attr" and x.args[1] in ("dtype", "inferred_type") and
            x.args[0] is dfi for x in a.walk()) and not any(
            is_call_to(x, "pandas.api.types.is_integer_dtype",
                       "numpy.issubdtype") for x in a.walk())]
        by_kind = [a for a in ats if a not in by_value]
        if by_value:
            ctx.ob("C06.5", rf.func, False,
                   f"df_to_trajectory drops the timestamps when "
                   f"{fmt(by_value[0])[:90]}: the decision looks at the "
                   f"index *values*, so a trajectory whose stamps are 0, 1, "
                   f"2, ... (or a single pose at 0.0) comes back as a path "
                   f"without timestamps", key="C06.5:pandas:path-by-kind")
        elif by_kind or not ats:
            ctx.ob("C06.5", rf.func, True,
                   "df_to_trajectory returns a path (no timestamps) only by "
                   "the requested type / the integer kind of the index",
                   key="C06.5:pandas:path-by-kind")
    ctx.section(_bag, ctx, prog)
    ctx.section(_bag_callers, ctx, prog)


def _bag_callers(ctx, prog):
    """'export to a ROS1 bag preserves ... the frame id': every export call
    passes the frame id stored with the *exported* trajectory (its
    meta["frame_id"]), not that of another object"""
    n = 0
    for q, r in sorted(sweep(prog, "plain").items()):
        if not q.startswith("evo.main_"):
            continue
        for e in r.calls(FI + "write_bag_trajectory"):
            if tm.is_const(e.live, False):
                continue
            b = e.data["bound"] or {}
            tr, fid = b.get("traj"), b.get("frame_id")
            owners = {x.args[0] for x in (fid.walk() if fid is not None
                                          else ()) if x.op == "attr" and
                      x.args[1] == "meta"}
            n += 1
            ok = tr is not None and owners == {tr}
            ctx.ob("C06.6", e, ok,
                   f"{q}: the bag export passes the frame id of the "
                   f"trajectory it writes" if ok else
                   f"{q}: the bag export of {fmt(tr)[:60]} passes the frame "
                   f"id {fmt(fid)[:80]} — "
                   + ("that of another object" if owners else
                      "not the one stored with the trajectory"),
                   key=f"C06.6:bag:caller-frame-id:{q}")
    ctx.require(n >= 1, "bag export call sites of evo_traj not found")


def _bag(ctx, prog):
    f = prog.func(FI + "write_bag_trajectory")
    traj = tm.param("traj")

    def assume(t: T):
        if is_call_to(t, "builtins.isinstance"):
            return True
        return None
    r = Interp(prog, assume=assume).run(f)
    # values prepared for all messages at once (floor / astype / tolist on
    # the whole arrays) read like the per-message code
    from ..lib import push_elem
    for e in r.events:
        for k in ("args", ):
            if isinstance(e.data.get(k), (list, tuple)):
                e.data[k] = type(e.data[k])(
                    push_elem(a) if isinstance(a, T) else a
                    for a in e.data[k])
        if isinstance(e.data.get("kwargs"), (list, tuple)):
            e.data["kwargs"] = type(e.data["kwargs"])(
                (kk, push_elem(v)) for kk, v in e.data["kwargs"])
    zips = r.calls("builtins.zip")
    views = (tm.attr(traj, "timestamps"), tm.attr(traj, "positions_xyz"),
             tm.attr(traj, "orientations_quat_wxyz"))
    ok = bool(zips) and tuple(zips[0].data["args"]) == views
    if not ok and zips:
        # the zipped columns are element-wise images of the three views
        # (and of nothing else), each view present
        def base(x: T):
            for _ in range(8):
                if is_call_to(x, ".tolist", ".astype", ".copy"):
                    x = tm.method_recv(x)
                elif is_call_to(x, "numpy.floor", "numpy.asarray") and \
                        x.args[1]:
                    x = x.args[1][0]
                elif x.op == "sub" and tm.is_const(x.args[1]) and \
                        is_call_to(x.args[0], "numpy.divmod") and \
                        x.args[0].args[1]:
                    x = x.args[0].args[1][0]
                elif x.op == "binop":
                    vs = [y for y in (x.args[1], x.args[2])
                          if any(z is v for v in views for z in y.walk())]
                    if len({id(b_) for b_ in map(base, vs)}) != 1:
                        return None
                    x = base(vs[0])
                    break
                else:
                    break
            return x
        bases = [base(a) for a in zips[0].data["args"]]
        ok = all(any(b_ is v for v in views) for b_ in bases) and \
            all(any(b_ is v for b_ in bases) for v in views)
    ok_lock = ok
    ctx.ob("C06.4", f, ok,
           "bag writer: stamps, positions and quaternions are iterated in "
           "lock-step, all poses in order" if ok else
           "bag writer does not iterate the three views in lock-step",
           key="C06.4:bag-writer")
    kwcalls = [e for e in r.of_kind("call") if e.data["kwargs"] and
               not e.data["args"]]
    pos = [e for e in kwcalls if set(dict(e.data["kwargs"])) ==
           {"x", "y", "z"}]
    quat = [e for e in kwcalls if set(dict(e.data["kwargs"])) ==
            {"w", "x", "y", "z"}]
    ok = False
    ev_fields = False
    if pos and quat:
        pk, qk = dict(pos[0].data["kwargs"]), dict(quat[0].data["kwargs"])
        pe = [pk[k] for k in "xyz"]
        qe = [qk[k] for k in "wxyz"]
        # a deviation is evident when every field is a plain component of
        # one of the trajectory's views (and then a wrong one)
        ev_fields = all(
            v.op == "sub" and tm.is_const(v.args[1]) and
            v.args[0].op == "elem" and any(v.args[0].args[0] is w
                                           for w in views)
            for v in pe + qe)
        ok = all(v.op == "sub" and tm.is_const(v.args[1], i) and
                 v.args[0].op == "elem" and
                 v.args[0].args[0] is tm.attr(traj, "positions_xyz")
                 for i, v in enumerate(pe)) and \
            all(v.op == "sub" and tm.is_const(v.args[1], i) and
                v.args[0].op == "elem" and
                v.args[0].args[0] is tm.attr(traj, "orientations_quat_wxyz")
                for i, v in enumerate(qe))
    ctx.ob("C06.5", f, ok,
           "bag writer: Point(x,y,z) <- positions[0..2], Quaternion(w,x,y,z)"
           " <- quaternion[0..3] (inverse of the reader's [w,x,y,z] list)"
           if ok else "bag writer fills message fields from the wrong "
                      "components", key="C06.5:bag:fields",
           evidence=ev_fields)
    # C06.6 time split
    ints = [e for e in r.of_kind("call")
            if e.data.get("name") == "builtins.int"]
    stamp = None
    for e in r.of_kind("loop"):
        it_ = e.data["iter"]
        if is_call_to(it_, "builtins.enumerate") and it_.args[1]:
            it_ = it_.args[1][0]            # for k, (t, p, q) in enumerate(..)
        if is_call_to(it_, "builtins.zip"):
            stamp = T("elem", it_.args[1][0], e.data["lid"])
            if it_.args[1][0] is not views[0] and ok_lock:
                # columns prepared from the views: the stamp of message l
                stamp = T("elem", views[0], e.data["lid"])
    times = [e for e in r.of_kind("call") if len(e.data["args"]) in (1, 2)
             and any(x.op == "const" and x.args[1] ==
                     "builtin_interfaces/msg/Time"
                     for x in e.data["fn"].walk())]
    ctx.require(stamp is not None and bool(times),
                "bag writer: Time(sec, nanosec) construction not found")
    targs = list(times[0].data["args"])
    if len(targs) == 1 and targs[0].op == "star" and is_call_to(
            targs[0].args[0], "builtins.divmod") and \
            len(targs[0].args[0].args[1]) == 2:
        # Time(*divmod(sec * N + ns, N)) is Time(sec, ns) for 0 <= ns < N
        total, n_ = targs[0].args[0].args[1]
        if total.op == "binop" and total.args[0] == "Add":
            for a_, b_ in ((total.args[1], total.args[2]),
                           (total.args[2], total.args[1])):
                if a_.op == "binop" and a_.args[0] == "Mult" and \
                        n_ in (a_.args[1], a_.args[2]):
                    targs = [a_.args[2] if a_.args[1] is n_ else a_.args[1],
                             b_]
        if len(targs) == 1:
            # both fields are derived from one total (e.g. int(stamp * 1e9)):
            # judged below as "scaled as a whole"
            targs = [total, total]
    ctx.require(len(targs) == 2, "bag writer: Time(sec, nanosec) "
                "construction not recognised")
    sec, nsec = targs
    if sec.op == "sub" and nsec.op == "sub" and sec.args[0] is nsec.args[0] \
            and is_call_to(sec.args[0], "builtins.divmod", "numpy.divmod") \
            and tm.is_const(sec.args[1], 0) and tm.is_const(nsec.args[1], 1) \
            and len(sec.args[0].args[1]) == 2 and not (
                sec.args[0].args[1][0] is stamp):
        # both fields from one integer total (divmod(int(stamp * 1e9), 1e9))
        sec = nsec = sec.args[0].args[1][0]
    floor_ok = is_call_to(sec, "builtins.int", "math.floor") and \
        sec.args[1] and ((sec.args[1][0].op == "binop" and
                          sec.args[1][0].args[0] == "FloorDiv" and
                          sec.args[1][0].args[1] is stamp and
                          tm.is_const(sec.args[1][0].args[2], 1)) or
                         is_call_to(sec.args[1][0], "math.floor",
                                    "numpy.floor"))
    one = lambda z: tm.is_const(z) and not isinstance(
        z.args[1], bool) and z.args[1] == 1

    def dm(x: T, k: int) -> bool:
        # divmod(stamp, 1)[k] in floating point
        return x.op == "sub" and tm.is_const(x.args[1], k) and \
            is_call_to(x.args[0], "builtins.divmod") and \
            len(x.args[0].args[1]) == 2 and \
            x.args[0].args[1][0] is stamp and one(x.args[0].args[1][1])
    if not floor_ok and is_call_to(sec, "builtins.int") and sec.args[1] \
            and dm(sec.args[1][0], 0):
        floor_ok = True
    rem = T("binop", "Sub", stamp, sec)
    rem2 = T("binop", "Sub", stamp, sec.args[1][0]) if (
        is_call_to(sec, "builtins.int") and sec.args[1]) else rem
    from_rem = any(
        x is rem or x is rem2 or dm(x, 1) or
        (x.op == "binop" and x.args[0] == "Mod" and x.args[1] is stamp and
         one(x.args[2])) for x in nsec.walk()) and any(
        tm.is_const(x) and x.args[1] == 1e9 for x in nsec.walk())
    full_scaled = any(x.op == "binop" and x.args[0] == "Mult" and
                      stamp in (x.args[1], x.args[2]) and any(
                          tm.is_const(y) and y.args[1] in (1e9, 10 ** 9)
                          for y in (x.args[1], x.args[2]))
                      for x in list(nsec.walk()) + list(sec.walk()))
    if from_rem and floor_ok:
        ctx.ob("C06.6", times[0], True,
               "bag writer: sec = floor(stamp), nanosec = (stamp - sec) * "
               "1e9 (from the fractional remainder)",
               key="C06.6:bag:split")
    elif full_scaled:
        ctx.ob("C06.6", times[0], False,
               f"bag writer derives sec/nanosec from stamp * 1e9 "
               f"({fmt(nsec)[:100]}): for epoch timestamps (~1.7e9 s) the "
               f"product ~1.7e18 exceeds 2^53 and is rounded to multiples "
               f"of 256 ns — timestamps are off by more than 1 ns",
               key="C06.6:bag:split")
    else:
        ctx.undecidable("C06.6", times[0], f"bag time split idiom not "
                        f"recognised: sec={fmt(sec)}, nanosec={fmt(nsec)}")
    g = prog.func(FI + "read_bag_trajectory")
    rg = Interp(prog).run(g)
    apps = [e for e in rg.of_kind("call") if e.data.get("mutates_recv") and
            e.data["name"] == ".append" and e.data["args"] and any(
                x.op == "attr" and x.args[1] == "nanosec"
                for x in e.data["args"][0].walk())]
    ok = False

    def reassembled(v: T) -> bool:
        return v.op == "binop" and v.args[0] == "Add" and any(
            x.op == "attr" and x.args[1] == "sec" for x in v.args[1].walk()) \
            and any(tm.is_const(x) and x.args[1] == 1e-9
                    for x in v.args[2].walk())
    if apps:
        ok = reassembled(apps[0].data["args"][0])
    else:
        # the stamps built by a comprehension / helper: the value that
        # mentions `.nanosec` anywhere in what the reader returns
        cands = [x for x in rg.ret.walk() if x.op == "binop" and any(
            y.op == "attr" and y.args[1] == "nanosec" for y in x.walk())]
        tops = [x for x in cands if not any(
            x is not y and any(z is x for z in y.walk()) for y in cands)]
        if tops:
            ok = all(reassembled(x) for x in tops)
        else:
            ctx.undecidable("C06.6", g, "bag reader: no value built from "
                            "`.nanosec` found in what is returned")
            ok = None
    if ok is not None:
        ctx.ob("C06.6", apps[0] if apps else g, ok,
             "bag reader: t = sec + nanosec * 1e-9 (reciprocal constant)"
             if ok else "bag reader does not reassemble sec + nanosec * 1e-9",
             key="C06.6:bag:reassemble")
    fr = [e for e in rg.of_kind("call") if (e.data.get("name") or "")
          .endswith("PoseTrajectory3D")]
    ok = bool(fr) and any(
        k == "meta" and any(tm.is_const(x, "frame_id") for x in v.walk())
        for k, v in fr[0].data["kwargs"])
    ctx.ob("C06.6", g, ok, "bag reader keeps the frame id in meta",
           key="C06.6:bag:frame-id", nontrivial=False)


VARIANTS = [
    dict(name="result-member-suffix-first", file="evo/tools/file_interface.py",
         find="            archive.writestr(\"{}{}\".format(name, fmt_suffix),",
         replace="            archive.writestr(\"{}{}\".format(fmt_suffix, name),",
         expect="fire", rule="C06.3"),
    dict(name="result-member-fstring", file="evo/tools/file_interface.py",
         find="            archive.writestr(\"{}{}\".format(name, fmt_suffix),",
         replace="            archive.writestr(f\"{name}{fmt_suffix}\",",
         expect="silent"),
    dict(name="fmt-9f", file="evo/tools/file_interface.py",
         find="    np.savetxt(file_path, mat, delimiter=\" \")",
         replace="    np.savetxt(file_path, mat, delimiter=\" \", fmt=\"%.9f\")",
         expect="fire", rule="C06.1"),
    dict(name="fmt-mixed-list", file="evo/tools/file_interface.py",
         find="    np.savetxt(file_path, mat, delimiter=\" \")",
         replace="    np.savetxt(file_path, mat, delimiter=\" \", fmt=[\"%.9f\"] + 7 * [\"%.18e\"])",
         expect="fire", rule="C06.1"),
    dict(name="fmt-explicit-18e", file="evo/tools/file_interface.py",
         find="    np.savetxt(file_path, mat, delimiter=\" \")",
         replace="    np.savetxt(file_path, mat, delimiter=\" \", fmt=\"%.18e\")",
         expect="silent"),
    dict(name="stamps-rounded", file="evo/tools/file_interface.py",
         find="    stamps = traj.timestamps\n    xyz = traj.positions_xyz\n    # shift -1",
         replace="    stamps = np.round(traj.timestamps, 6)\n    xyz = traj.positions_xyz\n    # shift -1",
         expect="fire", rule="C06.2"),
    dict(name="reader-float32", file="evo/tools/file_interface.py",
         find="    try:\n        mat = np.array(raw_mat).astype(float)\n    except ValueError:\n"
              "        raise FileInterfaceException(error_msg)\n    stamps = mat[:, 0]  # n x 1",
         replace="    try:\n        mat = np.array(raw_mat).astype(np.float32)\n    except ValueError:\n"
                 "        raise FileInterfaceException(error_msg)\n    stamps = mat[:, 0]  # n x 1",
         expect="fire", rule="C06.2"),
    dict(name="arrays-as-json", file="evo/tools/file_interface.py",
         find="            np.save(array_buffer, array)",
         replace="            np.save(array_buffer, np.round(array, 9))",
         expect="fire", rule="C06.2"),
    dict(name="writer-drops-first-row", file="evo/tools/file_interface.py",
         find="    mat = np.column_stack((stamps, xyz, quat))\n    np.savetxt(file_path, mat, delimiter=\" \")",
         replace="    mat = np.column_stack((stamps, xyz, quat))\n    np.savetxt(file_path, mat[1:], delimiter=\" \")",
         expect="fire", rule="C06.4"),
    dict(name="bag-ns-from-full-stamp", file="evo/tools/file_interface.py",
         find="        sec = int(stamp // 1)\n        nanosec = int((stamp - sec) * 1e9)",
         replace="        stamp_ns = int(stamp * 1e9)\n        sec, nanosec = divmod(stamp_ns, 10**9)",
         expect="fire", rule="C06.6"),
    dict(name="df-quat-order", file="evo/tools/pandas_bridge.py",
         find="    quat_wxyz = df[[\"qw\", \"qx\", \"qy\", \"qz\"]].to_numpy()",
         replace="    quat_wxyz = df[[\"qx\", \"qy\", \"qz\", \"qw\"]].to_numpy()",
         expect="fire", rule="C06.5"),
    dict(name="stats-member-renamed", file="evo/tools/file_interface.py",
         find="        archive.writestr(\"stats.json\", json.dumps(result_obj.stats))",
         replace="        archive.writestr(\"statistics.json\", json.dumps(result_obj.stats))",
         expect="fire", rule="C06.3"),
]
