"""C20 — plots draw the trajectory's own coordinates on the labelled axes."""
from __future__ import annotations

from typing import List, Optional

from .. import terms as tm
from ..effects import Summaries
from ..interp import Interp
from ..lib import fmt, fuse_elems, indirect_calls, is_call_to, per_element, \
    sweep
from ..terms import T, const

EXPLANATION = """
C20.1 (constant propagation over the 7 PlotMode members): plot_mode_to_idx
maps mode 'ab[c]' to ('xyz'.index(a), 'xyz'.index(b), 2 iff 3-D) and
prepare_axis labels the x/y(/z) axes with the same letters and the configured
unit's value; traj_xyz / traj_rpy label row i with the quantity plotted in row
i. C20.2 axis provenance: in traj, add_start_end_markers and
colored_line_collection the k-th positional data argument derives from
positions[..., idx_k] with idx_k the k-th result of plot_mode_to_idx for the
same plot_mode; the third coordinate is used iff the mode is xyz. C20.3:
segments are zip(xyz[:-1:step], xyz[1::step]) per axis, zipped in x, y(, z)
order; correspondence edges interleave trajectory 1 at even and trajectory 2
at odd rows with step=2; coordinate-frame markers start at p[:3,3] and end at
p . (s*e_k, 1) (equivalently p[:3,3] + s*p[:3,k], the k-th *column*), in x,
y, z order with colours in the same order and step=2; colours of
traj_colormap are mapped from the value array in order. C20.4: time axes are
timestamps - start (or unshifted), an index range without timestamps; speeds
pair timestamps[1:] with traj.speeds; error_array passes (x_array, err_array)
in that order and cumsum only when cumulative. C20.5: the tick formatter
divides by METER_SCALE_FACTORS[unit], is installed on every axis iff the unit
is not meters, non-length units raise. C20.6: plotting functions have no
write effect on their trajectory / array arguments (a second plot call must
see the same data).
"""
UNDECIDED = [
    "what matplotlib renders from the artists (library)",
    "Euler-angle naming for non-default euler_angle_sequence settings",
]
TRUSTED = ["matplotlib Axes.plot / scatter / LineCollection semantics"]
ASSUMPTIONS = []
MANIFEST = dict(
    text="Decides, for all 7 plot modes, which trajectory coordinate reaches "
         "which plot axis and which letter labels it (index table, axis "
         "labels and data columns agree), the vertex pairing of segments, "
         "edges and coordinate-frame markers (column of the pose's own "
         "rotation), the time axes of the per-axis / rpy / speed / error "
         "plots, the unit formatter, and that plotting does not modify its "
         "inputs. Rendering by matplotlib is trusted.",
    note="Only what evo hands to matplotlib is decided, not the rendered "
         "image.",
    technique="per-enum-member constant propagation + argument provenance "
              "with column/slice tags + loop unrolling over constant ranges "
              "+ effect summaries",
)
FLOORS = {"C20.1": 20, "C20.2": 20, "C20.3": 16, "C20.4": 8, "C20.5": 3,
          "C20.6": 8, "C20.8": 7, "C20.9": 4, "C20.10": 1}

PL = "evo.tools.plot."
PM = PL + "PlotMode"
XYZ = "xyz"
ALL = T("slice", tm.NONE, tm.NONE, tm.NONE)


def _helpers(f) -> bool:
    """module-private helpers of plot.py are looked through"""
    return f.module.name == "evo.tools.plot" and f.cls is None and \
        f.name.startswith("_") and f.name != "_get_length_formatter"


def _memo_assume(t: T):
    """a module-level memo table is read as empty (`TABLE.get(key) is None`,
    `key not in TABLE`): the value is then computed afresh, and that the
    stored one equals it is the memo-key rule's business"""
    def table(x: T) -> bool:
        return x.op == "named" and x.args[1].op == "dict" and \
            not x.args[1].args
    if t.op == "cmp" and t.args[0] in ("Is", "IsNot") and \
            t.args[2] is tm.NONE and is_call_to(t.args[1], ".get") and \
            table(tm.method_recv(t.args[1])):
        return t.args[0] == "Is"
    if t.op == "cmp" and t.args[0] in ("In", "NotIn") and table(t.args[2]):
        return t.args[0] == "NotIn"
    return None


def _memo_keys(ctx, prog, f_ax, pmq):
    """C20.1: a label looked up in a module-level memo table must be keyed
    by everything it was computed from — a key without the length unit
    returns the first unit's label for every later unit"""
    uq = prog.cls("evo.core.units.Unit").qualname
    it = Interp(prog, inline=lambda fn: _helpers(fn) or fn.qualname ==
                PL + "plot_mode_to_idx", max_depth=4)
    r = it.run(f_ax)
    for e in r.of_kind("setitem"):
        b = e.data["base"]
        if not (b.op == "named" and b.args[1].op == "dict"):
            continue
        kps = {x.args[0] for x in e.data["index"].walk() if x.op == "param"}
        vps = {x.args[0] for x in e.data["value"].walk() if x.op == "param"}
        missing = sorted(vps - kps)
        ctx.ob("C20.1", e, not missing,
               f"memo table {b.args[0].rsplit('.', 1)[-1]}: keyed by every "
               f"input of the cached value ({sorted(vps)})" if not missing
               else
               f"memo table {b.args[0].rsplit('.', 1)[-1]} caches a value "
               f"computed from {sorted(vps)} under a key made of "
               f"{sorted(kps)} only: after the first call the cached labels "
               f"are returned for every other {missing[0]} (e.g. '$x$ (m)' "
               f"on a millimetre axis)", key="C20.1:memo-key")


def _label_texts(prog, f_ax, pmq, m, axis):
    """[(unit text, label text)] of the axis label prepare_axis sets for
    plot mode m, one per length unit, by evaluation; [] if no label is set;
    None if a label does not evaluate to a text"""
    from ..lib import const_eval, _NoValue
    uq = prog.cls("evo.core.units.Unit").qualname
    out = []
    for um in ("millimeters", "centimeters", "meters", "kilometers"):
        if um not in (prog.enum_members(uq) or []):
            continue
        it = Interp(prog, inline=lambda fn: _helpers(fn) or fn.qualname ==
                    PL + "plot_mode_to_idx", max_depth=4,
                    assume=_memo_assume)
        r = it.run(f_ax, {"plot_mode": tm.enum(pmq, m),
                          "length_unit": tm.enum(uq, um)})
        uval = it.get_attr(tm.enum(uq, um), "value", None, tm.TRUE)
        for e in r.of_kind("call"):
            n = e.data.get("name") or ""
            if n == f".set_{axis}label" and e.data["args"] and \
                    tm.fold(e.live, lambda t: True if is_call_to(
                        t, "builtins.isinstance") else None) is not False:
                try:
                    out.append((tm.const_val(uval),
                                const_eval(e.data["args"][0])))
                except _NoValue:
                    return None
    return out


def _col(base: T, idx: T) -> T:
    return tm.sub(base, T("tuple", ALL, idx))


def check(ctx):
    prog = ctx.prog
    members = prog.enum_members(PM)
    ctx.require(members is not None and len(members) == 7,
                f"PlotMode members changed: {members}")
    pmq = prog.cls(PM).qualname
    f_idx = prog.func(PL + "plot_mode_to_idx")
    f_ax = prog.func(PL + "prepare_axis")
    ctx.analysed_fn(f_idx.qualname, f_ax.qualname, PL + "traj",
                    PL + "add_start_end_markers",
                    PL + "colored_line_collection", PL + "traj_colormap",
                    PL + "draw_coordinate_axes",
                    PL + "draw_correspondence_edges", PL + "traj_xyz",
                    PL + "traj_rpy", PL + "speeds", PL + "error_array")
    # --------------------------------------------------------------- C20.1
    for m in members:
        ctx.require(all(c in XYZ for c in m) and len(m) in (2, 3),
                    f"PlotMode.{m}: unexpected name")
        want = (XYZ.index(m[0]), XYZ.index(m[1]), 2 if len(m) == 3 else None)
        r = Interp(prog, inline=_helpers).run(f_idx, {"plot_mode": tm.enum(pmq, m)})
        ctx.analysed["configs"] += 1
        ret = r.ret
        got = tuple(a.args[1] if tm.is_const(a) else "?" for a in ret.args) \
            if ret.op == "tuple" else None
        ok = got == want
        ctx.ob("C20.1", f_idx, ok,
               f"plot_mode_to_idx({m}) = {want}" if ok else
               f"plot_mode_to_idx({m}) = {got}, but mode '{m}' means "
               f"x-axis <- {m[0]}, y-axis <- {m[1]}"
               f"{', z-axis <- z' if len(m) == 3 else ''}: {want}",
               key=f"C20.1:idx:{m}")
        r = Interp(prog, inline=_helpers).run(f_ax, {"plot_mode": tm.enum(pmq, m)})
        labels = {}
        cond_labels = {}
        for e in r.of_kind("call"):
            n = e.data.get("name") or ""
            if n in (".set_xlabel", ".set_ylabel", ".set_zlabel") and \
                    e.data["args"] and not tm.is_const(e.live, False):
                labels[n[5]] = e.data["args"][0]
        # ... for every supported unit (the symbolic run above shows *what*
        # the label is, these runs show that it is always set)
        uq = prog.cls("evo.core.units.Unit").qualname
        for um in ("millimeters", "centimeters", "meters", "kilometers"):
            if um not in (prog.enum_members(uq) or []):
                continue
            ru = Interp(prog, inline=lambda fn: _helpers(fn) or
                        fn.qualname == PL + "plot_mode_to_idx",
                        max_depth=4).run(
                f_ax, {"plot_mode": tm.enum(pmq, m),
                       "length_unit": tm.enum(uq, um)})
            seen_ = set()
            for e in ru.of_kind("call"):
                n = e.data.get("name") or ""
                if n in (".set_xlabel", ".set_ylabel", ".set_zlabel") and \
                        tm.fold(e.live, lambda t: True if is_call_to(
                            t, "builtins.isinstance") else None) is True:
                    seen_.add(n[5])
            for ax_ in labels:
                if ax_ not in seen_:
                    cond_labels[ax_] = f"the length unit is {um}"
        unit_v = tm.attr(tm.param("length_unit"), "value")
        for axis, letter in (("x", m[0]), ("y", m[1])) + \
                ((("z", "z"),) if len(m) == 3 else ()):
            lab = labels.get(axis)
            txt = "".join(x.args[1] for x in lab.args
                          if tm.is_const(x) and isinstance(x.args[1], str)) \
                if lab is not None and lab.op == "fstr" else (
                    lab.args[1] if lab is not None and tm.is_const(lab)
                    else "")
            ok = f"${letter}$" in txt and lab is not None and any(
                x is unit_v for x in lab.walk())
            if not ok:
                # composed by helpers / looked up by index: evaluated for
                # every unit with the index helper looked through
                ev = _label_texts(prog, f_ax, pmq, m, axis)
                if ev is not None:
                    ok = bool(ev) and all(
                        f"${letter}$" in t_ and f"({u_})" in t_
                        for u_, t_ in ev)
                    if not ok and ev:
                        badu = [(u_, t_) for u_, t_ in ev
                                if not (f"${letter}$" in t_ and
                                        f"({u_})" in t_)]
                        lab = const(f"{badu[0][1]} for length unit "
                                    f"'{badu[0][0]}'")
            if ok and axis in cond_labels:
                ctx.ob("C20.1", f_ax, False,
                       f"prepare_axis({m}): the {axis}-axis label is "
                       f"not set when {cond_labels[axis]} — the axis then "
                       f"stays unlabelled",
                       key=f"C20.1:label:{m}:{axis}")
                continue
            ctx.ob("C20.1", f_ax, ok,
                   f"prepare_axis({m}): {axis}-axis labelled ${letter}$ "
                   f"with the configured unit" if ok else
                   f"prepare_axis({m}): {axis}-axis label is {fmt(lab)} — "
                   f"the data on that axis is coordinate {letter} in the "
                   f"configured length unit",
                   key=f"C20.1:label:{m}:{axis}",
                   # no label seen, but calls through a table of setters
                   evidence=lab is not None or not indirect_calls(r))
        if len(m) == 2 and "z" in labels and \
                _label_texts(prog, f_ax, pmq, m, "z") == []:
            del labels["z"]        # unreachable once the indices are known
        if len(m) == 2:
            ctx.ob("C20.1", f_ax, "z" not in labels,
                   f"prepare_axis({m}): no z label in 2-D",
                   key=f"C20.1:label:{m}:z", nontrivial=False)

    ctx.section(_memo_keys, ctx, prog, f_ax, pmq)
    ctx.section(_traj, ctx, prog)
    ctx.section(_segments, ctx, prog)
    ctx.section(_markers, ctx, prog)
    ctx.section(_time_axes, ctx, prog)
    ctx.section(_formatter, ctx, prog)
    ctx.section(_euler_default, ctx, prog)
    ctx.section(_euler_getter, ctx, prog)
    ctx.section(_result_plots, ctx, prog)
    ctx.section(_purity, ctx, prog)
    # the plotted quantities are the trajectory's *current* ones: speeds,
    # distances, path length are derived on demand and not cached across
    # operations that change the poses (instances of C08.7)
    from ..core import import_rules
    n = import_rules(ctx, "c08", ("C08.7",), "C20.9")
    ctx.require(n >= 4, "C20.9: derived-quantity instances not found")


# --------------------------------------------------------------------- C20.2
def _flat_args(args) -> Optional[list]:
    """positional arguments with `*[a, b, ...]` of a known list expanded;
    None if a starred argument is not a known list"""
    out = []
    for a in args:
        if a.op == "star":
            inner = Interp.unname(a.args[0])
            arr = _selected(inner)
            if arr is not None:
                out.extend(arr)
                continue
            if inner.op not in ("list", "tuple") or any(
                    x.op == "star" for x in inner.args):
                return None
            out.extend(inner.args)
        else:
            out.append(a)
    return out


def _selected(t: T) -> Optional[list]:
    """the items of an array selection with a constant column list:
    P[:, [c..]].T -> the columns P[:, c];  P[r, [c..]] -> the entries
    P[r][c]"""
    tr = False
    if t.op == "attr" and t.args[1] == "T":
        t, tr = Interp.unname(t.args[0]), True
    elif is_call_to(t, ".transpose", "numpy.transpose") and not t.args[2]:
        t = Interp.unname(tm.method_recv(t) if t.args[0].op == "attr"
                          else t.args[1][0])
        tr = True
    if t.op != "sub" or t.args[1].op != "tuple" or \
            len(t.args[1].args) != 2:
        return None
    r, c = t.args[1].args
    c = Interp.unname(c)
    if c.op not in ("list", "tuple") or not all(tm.is_const(x)
                                                for x in c.args):
        return None
    if tr and r is ALL:
        return [_col(t.args[0], x) for x in c.args]
    if not tr and tm.is_const(r):
        return [tm.sub(tm.sub(t.args[0], r), x) for x in c.args]
    return None


def _mode_idx(prog, pmq, m):
    """plot_mode_to_idx(PlotMode.m), folded (C20.1 decides its values)"""
    r = Interp(prog, inline=_helpers).run(
        prog.func(PL + "plot_mode_to_idx"), {"plot_mode": tm.enum(pmq, m)})
    if r.ret.op != "tuple" or not all(tm.is_const(a) for a in r.ret.args):
        return None
    return [a.args[1] for a in r.ret.args]


def _traj(ctx, prog):
    """decided per plot mode: with the mode fixed, the index helper folds to
    its three constants and every spelling of "take the columns the mode
    names" (unpacked indices, a filtered list of them, *coords) evaluates to
    the same argument list"""
    f = prog.func(PL + "traj")
    g = prog.func(PL + "add_start_end_markers")
    pmq = prog.cls(PM).qualname
    pos = tm.attr(tm.param("traj"), "positions_xyz")
    inl = lambda fn: _helpers(fn) or fn.qualname == PL + "plot_mode_to_idx"
    for m in prog.enum_members(PM):
        idx = _mode_idx(prog, pmq, m)
        ctx.require(idx is not None, f"plot_mode_to_idx({m}) does not fold "
                    f"to constants")
        shown = [i for i in idx if i is not None]
        cfg = {"plot_mode": tm.enum(pmq, m)}
        r = Interp(prog, inline=inl).run(f, cfg)
        ctx.analysed["configs"] += 1
        plots = [e for e in r.of_kind("call")
                 if e.data.get("name") == ".plot" and
                 not tm.is_const(e.live, False)]
        ctx.require(len(plots) == 1, f"traj({m}): expected one reachable "
                    f"ax.plot call, found {len(plots)}")
        e = plots[0]
        args = _flat_args(e.data["args"])
        if args is None:
            ctx.undecidable("C20.2", e, f"traj({m}): starred plot arguments "
                            f"are not a known list")
            continue
        n = len(shown)
        data = args[:n]
        ok = len(args) >= n and all(
            data[k] is _col(pos, const(shown[k])) for k in range(n))
        nxt = args[n] if len(args) > n else None
        ok = ok and (nxt is None or nxt is tm.param("style"))
        ctx.ob("C20.2", e, ok,
               f"traj({m}): line = positions[:, k] for k = {shown} "
               f"(plot_mode_to_idx), then the style" if ok else
               f"traj({m}): plot arguments are {[fmt(a) for a in args[:n+1]]}"
               f" — axis k must show positions[:, plot_mode_to_idx(mode)[k]]"
               f" = columns {shown}",
               key=f"C20.2:traj:{m}")
        rg = Interp(prog, inline=inl).run(g, cfg)
        sc = [e for e in rg.of_kind("call")
              if e.data.get("name") == ".scatter" and
              not tm.is_const(e.live, False)]
        ctx.require(len(sc) == 2, "add_start_end_markers: scatter calls not "
                    "found")
        for e, which, k in ((sc[0], "start", 0), (sc[1], "end", -1)):
            p = tm.sub(pos, const(k))
            # *coords: a list literal, possibly grown by append
            coords = []
            for a in e.data["args"]:
                if a.op == "star":
                    inner = Interp.unname(a.args[0])
                    extra = []
                    while inner.op == "mut" and inner.args[1] == "append":
                        extra.insert(0, inner.args[2][0])
                        inner = inner.args[0]
                    a = T("star", T("list", *(list(inner.args) + extra))) \
                        if inner.op in ("list", "tuple") else a
                coords.append(a)
            flat = _flat_args(coords)
            if flat is None:
                ctx.undecidable("C20.2", e, f"{which} marker ({m}): starred "
                                f"coordinates are not a known list")
                continue
            # (np.asarray(positions) is the same array)
            flat = [x.map(lambda z: z.args[1][0] if (
                is_call_to(z, "numpy.asarray", "numpy.array") and
                len(z.args[1]) == 1 and not z.args[2] and
                z.args[1][0] is pos) else None) for x in flat]
            ok = flat[:len(shown)] == [tm.sub(p, const(i)) for i in shown]
            ctx.ob("C20.2", e, ok,
                   f"{which} marker ({m}) at the {which} position's "
                   f"coordinates {shown}" if ok else
                   f"{which} marker ({m}) coordinates are "
                   f"{[fmt(x) for x in flat[:3]]}, expected columns {shown} "
                   f"of the {which} position",
                   key=f"C20.2:marker:{which}:{m}")


# --------------------------------------------------------------------- C20.3
_SEG = -7          # loop id standing for "the s-th segment"


def _cell(rows: T, col) -> T:
    return T("cell", rows, col)


def _arange_rows(m: T) -> T:
    """points[np.arange(a, b, s) (+ c)] is the slice points[a+c : b+c : s];
    bounds are written relative to the array's own length the way slices
    are (len(points) - 1 -> -1, len(points) -> open end, 0 -> open start)"""
    from ..lib import linear
    if m.op != "sub":
        return m
    base, ix = m.args
    ix = Interp.unname(ix)
    off = 0
    if ix.op == "binop" and ix.args[0] == "Add":
        for a_, b_ in ((ix.args[1], ix.args[2]), (ix.args[2], ix.args[1])):
            if tm.is_const(b_) and type(tm.const_val(b_)) is int and \
                    is_call_to(Interp.unname(a_), "numpy.arange"):
                ix, off = Interp.unname(a_), tm.const_val(b_)
                break
    if not is_call_to(ix, "numpy.arange") or ix.args[2]:
        return m
    a = list(ix.args[1])
    if len(a) == 1:
        lo, hi, st = const(0), a[0], tm.NONE
    elif len(a) == 2:
        lo, hi, st = a[0], a[1], tm.NONE
    elif len(a) == 3:
        lo, hi, st = a
    else:
        return m
    n = tm.call(tm.glob("builtins.len"), (base,), ())

    def bound(x: T, is_hi: bool) -> Optional[T]:
        lf = linear(x)
        if lf is None:
            return None
        lf = dict(lf)
        lf[1] = lf.get(1, 0) + off
        k = lf.pop(1, 0)
        if not lf:                        # a plain number
            if not is_hi and k == 0:
                return tm.NONE
            return const(k)
        if lf == {n: 1} and is_hi:        # len(points) + k
            return tm.NONE if k == 0 else (const(k) if k < 0 else None)
        # len(points) - <symbol>: kept symbolic (not the canonical bound)
        return T("binop", "Add", x, const(off)) if off else x
    lo2, hi2 = bound(lo, False), bound(hi, True)
    if lo2 is None or hi2 is None:
        return m
    return tm.sub(base, T("slice", lo2, hi2, st))


def _rows_cols(m: T):
    """(rows, [columns]) of  points[rowslice][:, [c..]]  /
    points[:, [c..]][rowslice]  (np.asarray looked through)"""
    from ..lib import strip_asarray
    m = Interp.unname(m)
    cols = sl = None
    for _ in range(3):
        if m.op != "sub":
            break
        ix = m.args[1]
        if ix.op == "tuple" and len(ix.args) == 2 and ix.args[0] is ALL \
                and cols is None:
            c = Interp.unname(ix.args[1])
            if c.op not in ("list", "tuple") or not all(
                    tm.is_const(x) for x in c.args):
                return None
            cols = [x.args[1] for x in c.args]
        elif ix.op == "slice" and sl is None:
            sl = ix
        elif sl is None and _arange_rows(m) is not m:
            m = _arange_rows(m)
            sl = m.args[1]
        else:
            return None
        m = Interp.unname(m.args[0])
    if cols is None or sl is None:
        return None
    return tm.sub(strip_asarray(m), sl), cols


def _ix(t: Optional[T], i) -> Optional[T]:
    """t[i] for i an int or the generic segment number (_SEG), through list /
    tuple / zip / comprehension constructions and row / column selections of
    2-D arrays; a scalar of the point array is normalised to
    cell(rows, column) = rows[s, column]. None: not understood."""
    if t is None:
        return None
    t = Interp.unname(t)
    if t.op in ("list", "tuple"):
        if isinstance(i, int) and not any(x.op == "star" for x in t.args) \
                and -len(t.args) <= i < len(t.args):
            return t.args[i]
        return None
    if is_call_to(t, "builtins.list", "builtins.tuple", "numpy.array",
                  "numpy.asarray") and len(t.args[1]) == 1:
        return _ix(t.args[1][0], i)
    if is_call_to(t, "builtins.zip") and not t.args[2]:
        parts = [_ix(x, i) for x in t.args[1]]
        return None if any(p_ is None for p_ in parts) else \
            T("tuple", *parts)
    if t.op == "comp" and t.args[0] in ("list", "gen") and \
            len(t.args[2]) == 1 and not t.args[3]:
        it, lid = t.args[2][0]
        fail = []

        def rw(x: T):
            if x.op == "elem" and x.args[1] == lid:
                v = _ix(x.args[0], i)
                if v is None:
                    fail.append(x)
                    return x
                return v
            return None
        out = t.args[1].map(rw)
        return None if fail else out
    if t.op == "elem" and t.args[1] == _SEG and isinstance(i, int):
        # a row of a 2-D selection: M[:, cols][s][i] = M[s, cols[i]]; the
        # row slice and the column selection commute
        rc = _rows_cols(t.args[0])
        if rc is not None and -len(rc[1]) <= i < len(rc[1]):
            return _cell(rc[0], rc[1][i])
        return None
    if is_call_to(t, "numpy.stack") and len(t.args[1]) == 1 and \
            i == _SEG and tm.is_const(dict(t.args[2]).get("axis"), 1):
        # np.stack((A, B), axis=1)[s] = (A[s], B[s])
        parts = Interp.unname(t.args[1][0])
        if parts.op in ("list", "tuple"):
            ps = [_ix(x, _SEG) for x in parts.args]
            return None if any(p_ is None for p_ in ps) else \
                T("tuple", *ps)
        return None
    if i == _SEG:
        # the s-th entry of an array expression
        if t.op == "sub" and t.args[1].op == "tuple" and \
                len(t.args[1].args) == 2 and \
                t.args[1].args[0].op == "slice" and \
                tm.is_const(t.args[1].args[1]):
            # xyz[a:b:c, col][s] = xyz[a:b:c][s, col]
            return _cell(tm.sub(t.args[0], t.args[1].args[0]),
                         t.args[1].args[1].args[1])
        return T("elem", t, _SEG)
    return None


def _other_builder(res):
    """a line-collection constructor reached without colored_line_collection
    (a helper added later was looked through)"""
    for e in res.of_kind("call"):
        n = e.data.get("name") or ""
        if ("LineCollection" in n or "Line3DCollection" in n) and \
                not tm.is_const(e.live, False):
            return n
    return None


_BUILDER = {}


def _lc_events(res):
    return [e for e in res.of_kind("call") if (
        "LineCollection" in (e.data.get("name") or "") or
        "Line3DCollection" in (e.data.get("name") or "")) and
        not tm.is_const(e.live, False)]


def _pair_builder(ctx, prog):
    """A helper added later that builds the collection from two point arrays
    (segment i runs from starts[i] to ends[i]): found and *verified* with the
    entry algebra for every plot mode — entry [i, v, k] of what the
    collection constructor receives is (starts if v == 0 else ends)[i,
    idx_k], colours passed through.  (function, p_starts, p_ends, p_colors,
    p_mode) or None."""
    key = id(prog)
    if key in _BUILDER:
        return _BUILDER[key]
    from ..affine import Aff, AffError, N, show
    from ..known_functions import KNOWN_FUNCTIONS
    pmq = prog.cls(PM).qualname
    out = None
    for q, fn in sorted(prog.functions.items()):
        if fn.module.name != "evo.tools.plot" or fn.cls is not None or \
                q in KNOWN_FUNCTIONS or len(fn.params) < 4 or \
                "colors" not in fn.params or "plot_mode" not in fn.params:
            continue
        ps, pe_ = fn.params[0], fn.params[1]
        S, E = tm.param(ps), tm.param(pe_)
        inl = lambda f_: _helpers(f_) or f_.qualname == PL + \
            "plot_mode_to_idx"
        verdicts = []
        for m in prog.enum_members(PM):
            idx = _mode_idx(prog, pmq, m)
            if idx is None:
                verdicts = None
                break
            shown = [i for i in idx if i is not None]
            r = Interp(prog, inline=inl).run(
                fn, {"plot_mode": tm.enum(pmq, m)})
            lc = [e for e in _lc_events(r) if e.depth == 0]
            if len(lc) != 1 or not lc[0].data["args"]:
                verdicts = None
                break
            segs = lc[0].data["args"][0]
            aff = Aff({S: ("S", [(N,), (3,)]), E: ("E", [(N,), (3,)])}, {},
                      [tm.call(tm.glob("builtins.len"), (S,), ()),
                       tm.call(tm.glob("builtins.len"), (E,), ())], {},
                      unname=Interp.unname)
            try:
                d = aff.dims_of(segs)
                good = d == [(N,), (2,), (len(shown),)] and all(
                    aff.entry_at(segs, [("p",), (v,), (k,)]) ==
                    {(("src", "SE"[v], "p", shown[k]),): 1.0}
                    for v in (0, 1) for k in range(len(shown)))
            except AffError as ex:
                verdicts = None
                break
            three = "3D" in lc[0].data["name"]
            cols = dict(lc[0].data["kwargs"]).get("colors")
            verdicts.append((m, lc[0], good and three == (len(shown) == 3)
                             and cols is tm.param("colors")))
        if verdicts is None:
            continue
        out = (fn, ps, pe_, "colors", "plot_mode")
        for m, e, ok in verdicts:
            ctx.ob("C20.3", e, ok,
                   f"{fn.name}[{m}]: segment i = (starts[i], ends[i]) in "
                   f"the mode's columns, one colour per segment" if ok else
                   f"{fn.name}[{m}]: the segments handed to the collection "
                   f"are not (starts[i], ends[i]) in the columns of the "
                   f"plot mode", key=f"C20.3:builder:{m}")
        break
    _BUILDER[key] = out
    return out


def _zip_pair(a: T, b: T):
    """(A, B) if a = A[:min(len(A), len(B))] and b = B[:min(...)] — the two
    arrays cut to their common length, which is what zip(A, B) pairs"""
    def cut(x):
        if x.op == "sub" and x.args[1].op == "slice" and \
                x.args[1].args[0] is tm.NONE and \
                x.args[1].args[2] is tm.NONE and \
                is_call_to(x.args[1].args[1], "builtins.min") and \
                len(x.args[1].args[1].args[1]) == 2:
            return x.args[0], x.args[1].args[1].args[1]
        return x, None
    A, na = cut(a)
    B, nb = cut(b)
    if na is None and nb is None:
        return a, b
    ln = lambda z: tm.call(tm.glob("builtins.len"), (z,), ())
    if na is not None and nb is not None and na == nb and \
            set(na) == {ln(A), ln(B)}:
        return A, B
    return None


def _plain_rows(x: T) -> T:
    """X[s, :] is X[s]"""
    if x.op == "sub" and x.args[1].op == "tuple" and \
            len(x.args[1].args) == 2 and x.args[1].args[1] is ALL:
        return tm.sub(x.args[0], x.args[1].args[0])
    return x


def _segments(ctx, prog):
    """decided per plot mode by evaluating the entry segs[s][v][k] (vertex v
    of the s-th segment, plot axis k) of whatever construction is used:
    it must be xyz[:-1:step][s, idx_k] for v = 0 and xyz[1::step][s, idx_k]
    for v = 1"""
    f = prog.func(PL + "colored_line_collection")
    pmq = prog.cls(PM).qualname
    bld = _pair_builder(ctx, prog)
    xyz, step = tm.param("xyz"), tm.param("step")
    inl = lambda fn: _helpers(fn) or fn.qualname == PL + "plot_mode_to_idx"
    rows = (tm.sub(xyz, T("slice", tm.NONE, const(-1), step)),
            tm.sub(xyz, T("slice", const(1), tm.NONE, step)))
    for m in prog.enum_members(PM):
        idx = _mode_idx(prog, pmq, m)
        ctx.require(idx is not None, f"plot_mode_to_idx({m}) does not fold "
                    f"to constants")
        shown = [i for i in idx if i is not None]
        r = Interp(prog, inline=inl).run(f, {"plot_mode": tm.enum(pmq, m)})
        ctx.analysed["configs"] += 1
        lc = [e for e in r.of_kind("call") if "LineCollection" in
              (e.data.get("name") or "") or "Line3DCollection" in
              (e.data.get("name") or "")]
        lc = [e for e in lc if not tm.is_const(e.live, False)]
        ctx.require(len(lc) == 1, f"colored_line_collection({m}): expected "
                    f"one reachable collection, found {len(lc)}")
        e = lc[0]
        via = [c for c in r.of_kind("call") if bld is not None and
               c.data.get("target") is bld[0] and c.depth == 0]
        if e.depth > 0 and len(via) == 1:
            # kept as a wrapper of the (verified) two-array builder: the
            # pairs it hands over must be the pinned ones
            bb = via[0].data["bound"] or {}
            zp = _zip_pair(bb.get(bld[1]), bb.get(bld[2])) \
                if bb.get(bld[1]) is not None and bb.get(bld[2]) is not None \
                else None
            ok = zp is not None and _plain_rows(zp[0]) is rows[0] and \
                _plain_rows(zp[1]) is rows[1] and \
                bb.get(bld[3]) is tm.param("colors") and \
                bb.get(bld[4]) is tm.enum(pmq, m)
            ctx.ob("C20.3", via[0], ok,
                   f"{m}: segment s = (xyz[:-1:step][s], xyz[1::step][s]) "
                   f"through {bld[0].name}" if ok else
                   f"{m}: {bld[0].name} receives "
                   f"{fmt(bb.get(bld[1]))[:60]} / {fmt(bb.get(bld[2]))[:60]}"
                   f" — expected the rows xyz[:-1:step] and xyz[1::step]",
                   key=f"C20.3:segments:{m}")
            continue
        three = "3D" in e.data["name"]
        ctx.ob("C20.3", e, three == (len(shown) == 3),
               f"{m}: a {'3-D' if three else '2-D'} collection for "
               f"{len(shown)} plotted axes", key=f"C20.3:kind:{m}",
               nontrivial=False)
        segs = e.data["args"][0] if e.data["args"] else None
        seg = _ix(segs, _SEG)
        got, bad, unknown = {}, [], []
        for v in (0, 1):
            vert = _ix(seg, v)
            for k in range(len(shown)):
                c = _ix(vert, k)
                if c is None or c.op != "cell":
                    unknown.append((v, k))
                    continue
                got[(v, k)] = c
                if c is not _cell(rows[v], shown[k]):
                    bad.append((v, k, c))
        # no further vertex / axis
        extra = _ix(seg, 2) is not None or \
            _ix(_ix(seg, 0), len(shown)) is not None
        if unknown:
            ctx.undecidable("C20.3", e, f"{m}: segment entry (vertex, axis) "
                            f"{unknown[0]} of the construction is not "
                            f"understood: {fmt(segs)[:160]}")
            continue
        ok = not bad and not extra
        ctx.ob("C20.3", e, ok,
               f"{m}: segment s = (xyz[:-1:step][s], xyz[1::step][s]) in "
               f"the columns {shown}" if ok else
               (f"{m}: vertex {bad[0][0]}, axis {bad[0][1]} of a segment is "
                f"{fmt(bad[0][2].args[0])}[s, {bad[0][2].args[1]}] — "
                f"expected {fmt(rows[bad[0][0]])}[s, {shown[bad[0][1]]}]"
                if bad else f"{m}: segments have extra vertices / axes"),
               key=f"C20.3:segments:{m}")
        cols = dict(e.data["kwargs"]).get("colors")
        ctx.ob("C20.3", e, cols is tm.param("colors"),
               "segments are coloured by the given colour sequence, in "
               "order", key=f"C20.3:colors:{m}",
               nontrivial=False)
    g = prog.func(PL + "traj_colormap")
    rg = Interp(prog, inline=_helpers).run(g)
    cl = rg.calls(PL + "colored_line_collection")
    ok = False
    if len(cl) == 1:
        b = cl[0].data["bound"]
        cols = b.get("colors")
        pe = per_element(cols) if cols is not None else None
        ok = b.get("xyz") is tm.attr(tm.param("traj"), "positions_xyz") and \
            b.get("plot_mode") is tm.param("plot_mode") and pe is not None \
            and not pe[3] and pe[2] is tm.param("array") and \
            is_call_to(pe[0], ".to_rgba") and pe[0].args[1][0] is T(
                "elem", tm.param("array"), pe[1]) and "step" not in b
    via = [c for c in rg.of_kind("call") if bld is not None and
           c.data.get("target") is bld[0] and c.depth == 0]
    if not cl and len(via) == 1:
        bb = via[0].data["bound"] or {}
        pos_ = tm.attr(tm.param("traj"), "positions_xyz")
        cols = bb.get(bld[3])
        pe = per_element(cols) if cols is not None else None
        ok = _plain_rows(bb.get(bld[1]) or tm.NONE) is tm.sub(
            pos_, T("slice", tm.NONE, const(-1), tm.NONE)) and \
            _plain_rows(bb.get(bld[2]) or tm.NONE) is tm.sub(
                pos_, T("slice", const(1), tm.NONE, tm.NONE)) and \
            bb.get(bld[4]) is tm.param("plot_mode") and pe is not None \
            and not pe[3] and pe[2] is tm.param("array") and \
            is_call_to(pe[0], ".to_rgba") and pe[0].args[1][0] is T(
                "elem", tm.param("array"), pe[1])
        ctx.ob("C20.3", via[0], ok,
               "traj_colormap: one colour per value of `array`, in order, "
               "on consecutive pairs of the trajectory's own positions"
               if ok else
               "traj_colormap: colours / position pairs handed to the "
               "segment builder deviate", key="C20.3:colormap")
    elif not cl and _other_builder(rg):
        ctx.undecidable("C20.3", g, "traj_colormap builds its segments "
                        "through another helper than colored_line_collection "
                        f"({_other_builder(rg)}): not evaluated")
    else:
      ctx.ob("C20.3", cl[0] if cl else g, ok,
           "traj_colormap: one colour per value of `array`, in order, on "
           "the trajectory's own positions" if ok else
           "traj_colormap: colours / positions handed to the line "
           "collection deviate", key="C20.3:colormap")
    h = prog.func(PL + "draw_correspondence_edges")
    rh = Interp(prog, inline=_helpers).run(h)
    cl = rh.calls(PL + "colored_line_collection")
    ok = False
    if len(cl) == 1:
        b = cl[0].data["bound"]
        v = b.get("xyz")
        even = T("tuple", T("slice", const(0), tm.NONE, const(2)), ALL)
        odd = T("tuple", T("slice", const(1), tm.NONE, const(2)), ALL)
        p1 = tm.attr(tm.param("traj_1"), "positions_xyz")
        p2 = tm.attr(tm.param("traj_2"), "positions_xyz")
        ok = v is not None and v.op == "upd" and v.args[0].op == "upd" and \
            {(v.args[1], v.args[2]), (v.args[0].args[1], v.args[0].args[2])
             } == {(even, p1), (odd, p2)} and \
            tm.is_const(b.get("step"), 2) and \
            b.get("plot_mode") is tm.param("plot_mode")
    ev_blocks = None
    if len(cl) == 1 and not ok:
        # the interleaved array built by stacking + reshape: side by side
        # (hstack / stack(axis=1)) and re-shaped to rows of 3 it alternates
        # trajectory 1 / trajectory 2; one under the other (stack / vstack /
        # concatenate along axis 0) it is two blocks, not pairs
        v = Interp.unname(cl[0].data["bound"].get("xyz") or tm.NONE)
        if is_call_to(v, ".reshape") and tm.method_recv(v) is not None:
            st = Interp.unname(tm.method_recv(v))
            ops_ = Interp.unname(st.args[1][0]) if st.op == "call" and \
                st.args[1] else None
            pair_ok = ops_ is not None and ops_.op in ("tuple", "list") and \
                tuple(ops_.args) == (p1, p2)
            ax = dict(st.args[2]).get("axis") if st.op == "call" else None
            side = is_call_to(st, "numpy.hstack", "numpy.column_stack") or (
                is_call_to(st, "numpy.stack", "numpy.concatenate") and
                ax is not None and tm.is_const(ax, 1))
            below = is_call_to(st, "numpy.vstack", "numpy.row_stack") or (
                is_call_to(st, "numpy.stack", "numpy.concatenate") and
                (ax is None or tm.is_const(ax, 0)))
            if pair_ok and side and tm.is_const(cl[0].data["bound"].get(
                    "step"), 2):
                ok = True
            elif pair_ok and below:
                ev_blocks = fmt(st)[:70]
    via = [c for c in rh.of_kind("call") if bld is not None and
           c.data.get("target") is bld[0] and c.depth == 0]
    if not cl and len(via) == 1:
        bb = via[0].data["bound"] or {}
        ok = bb.get(bld[1]) is tm.attr(tm.param("traj_1"),
                                       "positions_xyz") and \
            bb.get(bld[2]) is tm.attr(tm.param("traj_2"),
                                      "positions_xyz") and \
            bb.get(bld[4]) is tm.param("plot_mode")
        ctx.ob("C20.3", via[0], ok,
               "correspondence edges: segment i runs from pose i of "
               "trajectory 1 to pose i of trajectory 2" if ok else
               f"correspondence edges: the builder receives "
               f"{fmt(bb.get(bld[1]))[:50]} / {fmt(bb.get(bld[2]))[:50]}",
               key="C20.3:correspondence")
    elif not cl and _other_builder(rh):
        ctx.undecidable("C20.3", h, "draw_correspondence_edges builds its "
                        "segments through another helper than "
                        f"colored_line_collection ({_other_builder(rh)}): "
                        "not evaluated")
    else:
      ctx.ob("C20.3", cl[0] if cl else h, ok,
           "correspondence edges: trajectory 1 at even rows, trajectory 2 "
           "at odd rows, one segment per pose pair (step=2)" if ok else
           "correspondence edges: interleaving / step deviate"
           + (f": {ev_blocks} puts all positions of trajectory 1 before "
              f"those of trajectory 2 — consecutive rows are not pose pairs"
              if ev_blocks else ""),
           # evidence: the even/odd row stores are there but cross the
           # trajectories or use another step; any other construction of
           # the interleaved array (hstack + reshape ...) is not read
           evidence=bool(ev_blocks) or (
               bool(cl) and cl[0].data["bound"].get("xyz") is not None
               and cl[0].data["bound"]["xyz"].op == "upd"),
           key="C20.3:correspondence")


def _markers(ctx, prog):
    """coordinate-frame markers, decided by entry evaluation (sa/affine.py):
    whatever way the (6n, 3) vertex array and the colour array are put
    together — per pose with p.dot(unit_k), or vectorised with stacking,
    swapping and reshaping — segment (axis a, pose p) must run from the pose
    position P[p][:3, 3] to P[p][:3, 3] + marker_scale * P[p][:3, a] (column
    a of the pose's rotation), rows 2k / 2k+1 of the vertex array are the
    two ends of segment k (step=2), and segment k has the colour of its
    axis."""
    from ..affine import Aff, AffError, N, ONE, show
    f = prog.func(PL + "draw_coordinate_axes")
    r = Interp(prog, inline=_helpers).run(f)
    cl = r.calls(PL + "colored_line_collection")
    bld = _pair_builder(ctx, prog)
    via = [c for c in r.of_kind("call") if bld is not None and
           c.data.get("target") is bld[0] and c.depth == 0]
    pair_form = not cl and len(via) == 1
    if pair_form:
        cl = via
    ctx.require(len(cl) == 1, "draw_coordinate_axes: line collection call "
                "not found")
    b = cl[0].data["bound"]
    if pair_form:
        starts_, ends_ = b.get(bld[1]), b.get(bld[2])
        verts, cols = starts_, b.get(bld[3])
    else:
        verts, cols = b.get("xyz"), b.get("colors")
    traj = tm.param("traj")
    poses = tm.attr(traj, "poses_se3")
    want = {"x": 0, "y": 1, "z": 2}
    aff = Aff({poses: ("P", [(N,), (4,), (4,)])},
              {tm.param("marker_scale"): "s"},
              [tm.attr(traj, "num_poses"),
               tm.call(tm.glob("builtins.len"), (poses,), ())],
              {tm.param(f"{k}_color"): k for k in want},
              unname=Interp.unname)
    ok_step = pair_form or tm.is_const(b.get("step"), 2)
    try:
        vd, cd = aff.dims_of(verts), aff.dims_of(cols)
        if pair_form:
            ed = aff.dims_of(ends_)
            if not (len(vd) == 2 and vd == ed and vd[1] == (3,) and cd and
                    sorted(map(str, vd[0])) == sorted(map(str, cd[0])) ==
                    sorted(map(str, (3, N)))):
                raise AffError(f"start array {vd} / end array {ed} / colour "
                               f"array {cd}: not (3 axes x n poses, 3) with "
                               f"one colour per segment")
            if vd[0] != cd[0]:
                raise AffError(f"segments are ordered {vd[0]}, their "
                               f"colours {cd[0]}")
        elif len(vd) != 2 or vd[1] != (3,) or not cd or \
                vd[0] != cd[0] + (2,) or sorted(map(str, cd[0])) != \
                sorted(map(str, (3, N))):
            raise AffError(f"vertex array {vd} / colour array {cd}: not "
                           f"(3 axes x n poses x 2 ends, 3) with one colour "
                           f"per segment")
        bad, axes_seen = [], {}
        for idx in aff.positions([cd[0]]):
            seg = idx[0]
            if pair_form:
                start = [aff.entry_at(starts_, [seg, (c,)])
                         for c in range(3)]
                end = [aff.entry_at(ends_, [seg, (c,)]) for c in range(3)]
            else:
                start = [aff.entry_at(verts, [seg + (0,), (c,)])
                         for c in range(3)]
                end = [aff.entry_at(verts, [seg + (1,), (c,)])
                       for c in range(3)]
            col = aff.entry_at(cols, [seg] + [(0,)] * (len(cd) - 1)) \
                if len(cd) == 1 else aff.entry_at(cols, [seg])
            axis = None
            for c in range(3):
                pa = ("src", "P", "p", c, 3)
                if start[c] != {(pa,): 1.0}:
                    bad.append(f"segment {seg}: start coordinate {c} is "
                               f"{show(start[c])}, expected P[p][{c}, 3]")
                    continue
                diff = dict(end[c])
                if diff.pop((pa,), None) != 1.0 or len(diff) != 1:
                    bad.append(f"segment {seg}: end coordinate {c} is "
                               f"{show(end[c])}")
                    continue
                (mono, coef), = diff.items()
                srcs = [x for x in mono if x[0] == "src"]
                if coef != 1.0 or len(mono) != 2 or ("s", "s") not in mono \
                        or len(srcs) != 1 or srcs[0][:3] != ("src", "P", "p"):
                    bad.append(f"segment {seg}: end coordinate {c} is "
                               f"{show(end[c])}")
                    continue
                k = srcs[0]
                if k[3] != c:
                    bad.append(f"segment {seg}: end coordinate {c} adds "
                               f"marker_scale * P[p][{k[3]}, {k[4]}] — a "
                               f"*row* entry of the rotation (the inverse "
                               f"rotation's axis); the pose's own axis is "
                               f"the column P[p][{c}, a]")
                    continue
                if axis is not None and axis != k[4]:
                    bad.append(f"segment {seg}: mixes columns {axis} and "
                               f"{k[4]} of the rotation")
                axis = k[4]
            if axis is None:
                continue
            axes_seen[seg] = axis
            cname = [k for k, v in want.items() if v == axis][0]
            if col != {(("sym", cname),): 1.0}:
                bad.append(f"segment {seg} along the pose's "
                           f"{cname}-axis is coloured {show(col)}")
        if not bad and sorted(axes_seen.values()) != [0, 1, 2]:
            bad.append(f"the three segments of a pose use the rotation "
                       f"columns {sorted(axes_seen.values())}")
    except AffError as ex:
        ctx.undecidable("C20.3", f, f"coordinate-axes markers: construction "
                        f"not understood by the entry algebra: {ex}")
        return
    for k in XYZ:
        ctx.ob("C20.3", cl[0], not bad,
               f"axis marker {k}: from the pose position along the pose's "
               f"own {k}-axis (column of its rotation), length "
               f"marker_scale" if not bad else
               f"axis markers deviate: {bad[0]}",
               key=f"C20.3:marker-axis:{k}")
    ctx.ob("C20.3", cl[0], not bad and ok_step,
           "axis markers: colours match the segments' axes; one segment per "
           "vertex pair (step=2)" if not bad and ok_step else
           f"axis markers: colour / step deviate (step "
           f"{fmt(b.get('step'))}"
           f"{'; ' + bad[0] if bad else ''})", key="C20.3:marker-colors")


def _ordered(t: T) -> List[T]:
    from ..lib import _walk_ordered
    return _walk_ordered(t)


# --------------------------------------------------------------------- C20.4
_KNOWN_PARAMS = {
    "traj_xyz": ["axarr", "traj", "style", "color", "label", "alpha",
                 "start_timestamp", "length_unit"],
    "traj_rpy": ["axarr", "traj", "style", "color", "label", "alpha",
                 "start_timestamp"],
    "speeds": ["ax", "traj", "style", "color", "label", "alpha",
               "start_timestamp"],
}


def _later_params(ctx, prog, f):
    """parameters a plot function gained after the pinned tree, at their
    defaults (the property describes the documented plots)"""
    from ..lib import extra_defaults
    known = _KNOWN_PARAMS[f.name]
    n = 0
    while n < len(known) and n < len(f.params) and f.params[n] == known[n]:
        n += 1
    ctx.require(n == len(known), f"{f.name}: signature changed "
                f"({f.params})")
    extra = extra_defaults(f, known, prog)
    ctx.require(extra is not None, f"{f.name}: new parameter without a "
                f"constant default")
    return extra


def _x_cases(x: T, ts: T, st: T, view, timed_only: bool = False) -> bool:
    """the x values by cases: with timestamps and a start time ts - start,
    with timestamps only ts, without timestamps the pose index (arange) —
    whatever the nesting / spelling of the conditionals"""
    from ..lib import strip_asarray

    def case(timed: bool, start: bool):
        def assign(a: T):
            if is_call_to(a, "builtins.isinstance"):
                return timed
            if a is st:
                return start
            if a.op == "cmp" and a.args[0] in ("Is", "IsNot") and \
                    a.args[1] is st and a.args[2] is tm.NONE:
                return start == (a.args[0] == "IsNot")
            if is_call_to(a, ".any", "numpy.any"):
                # "some timestamp is repeated": the property's trajectories
                # have strictly increasing stamps, a special treatment of
                # repeated ones is not taken
                inner = tm.method_recv(a) if tm.callee_name(a) == ".any" \
                    else (a.args[1][0] if a.args[1] else None)
                s1 = tm.sub(ts, T("slice", const(1), tm.NONE, tm.NONE))
                s0 = tm.sub(ts, T("slice", tm.NONE, const(-1), tm.NONE))
                if inner is not None and inner.op == "cmp" and \
                        inner.args[0] in ("Eq", "LtE") and \
                        {inner.args[1], inner.args[2]} == {s1, s0}:
                    return False
            return None
        return strip_asarray(tm.deep_select(x, assign))
    ok = case(True, True) is view(T("binop", "Sub", ts, st)) and \
        case(True, False) is view(ts)
    if not timed_only:
        idx = case(False, False)
        ok = ok and is_call_to(idx, "numpy.arange") and \
            is_call_to(case(False, True), "numpy.arange")
    return bool(ok)


_ELEMENTWISE = ("numpy.rad2deg", "numpy.degrees", "numpy.deg2rad",
                "numpy.radians", "numpy.asarray", "numpy.array")


def _three_columns(t: T) -> Optional[int]:
    """documented layouts: positions are n x 3 and Euler angles n x 3, so
    their transposes have three rows (zip over them yields the columns)"""
    u = Interp.unname(t)
    if not (u.op == "attr" and u.args[1] == "T"):
        return None
    x = Interp.unname(u.args[0])
    while is_call_to(x, *_ELEMENTWISE) and len(x.args[1]) == 1:
        x = Interp.unname(x.args[1][0])
    if x.op == "attr" and x.args[1] == "positions_xyz":
        return 3
    if is_call_to(x, ".get_orientations_euler") or (
            x.op == "call" and (tm.callee_name(x) or "").endswith(
                "get_orientations_euler")):
        return 3
    return None


def _column_form(y: T) -> T:
    """A.T[i] is the column A[:, i]; an element-wise function of a column is
    the column of the element-wise function"""
    def rw(x: T):
        if x.op == "sub" and x.args[0].op == "attr" and \
                x.args[0].args[1] == "T" and tm.is_const(x.args[1]) and \
                type(tm.const_val(x.args[1])) is int:
            return _col(x.args[0].args[0], x.args[1])
        if x.op == "sub" and x.args[1].op == "tuple" and \
                len(x.args[1].args) == 2 and x.args[1].args[0] is ALL and \
                is_call_to(x.args[0], *_ELEMENTWISE) and \
                len(x.args[0].args[1]) == 1 and not x.args[0].args[2]:
            inner = x.args[0]
            return T("call", inner.args[0],
                     (_col(inner.args[1][0], x.args[1].args[1]),), ())
        return None
    for _ in range(3):
        n = y.map(rw)
        if n is y:
            break
        y = n
    return y


def _time_axes(ctx, prog):
    tr = tm.param("traj")
    ts = tm.attr(tr, "timestamps")
    st = tm.param("start_timestamp")
    shifted = tm.ite(st, T("binop", "Sub", ts, st), ts)
    for name, ycol, labels in (
            ("traj_xyz", lambda i: _col(tm.attr(tr, "positions_xyz"),
                                        const(i)), ("x", "y", "z")),
            ("traj_rpy", None, ("roll", "pitch", "yaw"))):
        f = prog.func(PL + name)
        r = Interp(prog, inline=_helpers, known_len=_three_columns).run(
            f, _later_params(ctx, prog, f))
        plots = [e for e in r.of_kind("call")
                 if e.data.get("name") == ".plot"]
        ylab = [e for e in r.of_kind("call")
                if e.data.get("name") == ".set_ylabel"]
        ctx.require(len(plots) == 3 and len(ylab) == 3,
                    f"{name}: expected 3 plot rows")
        for i, (e, l) in enumerate(zip(plots, ylab)):
            x, y = e.data["args"][0], _column_form(e.data["args"][1])
            okx = _x_cases(x, ts, st, lambda t: t)
            if name == "traj_xyz":
                oky = y is ycol(i)
            else:
                ang = [c for c in r.of_kind("call") if (c.data.get("name")
                       or "").endswith("get_orientations_euler")]
                oky = bool(ang) and is_call_to(y, "numpy.rad2deg") and \
                    y.args[1][0] is _col(ang[0].data["result"], const(i))
            recv_row = tm.method_recv(e.data["result"]) if False else \
                e.data.get("recv")
            lrow = l.data.get("recv")
            lab = l.data["args"][0]
            txt = "".join(x_.args[1] for x_ in lab.args if tm.is_const(x_)
                          and isinstance(x_.args[1], str)) \
                if lab.op == "fstr" else (lab.args[1] if tm.is_const(lab)
                                          else "")
            okl = f"${labels[i]}$" in txt and recv_row is lrow and \
                recv_row is not None and recv_row.op == "sub" and \
                tm.is_const(recv_row.args[1], i)
            ctx.ob("C20.4", e, okx and oky and okl,
                   f"{name} row {i}: {labels[i]} against timestamps - start "
                   f"(index without timestamps), labelled ${labels[i]}$"
                   if okx and oky and okl else
                   f"{name} row {i}: x={fmt(x)[:120]}, y={fmt(y)[:80]}, "
                   f"label={txt!r} — expected {labels[i]} against the "
                   f"(shifted) timestamps on subplot {i}",
                   key=f"C20.4:{name}:{i}")
    f = prog.func(PL + "speeds")
    r = Interp(prog, inline=_helpers).run(f, _later_params(ctx, prog, f))
    plots = [e for e in r.of_kind("call") if e.data.get("name") == ".plot"]
    ctx.require(len(plots) == 1, "speeds: plot call not found")
    x, y = plots[0].data["args"][:2]
    s1 = T("slice", const(1), tm.NONE, tm.NONE)
    def increasing(a: T):
        if is_call_to(a, ".any", "numpy.any"):
            inner = tm.method_recv(a) if tm.callee_name(a) == ".any" else (
                a.args[1][0] if a.args[1] else None)
            s0 = tm.sub(ts, T("slice", tm.NONE, const(-1), tm.NONE))
            if inner is not None and inner.op == "cmp" and \
                    inner.args[0] in ("Eq", "LtE") and \
                    {inner.args[1], inner.args[2]} == {tm.sub(ts, s1), s0}:
                return False
        return None
    y = tm.deep_select(y, increasing)
    ok = _x_cases(x, ts, st, lambda t: tm.sub(t, s1), timed_only=True) and \
        y is tm.attr(tr, "speeds")
    ctx.ob("C20.4", plots[0], ok,
           "speeds: speed k against the (shifted) timestamp of the newer "
           "pose, timestamps[1:]" if ok else
           f"speeds: x={fmt(x)}, y={fmt(y)} — expected timestamps[1:] "
           f"(shifted) against traj.speeds", key="C20.4:speeds")
    f = prog.func(PL + "error_array")
    xa, ea = tm.param("x_array"), tm.param("err_array")

    def x_is_none(t: T, xnone: bool):
        if t.op == "cmp" and t.args[0] in ("Is", "IsNot") and \
                {t.args[1], t.args[2]} == {xa, tm.NONE}:
            return xnone == (t.args[0] == "Is")
        return None
    for cum in (False, True):
        got = {}
        for xnone in (False, True):
            r = Interp(prog, inline=_helpers,
                       assume=lambda t, v=xnone: x_is_none(t, v)).run(
                f, {"cumulative": const(cum)})
            ctx.analysed["configs"] += 1
            got[xnone] = [e for e in r.of_kind("call")
                          if e.data.get("name") == ".plot" and
                          not tm.is_const(e.live, False)]
        val = tm.call(tm.glob("numpy.cumsum"), (ea,), ()) if cum else ea
        plots = got[False] + got[True]
        ok = len(got[False]) == 1 and len(got[True]) == 1 and \
            tuple(got[False][0].data["args"]) == (xa, val) and \
            tuple(got[True][0].data["args"]) == (val,)
        ctx.ob("C20.4", plots[0] if plots else f, ok,
               f"error_array[cumulative={cum}]: values (cumsum iff "
               f"cumulative) against x_array, in that order; against the "
               f"index without x_array" if ok else
               f"error_array[cumulative={cum}]: plot arguments are "
               f"{[[fmt(a) for a in e.data['args']] for e in plots]}",
               key=f"C20.4:error_array:{cum}")


# --------------------------------------------------------------------- C20.5
def _perm_of(t: T, base: T):
    """False if t is `base`; the index term P if t is base[P] with P an
    index array (a re-ordering / selection); None otherwise"""
    if t is base:
        return False
    if t.op == "sub" and t.args[0] is base and t.args[1].op not in (
            "const", "slice", "tuple"):
        return t.args[1]
    return None


def _xy_match(y, x, errs: T, exp_x: T) -> Optional[bool]:
    """True: every alternative plots the result's values against the
    expected x array, both in stored order or both under one common
    re-ordering; False: another array is plotted; None: not modelled"""
    if y is None:
        return False
    arrays = errs.args[0]

    def stored(t):                 # a companion array as stored (or permuted)
        if t.op == "sub" and t.args[0].op == "sub":
            t = t.args[0]
        return t.op == "sub" and t.args[0] is arrays and \
            tm.is_const(t.args[1])
    wrong = unmodelled = mismatch = missing = False
    conds = [n.args[0] for n in (y,) if n.op == "ite"]
    cases = [(c, v) for c in conds for v in (True, False)] or [(None, None)]
    for (c, v) in cases:
        def assign(a, c=c, v=v):
            if a is c:
                return v
            # an array taken from the result by key is not None
            if a.op == "cmp" and a.args[0] in ("Is", "IsNot") and \
                    a.args[2] is tm.NONE and stored(a.args[1]):
                return a.args[0] == "IsNot"
            if a.op == "cmp" and a.args[0] in ("Is", "IsNot") and \
                    a.args[1] is tm.NONE and a.args[2] is tm.NONE:
                return a.args[0] == "Is"
            return None

        def alts(t):
            if t is None:
                return [None]
            t = tm.select(t, assign)
            if t.op == "ite":
                return alts(t.args[1]) + alts(t.args[2])
            return [t]
        for ya in alts(y):
            py = _perm_of(ya, errs)
            if py is None:
                # another stored array, or something that does not come from
                # the result's arrays at all (an axes object, a literal ...)
                foreign = ya is not None and not any(
                    z is arrays for z in ya.walk())
                wrong = wrong or stored(ya) or foreign
                unmodelled = unmodelled or not (stored(ya) or foreign)
                continue
            for xa in alts(x):
                none = xa is None or xa is tm.NONE
                if exp_x is tm.NONE:
                    if none:
                        continue
                    if stored(xa):
                        wrong = True
                    else:
                        unmodelled = True
                    continue
                px = None if none else _perm_of(xa, exp_x)
                if px is not None:
                    if px is not py:
                        mismatch = True
                elif stored(xa):
                    wrong = True
                elif none:
                    missing = True
                else:
                    unmodelled = True     # recomputed x, not modelled
    if wrong:
        return False
    if unmodelled:
        return None
    return not (mismatch or missing)


def _result_plots(ctx, prog):
    """C20.8: evo_ape / evo_rpe hand the plot functions their own data: the
    raw-value plot gets the result's error values against the companion
    array the user selected (distances / seconds from start, each only if
    the result has it, else the index); the colour-mapped plot gets the
    *estimate* and the same error values; both trajectory plots use the
    selected plot mode."""
    f = prog.func("evo.common_ape_rpe.plot_result")
    ctx.analysed_fn(f.qualname)
    res_p = tm.param("result")
    arrays = tm.attr(res_p, "np_arrays")
    errs = tm.sub(arrays, const("error_array"))
    A = lambda n: tm.attr(tm.param("args"), n)
    want = {"distances": "distances_from_start",
            "seconds": "seconds_from_start", "index": None}
    for dim, key in want.items():
        for has in (True, False):
            def assume(t, key=key, has=has):
                if t.op == "cmp" and t.args[0] in ("In", "NotIn") and \
                        t.args[2] is arrays and tm.is_const(t.args[1]):
                    present = has if t.args[1].args[1] == key else True
                    return present == (t.args[0] == "In")
                return None
            r = Interp(prog, inline=_helpers, assume=assume).run(
                f, {}, None, preset_attrs={
                    (tm.param("args"), "plot_x_dimension"): const(dim)})
            ctx.analysed["configs"] += 1
            ea = [e for e in r.calls(PL + "error_array")
                  if not tm.is_const(e.live, False)]
            if len(ea) != 1:
                ctx.undecidable("C20.8", f, f"plot_result[{dim}]: "
                                f"error_array call not found")
                continue
            b = ea[0].data["bound"] or {}
            exp_x = tm.sub(arrays, const(key)) if key and has else tm.NONE
            ok = _xy_match(b.get("err_array"), b.get("x_array"), errs,
                           exp_x)
            if ok is None:
                ctx.undecidable(
                    "C20.8", ea[0], f"plot_result[x={dim}]: values and x "
                    f"array are re-ordered / recomputed in a way the wiring "
                    f"rule does not model")
                continue
            ctx.ob("C20.8", ea[0], bool(ok),
                   f"plot_result[x={dim}, array "
                   f"{'present' if has else 'absent'}]: error values "
                   f"against {key if key and has else 'the index'}"
                   if ok else
                   f"plot_result[x={dim}, array "
                   f"{'present' if has else 'absent'}]: error_array gets "
                   f"y={fmt(b.get('err_array'))[:50]}, "
                   f"x={fmt(b.get('x_array'))[:50]} — expected the result's "
                   f"error_array against "
                   f"{key if key and has else 'no x array (index)'}",
                   key=f"C20.8:raw:{dim}:{has}")
    r = Interp(prog, inline=_helpers).run(f)
    cm = r.calls(PL + "traj_colormap")
    if len(cm) != 1:
        ctx.undecidable("C20.8", f, "plot_result: traj_colormap call not "
                        "found")
        return
    b = cm[0].data["bound"] or {}
    pm = b.get("plot_mode")
    arr = b.get("array")
    if arr is not None and any(_perm_of(a, errs) not in (None, False)
                               for a in tm.strip_ite(arr)):
        ctx.undecidable("C20.8", cm[0], "plot_result: the colour-mapped "
                        "values are re-ordered before plotting (wiring rule "
                        "does not model a permuted trajectory)")
        return
    ok = b.get("traj") is tm.param("traj_est") and b.get("array") is errs \
        and pm is not None and is_call_to(pm, PL + "PlotMode") and \
        pm.args[1] and pm.args[1][0] is A("plot_mode")
    ctx.ob("C20.8", cm[0], bool(ok),
           "plot_result: the colour map shows the result's error values on "
           "the *estimate*, in the selected plot mode" if ok else
           f"plot_result: traj_colormap(traj={fmt(b.get('traj'))[:40]}, "
           f"array={fmt(b.get('array'))[:50]}, mode={fmt(pm)[:40]})",
           key="C20.8:colormap")


def _euler_getter(ctx, prog):
    """C20.10: the roll / pitch / yaw plots show get_orientations_euler(): the
    angles are the vendored conversion (euler_from_matrix of the pose, or
    euler_from_quaternion of the quaternion) of every pose in order, for the
    requested sequence. A re-implementation next to it (a vectorised fast
    path for one sequence ...) is not modelled: whether it agrees with the
    vendored function for every rotation (gimbal lock at pitch +-90 deg) is
    arithmetic — undecidable (assumption A4 covers the vendored code only)."""
    f = prog.func("evo.core.trajectory.PosePath3D.get_orientations_euler")
    ctx.analysed_fn(f.qualname)
    selfp, axes = tm.param("self"), tm.param("axes")
    r = Interp(prog, inline_properties=False).run(f, {"axes": const("sxyz")})
    r2 = Interp(prog, inline_properties=False).run(f)
    ok, odd, evid = True, None, False

    def alts(t):
        # np.array(a if c else b): the conversion of either list
        for a_ in tm.strip_ite(t):
            if is_call_to(a_, "numpy.array", "numpy.asarray") and \
                    len(a_.args[1]) == 1 and not a_.args[2] and \
                    Interp.unname(a_.args[1][0]).op == "ite":
                for b_ in alts(Interp.unname(a_.args[1][0])):
                    yield T("call", a_.args[0], (b_,), a_.args[2])
            else:
                yield a_
    for ret in (r.ret, r2.ret):
        for alt in alts(ret):
            pe_ = per_element(alt)
            good = pe_ is not None and not pe_[3] and is_call_to(
                pe_[0], "evo.core.transformations.euler_from_matrix",
                "evo.core.transformations.euler_from_quaternion") and \
                pe_[0].args[1] and pe_[0].args[1][0] is T(
                    "elem", pe_[2], pe_[1]) and pe_[2] in (
                    tm.attr(selfp, "_poses_se3"),
                    tm.attr(selfp, "_orientations_quat_wxyz"),
                    tm.attr(selfp, "poses_se3"),
                    tm.attr(selfp, "orientations_quat_wxyz"))
            if not good:
                ok, odd = False, alt
                # a per-pose use of the vendored conversion with another
                # source / sequence / a filter is evidence; anything else is
                # a form this rule does not model
                evid = evid or (pe_ is not None and is_call_to(
                    pe_[0], "evo.core.transformations.euler_from_matrix",
                    "evo.core.transformations.euler_from_quaternion"))
    if not ok and any(is_call_to(x, "numpy.arctan2", "numpy.arcsin",
                                 "numpy.arccos", "math.atan2")
                      for x in odd.walk()):
        ctx.undecidable("C20.10", f, "get_orientations_euler computes angles "
                        "with its own trigonometry next to the vendored "
                        "conversion (not covered by assumption A4)")
        return
    if not ok and not evid:
        ctx.undecidable("C20.10", f, "get_orientations_euler: unrecognised "
                        f"form of the returned angles {fmt(odd)[:100]}")
        return
    ctx.ob("C20.10", f, ok,
           "get_orientations_euler: the vendored Euler conversion of every "
           "pose, in order, for the requested sequence" if ok else
           f"get_orientations_euler returns {fmt(odd)[:100]}",
           key="C20.10:euler-getter")


def _euler_default(ctx, prog):
    """C20.7: traj_rpy labels column 0/1/2 of get_orientations_euler(
    SETTINGS.euler_angle_sequence) roll / pitch / yaw; that is the rotation
    about x / y / z only for the static-frame sequence 'sxyz' ('rzyx' is the
    same rotation with the angles in reverse order). The packaged default of
    that setting must therefore be 'sxyz'."""
    m = prog.module("evo.tools.settings_template")
    r = Interp(prog).run_module(m)
    d = r.env.get("DEFAULT_SETTINGS_DICT_DOC")
    val = None
    if d is not None and d.op == "dict":
        for k, v in d.args:
            if tm.is_const(k, "euler_angle_sequence") and v.op == "tuple" \
                    and v.args and tm.is_const(v.args[0]):
                val = v.args[0].args[1]
    if val is None:
        ctx.undecidable("C20.7", prog.func(PL + "traj_rpy"),
                        "default of euler_angle_sequence not found in "
                        "settings_template.DEFAULT_SETTINGS_DICT_DOC")
        return
    f = prog.func(PL + "traj_rpy")
    rr = Interp(prog, inline=_helpers).run(f)
    uses = [e for e in rr.of_kind("call")
            if (e.data.get("name") or "").endswith("get_orientations_euler")]
    seq = uses[0].data["args"][0] if uses and uses[0].data["args"] else \
        ((uses[0].data.get("bound") or {}).get("axes") if uses else None)
    from_setting = seq is not None and any(
        x.op == "attr" and x.args[1] == "euler_angle_sequence"
        for x in seq.walk())
    ok = val == "sxyz" if from_setting else (
        seq is not None and tm.is_const(seq, "sxyz"))
    ctx.ob("C20.7", f, ok,
           "roll / pitch / yaw sub-plots: the packaged Euler sequence is "
           "'sxyz', whose angles are the rotations about x, y, z in that "
           "order" if ok else
           f"roll / pitch / yaw sub-plots take their columns from the Euler "
           f"sequence {val!r} (packaged default): column 0 is then not the "
           f"rotation about x, so the plot labelled roll shows another "
           f"angle", key="C20.7:euler-default", default=val)


def _formatter(ctx, prog):
    f = prog.func(PL + "_get_length_formatter")
    it = Interp(prog)
    r = it.run(f)
    key = [k for k in it.closures if k.endswith(".formatter")]
    ok = False
    if key:
        node, frame = it.closures[key[0]]
        import ast
        txt = ast.unparse(node)
        r2 = it.inline_closure(key[0], node, frame, [tm.param("x"),
                                                     tm.param("_")], [],
                               frame, tm.TRUE)
        div = [x for x in r2.walk() if x.op == "binop" and
               x.args[0] == "Div"]
        ok = bool(div) and div[0].args[1] is tm.param("x") and \
            div[0].args[2].op == "sub" and \
            div[0].args[2].args[1] is tm.param("length_unit") and \
            "METER_SCALE_FACTORS" in fmt(div[0].args[2].args[0])
    why = "tick formatter does not divide by the unit's meter factor"
    if not ok:
        # a conversion helper / a precomputed factor: evaluated for x = 1 m
        # in every length unit, helpers looked through
        from ..lib import const_eval, _NoValue
        uq_ = prog.cls("evo.core.units.Unit").qualname
        table = {"millimeters": 1e-3, "centimeters": 1e-2, "meters": 1.0,
                 "kilometers": 1e3}
        vals = {}
        try:
            for um, fac in table.items():
                if um not in (prog.enum_members(uq_) or []):
                    continue
                it2 = Interp(prog, max_depth=4)
                it2.run(f, {"length_unit": tm.enum(uq_, um)})
                k2 = [k for k in it2.closures if k.endswith(".formatter")]
                if not k2:
                    raise _NoValue("no formatter closure")
                node, frame = it2.closures[k2[0]]
                r3 = it2.inline_closure(k2[0], node, frame,
                                        [const(1.0), const(0)], [], frame,
                                        tm.TRUE)
                shown = [x for x in r3.walk() if is_call_to(x, ".format")
                         and x.args[1]]
                if len(shown) != 1:
                    raise _NoValue("format call")
                vals[um] = (const_eval(shown[0].args[1][0]), 1.0 / fac)
            ok = bool(vals) and all(abs(a - b) <= 1e-12 * abs(b)
                                    for a, b in vals.values())
            if not ok:
                bad_ = [(u, a, b) for u, (a, b) in vals.items()
                        if abs(a - b) > 1e-12 * abs(b)]
                why = (f"tick formatter shows 1 m as {bad_[0][1]:g} "
                       f"{bad_[0][0]}, expected {bad_[0][2]:g}") if bad_ \
                    else why
        except _NoValue as ex:
            ctx.undecidable("C20.5", f, f"tick formatter value not "
                            f"evaluated ({ex})")
            ok = None
    if ok is not None:
        ctx.ob("C20.5", f, ok,
               "tick formatter shows x / METER_SCALE_FACTORS[unit]" if ok
               else why, key="C20.5:formatter")
    g = prog.func(PL + "prepare_axis")
    uq = prog.cls("evo.core.units.Unit").qualname
    pmq = prog.cls(PM).qualname
    for unit, expect in (("meters", False), ("kilometers", True)):
        for mode in ("xy", "xyz"):
            def assume(t: T):
                if is_call_to(t, "builtins.isinstance"):
                    return True
                return None
            r = Interp(prog, assume=assume, inline=lambda fn: _helpers(fn)
                       or fn.qualname == PL + "plot_mode_to_idx").run(
                g, {"length_unit": tm.enum(uq, unit),
                    "plot_mode": tm.enum(pmq, mode)})
            fm = [e for e in r.of_kind("call")
                  if e.data.get("name") == ".set_major_formatter"
                  and not tm.is_const(e.live, False)]
            axes = sorted({e.data["recv"].args[1] for e in fm
                           if e.data.get("recv") is not None and
                           e.data["recv"].op == "attr"})
            want = (["xaxis", "yaxis"] + (["zaxis"] if mode == "xyz" else
                                          [])) if expect else []
            ok = axes == want
            ctx.ob("C20.5", g, ok,
                   f"prepare_axis[{unit},{mode}]: formatter on {want or 'no'}"
                   f" axes" if ok else
                   f"prepare_axis[{unit},{mode}]: formatter installed on "
                   f"{axes}, expected {want}",
                   key=f"C20.5:installed:{unit}:{mode}")
    r = Interp(prog, inline=_helpers).run(g, {"length_unit": tm.enum(uq, "seconds")})
    ok = any("PlotException" in (e.data.get("exc_name") or "") and
             tm.is_const(e.live, True) for e in r.of_kind("raise"))
    ctx.ob("C20.5", g, ok,
           "prepare_axis: non-length units are refused" if ok else
           "prepare_axis accepts a non-length unit",
           key="C20.5:non-length")


# --------------------------------------------------------------------- C20.6
def _purity(ctx, prog):
    results = sweep(prog, "plain")
    S = Summaries(prog, results)
    for name in ("traj", "traj_xyz", "traj_rpy", "speeds", "traj_colormap",
                 "draw_coordinate_axes", "draw_correspondence_edges",
                 "colored_line_collection", "add_start_end_markers",
                 "error_array", "trajectories"):
        q = PL + name
        f = prog.func(q)
        muts = S.mutated_params(q)
        bad = {p: e for p, e in muts.items()
               if p not in ("ax", "axarr", "fig", "fig_or_ax")}
        ctx.ob("C20.6", f, not bad,
               f"{name}: no write effect on its data arguments" if not bad
               else f"{name} modifies its argument "
                    f"`{list(bad)[0]}` ({list(bad.values())[0][0]!r}): a "
                    f"later plot of the same object shows shifted data",
               key=f"C20.6:{name}")


VARIANTS = [
    dict(name="idx-swapped-in-traj", file="evo/tools/plot.py",
         find="    x = traj.positions_xyz[:, x_idx]\n    y = traj.positions_xyz[:, y_idx]",
         replace="    x = traj.positions_xyz[:, y_idx]\n    y = traj.positions_xyz[:, x_idx]",
         expect="fire", rule="C20.2"),
    dict(name="label-letter-for-zx", file="evo/tools/plot.py",
         find="    elif plot_mode in {PlotMode.zx, PlotMode.yx}:\n        ylabel = f\"$x$ ({length_unit.value})\"",
         replace="    elif plot_mode in {PlotMode.yx}:\n        ylabel = f\"$x$ ({length_unit.value})\"",
         expect="fire", rule="C20.1"),
    dict(name="speeds-wrong-stamps", file="evo/tools/plot.py",
         find="    ax.plot(timestamps[1:], traj.speeds, style, color=color, alpha=alpha,",
         replace="    ax.plot(timestamps[:-1], traj.speeds, style, color=color, alpha=alpha,",
         expect="fire", rule="C20.4"),
    dict(name="error-array-args-swapped", file="evo/tools/plot.py",
         find="            ax.plot(x_array, err_array, linestyle=linestyle, marker=marker,",
         replace="            ax.plot(err_array, x_array, linestyle=linestyle, marker=marker,",
         expect="fire", rule="C20.4"),
    dict(name="zy-index-table", file="evo/tools/plot.py",
         find="    elif plot_mode == PlotMode.zy:\n        x_idx = 2\n        y_idx = 1",
         replace="    elif plot_mode == PlotMode.zy:\n        x_idx = 1\n        y_idx = 2",
         expect="fire", rule="C20.1"),
    dict(name="edges-interleave-swapped", file="evo/tools/plot.py",
         find="    interweaved_positions[1::2, :] = traj_2.positions_xyz",
         replace="    interweaved_positions[1::2, :] = traj_1.positions_xyz",
         expect="fire", rule="C20.3"),
    dict(name="marker-unit-slot", file="evo/tools/plot.py",
         find="    unit_y = np.array([0, 1 * marker_scale, 0, 1])",
         replace="    unit_y = np.array([1 * marker_scale, 0, 0, 1])",
         expect="fire", rule="C20.3"),
    dict(name="segments-y-uses-x", file="evo/tools/plot.py",
         find="          for x_1, x_2 in zip(xyz[:-1:step, y_idx], xyz[1::step, y_idx])]",
         replace="          for x_1, x_2 in zip(xyz[:-1:step, x_idx], xyz[1::step, y_idx])]",
         expect="fire", rule="C20.3"),
    dict(name="inplace-time-shift", file="evo/tools/plot.py",
         find="    if start_timestamp:\n        timestamps = traj.timestamps - start_timestamp\n"
              "    else:\n        timestamps = traj.timestamps\n",
         replace="    timestamps = traj.timestamps\n    if start_timestamp:\n"
                 "        timestamps -= start_timestamp\n",
         expect="fire", rule="C20.6"),
    dict(name="tuple-temp", file="evo/tools/plot.py",
         find="    x_idx, y_idx, z_idx = plot_mode_to_idx(plot_mode)\n    x = traj.positions_xyz[:, x_idx]",
         replace="    idx = plot_mode_to_idx(plot_mode)\n    x_idx, y_idx, z_idx = idx\n    x = traj.positions_xyz[:, x_idx]",
         expect="silent"),
]
