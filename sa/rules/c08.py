"""C08 — trajectory operations have their documented effect and keep all
views consistent."""
from __future__ import annotations

import itertools
from typing import Dict, List, Optional, Tuple

from .. import terms as tm
from ..interp import Event, Interp, Result
from ..lib import fmt, index_position, is_call_to, norm_loops, \
    seq_position, sweep
from ..progdb import AnalysisError, Function
from ..terms import T, const

EXPLANATION = """
Typestate / cache-coherence analysis of PosePath3D and PoseTrajectory3D.
The three cached views (_positions_xyz, _orientations_quat_wxyz, _poses_se3)
and `timestamps` form the abstract state. Every method that stores to a view
is abstractly interpreted once per *cache configuration* (the 5 reachable
combinations of which views are materialised; hasattr tests are folded per
configuration and updated as the method assigns/deletes views, lazy getters
inlined) and per flag combination (right_mul, propagate). C08.1: in every
configuration, when the method has written any view, every view that is
materialised at exit and affected by the operation was re-assigned or deleted
in that run — a view left untouched is the stale-cache defect. C08.3: the only
count-changing methods are the two reduce_to_ids; all selecting operations
reach the views only through self.reduce_to_ids (dynamic dispatch keeps the
timestamps in step) and every view is indexed with the same ids. C08.4-6:
lazy getters, transform (left t.p, right p.t, propagating variant) and scale
have the documented operand roles, established on the provenance terms of the
values stored to the views. C08.7: derived quantities are computed on demand
(no attribute store). C08.8: alignment has its documented effect in every flag
combination — scale-only applies scale(s) and nothing else, similarity applies
scale then transform, rigid only transform, origin alignment left-multiplies
ref_0 . inverse(own_0) (instances of C04.3/C04.4).
C08.7 cache protocol (wave 7): a derived quantity that is stored on the object
when first asked for is accepted iff every operation that rebinds a view it
was computed from drops the stored value afterwards (per receiver class, by
implication between path conditions); otherwise the operation is named.
C08.8 also imports C04.2 (first-n).
"""
UNDECIDED = [
    "numerical validity of poses as SE(3) after long operation histories "
    "(orthogonality drift)",
    "quaternion sign / convention of the vendored converters",
    "semantic equivalence of arbitrary re-implementations of the propagating "
    "transform: only the enumerated idioms are recognised (others: "
    "ANALYSIS-ERROR, never a verdict)",
]
TRUSTED = ["numpy.dot / ndarray.dot semantics", "vendored transformations.py "
           "(quaternion_from_matrix / quaternion_matrix)"]
ASSUMPTIONS = ["A5: no attribute injection beyond the hasattr cache idiom"]
MANIFEST = dict(
    text="Decides cache coherence of the trajectory classes for every "
         "operation history at once: a history can only desynchronise the "
         "views if some single operation leaves a materialised, affected "
         "view untouched in some cache configuration, and that is checked "
         "for every mutator x every reachable configuration x every flag "
         "combination (exhaustive, finite). Also decides the operand roles "
         "of transform/scale/reduce/lazy getters on provenance terms.",
    note="Decides structure (which view is refreshed from what, operand "
         "order), not floating-point validity of the resulting matrices. "
         "numpy.dot and the vendored quaternion converters are trusted.",
    technique="typestate analysis: per-configuration abstract interpretation "
              "(hasattr folding with state update) + provenance-term "
              "matching of stored values",
)
FLOORS = {"C08.1": 30, "C08.3": 6, "C08.4": 3, "C08.5": 4, "C08.6": 2,
          "C08.7": 4, "C08.8": 8, "C08.9": 6, "C08.10": 3}

PATH = "evo.core.trajectory.PosePath3D"
TRAJ = "evo.core.trajectory.PoseTrajectory3D"
P, Q, M = "_positions_xyz", "_orientations_quat_wxyz", "_poses_se3"
VIEWS = (P, Q, M)
PUBLIC = {"positions_xyz": P, "orientations_quat_wxyz": Q, "poses_se3": M}
CACHE_STATES = [           # (P, Q, M) materialised
    (False, False, True), (False, True, True), (True, False, True),
    (True, True, True), (True, True, False),
]
AFFECTED = {"scale": (P, M)}         # default: all three


def state_name(st) -> str:
    return "".join(n for n, b in zip("PQM", st) if b) or "-"


def run_in_state(prog, fn: Function, st, config: Optional[Dict[str, T]] =
                 None, self_cls=None, inline_helpers=True,
                 extra_assume=None) -> Result:
    """interpret method fn with the cache configuration st folded"""
    selfp = tm.param(fn.params[0])
    it = Interp(prog, inline_properties=True, max_depth=4)
    state = dict(zip(VIEWS, st))

    def assume(t: T) -> Optional[bool]:
        if t.op == "call" and tm.callee_name(t) == "builtins.hasattr" and \
                len(t.args[1]) == 2 and t.args[1][0] is selfp and \
                tm.is_const(t.args[1][1]):
            name = tm.const_val(t.args[1][1])
            cur = it.attrs.get((selfp, name))
            if cur is not None:
                return cur.op != "deleted"
            if name in state:
                return state[name]
        # the other cache protocol: a view that is not materialised holds
        # None (`self._x is None` is `not hasattr(self, "_x")`)
        if t.op == "cmp" and t.args[0] in ("Is", "IsNot") and \
                t.args[2] is tm.NONE:
            x = t.args[1]
            present = None
            if x.op == "deleted":
                present = False
            elif x.op == "attr" and x.args[0] is selfp and \
                    x.args[1] in state:
                cur = it.attrs.get((selfp, x.args[1]))
                present = state[x.args[1]] if cur is None else \
                    cur.op != "deleted"
            if present is not None:
                return present == (t.args[0] == "IsNot")
        if extra_assume is not None:
            return extra_assume(t)
        return None
    it.assume = assume

    def absent(base: T, name: str) -> Optional[bool]:
        if base is not selfp or name not in state:
            return None
        cur = it.attrs.get((selfp, name))
        if cur is not None:
            return True if cur.op == "deleted" else (
                False if cur.op != "ite" else None)
        return not state[name]
    it.attr_absent = absent
    store = it._store_attr

    def store_view(base: T, name: str, v: T, live: T):
        # `self._x = None` un-materialises the view like `del self._x`
        if base is selfp and name in state and v is tm.NONE:
            v = T("deleted")
        store(base, name, v, live)
    it._store_attr = store_view
    traj_mod = fn.module.name

    def inline(f: Function) -> bool:
        # private helpers of the trajectory module and the base-class
        # implementation reached through super()
        if f.is_property:
            return True
        if f.module.name == traj_mod and f.cls is None and \
                f.name not in ("merge",):
            return True          # conversion helpers of the module
        if f.cls is not None and f.name == fn.name and f is not fn:
            return True          # super().same_method(...)
        if not it._known(f) and not f.name.startswith("__"):
            return True          # helpers / methods added after the pinned
            #                      tree (a flush helper of an extracted base
            #                      class ...): looked through
        return False
    it._explicit_inline = inline
    return it.run(fn, dict(config or {}), self_cls)


def view_writes(res: Result, selfp: T) -> Dict[str, List[Event]]:
    out: Dict[str, List[Event]] = {v: [] for v in VIEWS + ("timestamps",)}
    for e in res.events:
        if e.kind in ("setattr", "delattr") and e.data["base"] is selfp \
                and e.data["name"] in out:
            if e.func is not None and e.func.is_property and \
                    e.func.name in PUBLIC and e.kind == "setattr" and \
                    PUBLIC[e.func.name] == e.data["name"]:
                continue       # lazy materialisation, not an update
            out[e.data["name"]].append(e)
        elif e.kind in ("setitem", "augassign"):
            tgt = e.data.get("base") if e.kind == "setitem" else \
                e.data.get("target")
            cur = tgt
            for _ in range(6):
                if isinstance(cur, T) and cur.op == "attr" and \
                        cur.args[0] is selfp and cur.args[1] in out:
                    out[cur.args[1]].append(e)
                    break
                if isinstance(cur, T) and cur.op in ("sub", "elem", "upd",
                                                     "mut"):
                    cur = cur.args[0]
                else:
                    break
    return out


def materialised_at_exit(res: Result, selfp: T, st) -> Dict[str, bool]:
    out = {}
    for v, b in zip(VIEWS, st):
        cur = res.attrs.get((selfp, v))
        out[v] = b if cur is None else cur.op != "deleted"
    return out


def _called_within_class(prog, results, c, m: Function) -> bool:
    for other in c.methods.values():
        if other is m:
            continue
        r = results.get(other.qualname)
        if r is None:
            continue
        for e in r.of_kind("call"):
            tgt = e.data.get("target")
            if tgt is m or (e.data.get("name") or "").endswith(
                    "." + m.name):
                return True
    return False


def mutator_methods(prog, results) -> List[Function]:
    """methods of the trajectory classes that store to a view directly"""
    out = []
    for cq in (PATH, TRAJ):
        c = prog.cls(cq)
        for name, m in sorted(c.methods.items()):
            if name == "__init__" or (m.is_property and name in PUBLIC):
                continue
            from ..known_functions import KNOWN_FUNCTIONS
            if name.startswith("_") and not name.startswith("__") and \
                    (_called_within_class(prog, results, c, m) or
                     m.qualname not in KNOWN_FUNCTIONS):
                # private helper of other methods: judged as part of its
                # callers (it is looked through when they are analysed)
                continue
            r = results[m.qualname]
            selfp = tm.param(m.params[0]) if m.params else None
            w = view_writes(r, selfp)
            if any(w[v] for v in w):
                out.append(m)
    return out


def check(ctx):
    prog = ctx.prog
    results = sweep(prog, "plain")
    pathc, trajc = prog.cls(PATH), prog.cls(TRAJ)
    muts = mutator_methods(prog, results)
    names = sorted({m.qualname for m in muts})
    ctx.analysed["mutators"] = names
    ctx.require(len(muts) >= 4, f"expected >=4 view-writing methods, found "
                f"{names}")

    # --------------------------------------------------------------- C08.1
    for m in muts:
        ctx.analysed_fn(m.qualname)
        flags = [p for p in m.params[1:]
                 if _is_bool_param(m, p)]
        combos = list(itertools.product([False, True], repeat=len(flags))) \
            if len(flags) <= 3 else [()]
        affected = AFFECTED.get(m.name, VIEWS)
        for st in CACHE_STATES:
            for combo in combos:
                cfg = {f: const(v) for f, v in zip(flags, combo)}
                for self_cls in ([trajc] if m.cls is trajc else
                                 [pathc, trajc]):
                    res = run_in_state(prog, m, st, cfg, self_cls)
                    ctx.analysed["configs"] += 1
                    selfp = tm.param(m.params[0])
                    w = view_writes(res, selfp)
                    if not any(w[v] for v in VIEWS):
                        continue
                    mat = materialised_at_exit(res, selfp, st)
                    for v in VIEWS:
                        if not mat[v] or v not in affected:
                            continue
                        ok = bool(w[v])
                        cfgs = ",".join(f"{f}={b}" for f, b in
                                        zip(flags, combo))
                        ctx.ob("C08.1", m, ok,
                               f"{m.qualname}[cache={state_name(st)}"
                               f"{';' + cfgs if cfgs else ''}]: view {v} is "
                               f"refreshed or flushed" if ok else
                               f"{m.qualname}: with cached views "
                               f"{state_name(st)}"
                               f"{' and ' + cfgs if cfgs else ''} the view "
                               f"{v} stays materialised but is neither "
                               f"updated nor flushed (stale cache: views "
                               f"describe different poses afterwards)",
                               key=f"C08.1:{m.qualname}:{v}:stale",
                               written={k: [e.where for e in es]
                                        for k, es in w.items() if es})

    # count-changing subclass: timestamps follow
    ctx.require(f"{TRAJ}.reduce_to_ids" in results,
                f"anchor function vanished: {TRAJ}.reduce_to_ids")
    r_sub = results[f"{TRAJ}.reduce_to_ids"]

    # --------------------------------------------------------------- C08.3
    for cq in (PATH, TRAJ):
        f = prog.func(f"{cq}.reduce_to_ids")
        ids = tm.param(f.params[1])
        for st in CACHE_STATES:
            res = run_in_state(prog, f, st, {}, prog.cls(cq))
            selfp = tm.param(f.params[0])
            for e in res.of_kind("delattr"):
                if e.data["base"] is not selfp or \
                        e.data["name"] not in (M, Q) or \
                        not st[VIEWS.index(e.data["name"])]:
                    continue
                # dropping a view instead of selecting from it: it is
                # regenerated from the other views, and neither conversion
                # is an exact inverse (matrices -> quaternions normalises
                # and forgets a Sim(3) scale; quaternions -> matrices ->
                # quaternions changes sign / last bits)
                ctx.ob("C08.3", e, False,
                       f"{cq}.reduce_to_ids[{state_name(st)}]: "
                       f"{e.data['name']} is dropped instead of selected "
                       f"by `ids`; the view regenerated from the other "
                       f"representation is not the unmodified data of the "
                       f"selected poses (poses given as matrices: rounding "
                       f"of the normalised quaternion, a Sim(3) scale is "
                       f"lost)",
                       key=f"C08.3:{cq}:{e.data['name']}:dropped")
            for e in res.of_kind("setattr"):
                if e.data["base"] is not selfp or \
                        e.data["name"] not in VIEWS + ("timestamps",):
                    continue
                v = e.data["value"]
                ok = _indexed_by(v, selfp, e.data["name"], ids, e.live)
                if ok is None:
                    ctx.undecidable(
                        "C08.3", e, f"{cq}.reduce_to_ids: {e.data['name']} "
                        f"is computed from `ids` in a form this rule does "
                        f"not read as an index selection: {fmt(v)[:120]}")
                    continue
                ctx.ob("C08.3", e, ok is True,
                       f"{cq}.reduce_to_ids[{state_name(st)}]: "
                       f"{e.data['name']} := own {e.data['name']} selected "
                       f"by `ids`" if ok is True else
                       (f"{cq}.reduce_to_ids: `ids` is converted with "
                        f"np.asarray / np.array without an integer dtype: "
                        f"an empty selection becomes a float64 array and "
                        f"indexing {e.data['name']} with it raises "
                        f"IndexError (e.g. association with no matches no "
                        f"longer reaches its SyncException)"
                        if ok == "float" else
                        (f"{cq}.reduce_to_ids: on a fast path "
                         f"{e.data['name']} becomes {ok[1]} although `ids` "
                         f"was not compared element by element with that "
                         f"range: an id list with repeated or unordered "
                         f"entries that happens to span the block (pair end "
                         f"ids, timestamp matches) selects other poses"
                         if isinstance(ok, tuple) else
                         f"{cq}.reduce_to_ids: {e.data['name']} is not the "
                         f"selection of itself by the `ids` argument: "
                         f"{fmt(v)}")),
                       key=f"C08.3:{cq}:{e.data['name']}:selection",
                       value=fmt(v))
                # ... on every path on which the view exists
                # (skipping it when `ids` is exactly 0..n-1 in order is the
                # same selection: such a test is taken as failed)
                # (two stores under complementary conditions — index list
                # here, block slice there — are one unconditional store)
                group = [x for x in res.of_kind("setattr")
                         if x.data["base"] is selfp and
                         x.data["name"] == e.data["name"]]
                always = tm.fold(
                    tm.mk_or(*[x.live for x in group]),
                    lambda t: False if _identity_ids(t, ids, selfp)
                    else None) is True
                ctx.ob("C08.3", e, always,
                       f"{cq}.reduce_to_ids[{state_name(st)}]: "
                       f"{e.data['name']} is re-selected unconditionally"
                       if always else
                       f"{cq}.reduce_to_ids: the selection of "
                       f"{e.data['name']} is skipped when "
                       f"not ({fmt(e.live)[:120]}) — e.g. an id list that "
                       f"repeats or reorders poses but has as many entries "
                       f"as there are poses is then ignored",
                       key=f"C08.3:{cq}:{e.data['name']}:unconditional")
    # subclass delegates to base implementation with the same ids
    fsub = prog.func(f"{TRAJ}.reduce_to_ids")
    supers = [e for e in r_sub.of_kind("call")
              if e.data.get("how") == "super" and
              (e.data.get("name") or "").endswith("PosePath3D.reduce_to_ids")]
    ok = len(supers) == 1 and (supers[0].data["bound"] or {}).get("ids") \
        is tm.param(fsub.params[1]) and tm.is_const(supers[0].live, True)
    ctx.ob("C08.3", fsub, ok,
           "PoseTrajectory3D.reduce_to_ids applies the base reduction with "
           "the same ids, unconditionally" if ok else
           "PoseTrajectory3D.reduce_to_ids does not (unconditionally) apply "
           "the base-class reduction with the same ids",
           key="C08.3:subclass-super")
    tw = [e for e in r_sub.of_kind("setattr")
          if e.data["name"] == "timestamps"]
    ok = len(tw) == 1 and tm.is_const(tw[0].live, True)
    ctx.ob("C08.3", fsub, ok,
           "PoseTrajectory3D.reduce_to_ids always re-selects the timestamps"
           if ok else "timestamps are not (always) reduced together with "
           "the poses", key="C08.3:subclass-timestamps")
    for cq, mname in ((PATH, "downsample"), (PATH, "motion_filter"),
                      (TRAJ, "reduce_to_time_range")):
        f = prog.func(f"{cq}.{mname}")
        r = results[f.qualname]
        selfp = tm.param(f.params[0])
        calls = [e for e in r.of_kind("call")
                 if (e.data.get("name") or "").endswith(".reduce_to_ids")]
        direct = view_writes(r, selfp)
        ok = bool(calls) and all(e.data.get("recv") is selfp for e in calls) \
            and not any(direct[v] for v in direct)
        ctx.ob("C08.3", f, ok,
               f"{f.qualname} changes the pose count only through "
               f"self.reduce_to_ids (dynamic dispatch includes timestamps)"
               if ok else
               f"{f.qualname} does not select through self.reduce_to_ids "
               f"(views or timestamps can get out of step)",
               key=f"C08.3:{mname}:via-reduce")

    # --------------------------------------------------------------- C08.4
    from .. import vendored
    vendored.check(ctx, "C08.4", ("quaternion_matrix",
                                  "quaternion_from_matrix"))
    ctx.section(_lazy_getters, ctx, prog)
    # --------------------------------------------------------------- C08.5
    ctx.section(_transform, ctx, prog)
    # --------------------------------------------------------------- C08.6
    ctx.section(_scale, ctx, prog)
    # --------------------------------------------------------------- C08.7
    for cq, names_ in ((PATH, ("distances", "path_length", "num_poses",
                               "get_infos", "check")),
                       (TRAJ, ("speeds", "get_infos", "get_statistics",
                               "check"))):
        for n in names_:
            f = prog.func(f"{cq}.{n}")
            r = results[f.qualname]
            st_ = [e for e in r.of_kind("setattr", "delattr")
                   if e.data["base"] is tm.param(f.params[0])]
            if not st_:
                # ... or kept in a private dictionary of the object
                st_ = [e for e in r.of_kind("setitem")
                       if e.data["base"].op == "attr" and
                       e.data["base"].args[0] is tm.param(f.params[0])]
            if st_:
                cp = _cache_protocol(prog, results, f, st_)
                if cp is None:
                    ctx.undecidable(
                        "C08.7", f, f"{f.qualname} stores "
                        f"{st_[0].data['name']} on the object in a form "
                        f"that is not a recognised cache")
                else:
                    ctx.ob("C08.7", f, cp[0], cp[1],
                           key=f"C08.7:{f.qualname}:cached")
                continue
            ctx.ob("C08.7", f, not st_,
                   f"{f.qualname} is computed from the views on demand "
                   f"(nothing cached that could go stale)" if not st_ else
                   f"{f.qualname} stores {st_[0].data['name']} on the "
                   f"object: a derived quantity cached there goes stale on "
                   f"the next operation",
                   key=f"C08.7:{f.qualname}:cached")

    ctx.section(_derived, ctx, prog)
    # --------------------------------------------------------------- C08.8
    from ..core import import_rules
    n = import_rules(ctx, "c04", ("C04.2", "C04.3", "C04.4"), "C08.8")
    ctx.require(n >= 8, "C08.8: alignment-effect instances not found")
    # "every pose remains a valid rigid-body pose" after alignment needs the
    # reflection fix of the Umeyama step; "time cropping has its documented
    # effect" is the inclusive mask of C11.3
    n = import_rules(ctx, "c03", ("C03.4", "C03.7"), "C08.9")
    n += import_rules(ctx, "c11", ("C11.3",), "C08.9")
    ctx.require(n >= 6, "C08.9: sign-fix / crop instances not found")
    # "each operation has exactly its documented effect ... and the views
    # describe the same poses": a pose matrix can occur several times in the
    # list ([pose] * n) and is shared with other objects, so an operation
    # that writes into the matrices instead of rebinding new ones is applied
    # k times to a k-fold entry while the cached positions get it once —
    # instances of C16.2 (storage writes of the trajectory classes)
    n = import_rules(ctx, "c16", ("C16.2",), "C08.10",
                     pred=lambda o: ".PosePath3D." in o.key or
                     ".PoseTrajectory3D." in o.key)
    ctx.require(n >= 3, "C08.10: pose-storage write instances not found")

    # constructor: the views come from the like-named arguments
    f = prog.func(f"{PATH}.__init__")
    r = results[f.qualname]
    for e in r.of_kind("setattr"):
        n = e.data["name"]
        if n in VIEWS and e.data["value"] is tm.NONE:
            continue       # "not materialised yet" marker before the stores
        if n in VIEWS:
            src = {P: "positions_xyz", Q: "orientations_quat_wxyz",
                   M: "poses_se3"}[n]
            ok = tm.mentions_param(e.data["value"], src) and not any(
                tm.mentions_param(e.data["value"], o)
                for o in ("positions_xyz", "orientations_quat_wxyz",
                          "poses_se3") if o != src)
            ctx.ob("C08.4", e, ok, f"__init__: {n} <- argument {src}",
                   key=f"C08.4:init:{n}", value=fmt(e.data["value"]))


def _cache_protocol(prog, results, f, st_):
    """A derived quantity that is stored on the object the first time it is
    asked for is still "computed from the current state" iff every operation
    that rebinds a view it was computed from drops the stored value
    afterwards.  (ok, message) — None if the storing idiom is not the
    fill-when-absent cache this argument is about."""
    import ast as _ast
    from ..lib import implies
    selfp = tm.param(f.params[0])
    if st_ and all(e.kind == "setitem" for e in st_):
        return _cache_protocol_dict(prog, f, st_)
    names = {e.data["name"] for e in st_}
    if len(names) != 1:
        return None
    c = names.pop()
    if c in VIEWS or c in ("timestamps", "meta"):
        return None

    def filled(obj):
        """assignment for "the cache of obj holds a value": hasattr(obj, c),
        obj.c is not None, getattr(obj, c, None) is not None"""
        h = tm.call(tm.glob("builtins.hasattr"), (obj, const(c)), ())
        held = (tm.attr(obj, c),
                tm.call(tm.glob("builtins.getattr"),
                        (obj, const(c), tm.NONE), ()))

        def assign(t: T):
            if t is h:
                return True
            if t.op == "cmp" and t.args[0] in ("Is", "IsNot", "Eq",
                                               "NotEq") and \
                    t.args[2] is tm.NONE and any(t.args[1] is x
                                                 for x in held):
                return t.args[0] in ("IsNot", "NotEq")
            return None
        return assign
    sets = [e for e in st_ if e.kind == "setattr"]
    if not sets or len(sets) != len(st_):
        return None
    for e in sets:
        if tm.fold(e.live, filled(selfp)) is not False:
            return None          # not a fill-when-absent store
    v = sets[0].data["value"]
    deps = set()
    for x in v.walk():
        if x.op == "attr" and x.args[0] is selfp:
            deps |= {"positions_xyz": {P, M}, P: {P},
                     "orientations_quat_wxyz": {Q, M}, Q: {Q},
                     "poses_se3": {M, P, Q}, M: {M},
                     "timestamps": {"timestamps"}}.get(x.args[1], set())
    if not deps:
        return None
    # operations that always drop the cache (helpers like _flush_...() that
    # were added with it are looked through by the interpreter anyway)
    def drops(r, sp):
        return [e for e in r.of_kind("delattr", "setattr")
                if e.data["base"] is sp and e.data["name"] == c and
                (e.kind == "delattr" or e.data["value"] is tm.NONE)]
    # the methods as they run on an object of the class that owns the cache
    # (and of its subclasses): self.hook() dispatches to the override there
    owner = f.cls
    receivers = [prog.classes[cq] for cq in (PATH, TRAJ)
                 if prog.is_subclass(cq, owner.qualname)]
    for recv_cls in receivers:
        v = _cache_protocol_for(prog, f, c, deps, filled, drops, recv_cls)
        if v is not None:
            return v
    return (True, f"{f.qualname} caches its result in {c}; every operation "
                  f"that rebinds {sorted(deps)} drops it afterwards (on "
                  f"{[k.name for k in receivers]} objects)")


def _cache_protocol_dict(prog, f, st_):
    """the same protocol for a cache kept in a private dictionary of the
    object (`self._derived["path_length"] = ...`, filled when the key is
    absent): dropped by rebinding the dictionary to an empty one, .clear(),
    or deleting / popping the key"""
    selfp = tm.param(f.params[0])
    slots = {(e.data["base"], e.data["index"]) for e in st_}
    if len(slots) != 1:
        return None
    base, key = slots.pop()
    if not (base.op == "attr" and base.args[0] is selfp and
            base.args[1].startswith("_") and tm.is_const(key)):
        return None
    D, c = base.args[1], f"{base.args[1]}[{tm.const_val(key)!r}]"

    def filled(obj):
        d_ = tm.attr(obj, D)

        def assign(t: T):
            if t.op == "cmp" and t.args[0] in ("In", "NotIn") and \
                    t.args[1] is key and t.args[2] is d_:
                return t.args[0] == "In"
            return None
        return assign
    for e in st_:
        if tm.fold(e.live, filled(selfp)) is not False:
            return None
    v = st_[0].data["value"]
    deps = set()
    for x in v.walk():
        if x.op == "attr" and x.args[0] is selfp:
            deps |= {"positions_xyz": {P, M}, P: {P},
                     "orientations_quat_wxyz": {Q, M}, Q: {Q},
                     "poses_se3": {M, P, Q}, M: {M},
                     "timestamps": {"timestamps"}}.get(x.args[1], set())
    if not deps:
        return None

    def drops(r, sp):
        d_ = tm.attr(sp, D)
        out = []
        for e in r.events:
            if e.kind == "setattr" and e.data["base"] is sp and \
                    e.data["name"] == D and (
                        (Interp.unname(e.data["value"]).op == "dict" and
                         not Interp.unname(e.data["value"]).args) or
                        (is_call_to(e.data["value"], "builtins.dict") and
                         not e.data["value"].args[1])):
                out.append(e)
            elif e.kind == "call" and e.data.get("name") == ".clear" and \
                    e.data.get("recv") is not None and (
                        e.data["recv"] is d_ or
                        root_object(e.data["recv"]) is d_):
                out.append(e)
            elif e.kind == "delitem" and e.data.get("base") is d_ and \
                    e.data.get("index") is key:
                out.append(e)
            elif e.kind == "call" and e.data.get("name") == ".pop" and \
                    e.data.get("recv") is d_ and e.data["args"] and \
                    e.data["args"][0] is key:
                out.append(e)
        return out
    owner = f.cls
    receivers = [prog.classes[cq] for cq in (PATH, TRAJ)
                 if prog.is_subclass(cq, owner.qualname)]
    for recv_cls in receivers:
        v = _cache_protocol_for(prog, f, c, deps, filled, drops, recv_cls)
        if v is not None:
            return v
    return (True, f"{f.qualname} caches its result in {c}; every operation "
                  f"that rebinds {sorted(deps)} empties it afterwards (on "
                  f"{[k.name for k in receivers]} objects)")


def _cache_protocol_for(prog, f, c, deps, filled, drops, recv_cls):
    import ast as _ast
    from ..lib import implies
    flushers = set()
    names = []
    for k in prog.mro(recv_cls):
        for n_ in k.methods:
            if n_ not in names:
                names.append(n_)
    methods = []
    runs = {}
    for n_ in names:
        m = prog.find_method(recv_cls, n_)
        if m is None or m is f or m.name == "__init__" or m.is_property \
                or not m.params or m.is_static:
            continue
        methods.append(m)
        runs[m.qualname] = Interp(prog).run(m, self_cls=recv_cls)
    results = runs
    for m in methods:
        sp = tm.param(m.params[0]) if m.params else None
        if sp is None:
            continue
        if any(tm.fold(d.live, filled(sp)) is True
               for d in drops(results[m.qualname], sp)):
            flushers.add(m.name)
    for m in methods:
        if not m.params:
            continue
        sp = tm.param(m.params[0])
        r = results[m.qualname]
        W = [e for e in r.of_kind("setattr", "delattr")
             if e.data["base"] is sp and e.data["name"] in deps]
        if not W:
            continue
        reads_cache = any(
            isinstance(n_, _ast.Attribute) and n_.attr == f.name
            for n_ in _ast.walk(m.node))
        # (a drop *before* the write is as good if the method never asks for
        # the cached quantity itself: nothing can refill the cache between)
        D = [(d, reads_cache) for d in drops(r, sp)]
        for e in r.of_kind("call"):
            nm = (e.data.get("name") or "").rsplit(".", 1)[-1]
            rc = e.data.get("recv")
            if nm in flushers and rc is not None and (
                    rc is sp or rc.op == "super") and not e.data.get(
                        "inlined"):
                D.append((e, reads_cache))
        for w in W:
            ok = False
            for d, ordered in D:
                if ordered and d.idx < w.idx:
                    continue
                if implies(w.live, d.live, given=filled(sp)) is True:
                    ok = True
                    break
            if not ok:
                return (False,
                        f"{f.qualname} caches its result in {c}, but "
                        f"{m.qualname} rebinds {w.data['name']} at "
                        f"{w.where} without dropping {c} afterwards: the "
                        f"next call returns the value of the old poses")
    return None


def _is_bool_param(m: Function, p: str) -> bool:
    import ast
    d = m.defaults().get(p)
    ann = m.annotation(p)
    if isinstance(d, ast.Constant) and isinstance(d.value, bool):
        return True
    try:
        return ann is not None and ast.unparse(ann) == "bool"
    except Exception:
        return False


def _derived(ctx, prog):
    """C08.7 (definitions): path length = arc length of the positions,
    accumulated distances = accumulated_distances(positions), duration =
    last - first timestamp, speed k = |p_(k+1) - p_k| / (t_(k+1) - t_k) for
    all consecutive pairs — each read through the public views."""
    selfp = tm.param("self")
    pos = tm.attr(selfp, "positions_xyz")
    ts = tm.attr(selfp, "timestamps")
    # views are read through the lazy getters: do not inline them here
    plain = Interp(prog, inline=lambda fn: False, inline_properties=False)

    # (the definitions are judged where a private cache of the result — see
    # the :cached instances — has not been filled yet; a copy of the result
    # handed out instead of the stored array is the same values)
    def no_cache(t: T):
        if is_call_to(t, "builtins.hasattr") and len(t.args[1]) == 2 and \
                t.args[1][0] is selfp and tm.is_const(t.args[1][1]) and \
                t.args[1][1].args[1] not in VIEWS:
            return False
        if t.op == "cmp" and t.args[0] in ("In", "NotIn") and \
                tm.is_const(t.args[1]) and t.args[2].op == "attr" and \
                t.args[2].args[0] is selfp and \
                t.args[2].args[1].startswith("_") and \
                t.args[2].args[1] not in VIEWS:
            return t.args[0] == "NotIn"      # key of a private cache dict
        return None
    plain = Interp(prog, inline=lambda fn: False, inline_properties=False,
                   assume=no_cache)

    def final(fq):
        f = prog.func(fq)
        ret = plain.run(f).ret
        for _ in range(3):
            if is_call_to(ret, ".copy") and not ret.args[1]:
                ret = tm.method_recv(ret)
            elif is_call_to(ret, "numpy.copy", "copy.copy",
                            "copy.deepcopy") and len(ret.args[1]) == 1:
                ret = ret.args[1][0]
        return f, ret
    f, ret = final(f"{PATH}.path_length")
    core = ret.args[1][0] if is_call_to(ret, "builtins.float") and \
        ret.args[1] else ret
    ok = is_call_to(core, "evo.core.geometry.arc_len") and core.args[1] and \
        core.args[1][0] is pos
    ctx.ob("C08.7", f, bool(ok),
           "path_length = arc_len(positions_xyz)" if ok else
           f"path_length is {fmt(ret)}", key="C08.7:def:path_length")
    fa = prog.func("evo.core.geometry.arc_len")
    xa = tm.param(fa.params[0])
    # (private helpers of geometry.py are looked through)
    ra = Interp(prog, inline_properties=False).run(fa).ret
    if is_call_to(ra, "builtins.float") and len(ra.args[1]) == 1:
        ra = ra.args[1][0]
    nrm = ra.args[1][0] if is_call_to(ra, "numpy.sum", ".sum") and \
        ra.args[1] else (tm.method_recv(ra) if is_call_to(ra, ".sum")
                         else None)
    from ..lib import step_norms
    ok = nrm is not None and step_norms(nrm, xa) is True
    ctx.ob("C08.7", fa, bool(ok),
           "arc_len = sum of the consecutive step lengths |x_k - x_(k+1)|"
           if ok else f"arc_len is {fmt(ra)}", key="C08.7:def:arc_len")
    f, ret = final(f"{PATH}.distances")
    ok = is_call_to(ret, "evo.core.geometry.accumulated_distances") and \
        ret.args[1] and ret.args[1][0] is pos
    ctx.ob("C08.7", f, bool(ok),
           "distances = accumulated_distances(positions_xyz)" if ok else
           f"distances is {fmt(ret)}", key="C08.7:def:distances")
    f = prog.func("evo.core.trajectory.calc_speed")
    r = plain.run(f)
    x1, x2, t1, t2 = (tm.param(p_) for p_ in f.params[:4])
    core = r.ret.args[1][0] if is_call_to(r.ret, "builtins.float") and \
        r.ret.args[1] else r.ret
    ok = core.op == "binop" and core.args[0] == "Div" and \
        is_call_to(core.args[1], "numpy.linalg.norm") and \
        core.args[1].args[1] and \
        core.args[1].args[1][0].op == "binop" and \
        core.args[1].args[1][0].args[0] == "Sub" and \
        {core.args[1].args[1][0].args[1],
         core.args[1].args[1][0].args[2]} == {x1, x2} and \
        core.args[2] is T("binop", "Sub", t2, t1)
    ctx.ob("C08.7", f, bool(ok),
           "calc_speed = |xyz_2 - xyz_1| / (t_2 - t_1)" if ok else
           f"calc_speed is {fmt(r.ret)}", key="C08.7:def:calc_speed")
    f, ret = final(f"{TRAJ}.speeds")
    ok = None
    why = fmt(ret)[:120]
    for alt in tm.strip_ite(ret):
        arr = alt.args[1][0] if is_call_to(alt, "numpy.array") and \
            alt.args[1] else alt
        if arr.op != "comp":
            continue
        elt = arr.args[1]
        if not is_call_to(elt, "evo.core.trajectory.calc_speed") or \
                len(elt.args[1]) != 4 or arr.args[3]:
            continue
        a = [seq_position(x) for x in elt.args[1]]
        if None in a or any(q[2] is None for q in a):
            continue
        offs = [q[1] for q in a]
        seqs = [q[3] for q in a]
        cnt = min(q[2] for q in a)
        ok = offs == [0, 1, 0, 1] and seqs[0] is pos and seqs[1] is pos \
            and seqs[2] is ts and seqs[3] is ts and cnt == -1
        why = f"offsets {offs}, count n{cnt:+d}"
    if ok is None:
        ctx.undecidable("C08.7", f, f"speeds: form not recognised: {why}")
    else:
        ctx.ob("C08.7", f, ok,
               "speeds[k] = calc_speed(p_k, p_(k+1), t_k, t_(k+1)) for all "
               "n-1 consecutive pairs" if ok else
               f"speeds deviates from consecutive pose pairs: {why}",
               key="C08.7:def:speeds")


def _same_ids(t: T, ids: T):
    """True if t is the `ids` argument (possibly normalised to an *integer*
    index array); "float" for np.asarray(ids) without an integer dtype — an
    empty selection then becomes a float64 array and indexing with it raises
    IndexError instead of selecting nothing; False otherwise"""
    if t is ids:
        return True
    if is_call_to(t, "builtins.list", "builtins.tuple") and \
            len(t.args[1]) == 1 and t.args[1][0] is ids:
        return True
    if is_call_to(t, "numpy.asarray", "numpy.array", "numpy.asanyarray") \
            and t.args[1] and t.args[1][0] is ids:
        dt = dict(t.args[2]).get("dtype") or (
            t.args[1][1] if len(t.args[1]) > 1 else None)
        if dt is not None and (dt is tm.glob("builtins.int") or (
                dt.op == "global" and dt.args[0].startswith("numpy.int")) or
                (tm.is_const(dt) and str(dt.args[1]).startswith("int"))):
            return True
        return "float"
    return False


def _indexed_by(v: T, selfp: T, attr: str, ids: T, live: T = None):
    own = tm.attr(selfp, attr)
    r0 = _indexed_by_plain(v, selfp, attr, ids)
    if r0 is True or r0 == "float" or \
            not any(x.op == "ite" for x in v.walk()):
        return r0
    live = tm.TRUE if live is None else live
    # a fast path next to the index selection (a slice for a contiguous
    # block ...): every alternative is judged under the conditions that
    # lead to it — a slice(a, b) of the own array is the selection by `ids`
    # exactly where np.array_equal(ids, np.arange(a, b)) was established
    import itertools
    conds = []
    for x in list(v.walk()) + list(live.walk()):
        if x.op == "ite":
            for a in tm.atoms(x.args[0]):
                if not any(a is c for c in conds):
                    conds.append(a)
    if len(conds) > 12:
        return False
    verdict = True

    def settle(t: T, env) -> T:
        for _ in range(6):
            nxt = tm.deep_select(t, lambda a: env.get(id(a)))
            # `(None if .. else slice) is None` decides once the inner
            # conditional is resolved
            nxt = nxt.map(lambda z: const(
                (z.args[1] is tm.NONE) == (z.args[0] == "Is")) if (
                z.op == "cmp" and z.args[0] in ("Is", "IsNot") and
                z.args[2] is tm.NONE and z.args[1].op != "ite" and (
                    z.args[1] is tm.NONE or is_call_to(
                        z.args[1], "builtins.slice") or
                    z.args[1].op == "slice")) else None)
            if nxt is t:
                break
            t = nxt
        return t
    for bits in itertools.product((True, False), repeat=len(conds)):
        env = {id(c): b for c, b in zip(conds, bits)}
        lv = settle(T("tuple", live), env).args[0]
        if tm.fold(lv, lambda a: env.get(id(a))) is False:
            continue              # this store does not run in that case
        leaf = settle(v, env)
        if any(x.op == "ite" for x in leaf.walk()):
            return False
        r1 = _indexed_by_plain(leaf, selfp, attr, ids)
        if r1 is True:
            continue
        if r1 == "float":
            verdict = "float"
            continue
        core = leaf
        if is_call_to(core, "builtins.list") and len(core.args[1]) == 1:
            core = core.args[1][0]
        sl_ = core.args[1] if core.op == "sub" else None
        if sl_ is not None and sl_.op == "slice" and \
                sl_.args[2] is tm.NONE and sl_.args[0] is not tm.NONE:
            sl_ = tm.call(tm.glob("builtins.slice"),
                          (sl_.args[0], sl_.args[1]), ())
        if core.op == "sub" and core.args[0] is own and is_call_to(
                sl_, "builtins.slice") and \
                len(sl_.args[1]) == 2:
            a_, b_ = sl_.args[1]
            rng = tm.call(tm.glob("numpy.arange"), (a_, b_), ())
            est = [c for c, bit in zip(conds, bits) if bit and is_call_to(
                c, "numpy.array_equal") and len(c.args[1]) == 2 and
                rng in c.args[1] and any(
                    _same_ids(z, ids) in (True, "float") or
                    z is ids for z in c.args[1])]
            if est:
                continue
            return ("slice", fmt(core)[:60])
        return r1
    return verdict


def _own_values(t: T, own: T) -> bool:
    """t holds the entries of `own` in order: own itself, np.asarray /
    np.array of it, a .reshape(-1, ...) that keeps the leading axis"""
    for _ in range(6):
        if t is own:
            return True
        if is_call_to(t, "numpy.asarray", "numpy.array", "numpy.stack",
                      "numpy.ascontiguousarray") and len(t.args[1]) == 1 \
                and not any(k in ("dtype", "axis") for k, _ in t.args[2]):
            t = t.args[1][0]
        elif is_call_to(t, ".reshape") and t.args[1] and (
                tm.is_const(t.args[1][0], -1) or (
                    t.args[1][0].op == "tuple" and t.args[1][0].args and
                    tm.is_const(t.args[1][0].args[0], -1))):
            t = tm.method_recv(t)
        else:
            return False
    return False


def _indexed_by_plain(v: T, selfp: T, attr: str, ids: T):
    """True / 'float' (ids converted without integer dtype) / False (an
    index selection of the own view by something else, or a value that does
    not depend on `ids` at all: evidence) / None (not read as a selection)"""
    own = tm.attr(selfp, attr)
    if attr == M and is_call_to(v, "builtins.list") and \
            len(v.args[1]) == 1 and not v.args[2]:
        # the pose list: list(<stacked matrices>[ids]) holds the same rows
        v = v.args[1][0]
    if v.op == "sub" and _own_values(v.args[0], own):
        return _same_ids(v.args[1], ids)
    if v.op == "call" and is_call_to(v, "numpy.take") and \
            len(v.args[1]) >= 2 and v.args[1][0] is own:
        return _same_ids(v.args[1][1], ids)
    if v.op == "comp" and len(v.args[2]) == 1 and not v.args[3]:
        it, lid = v.args[2][0]
        el = T("elem", it, lid)
        if it is ids and v.args[1] is tm.sub(own, el):
            return True
    root = ids
    while root.op == "named":
        root = root.args[1]
    if any(x is ids or x is root for x in v.walk()) and not (
            v.op == "sub" and v.args[0] is own):
        return None
    return False


# ----------------------------------------------------------------- helpers
def _dot_operands(t: T) -> Optional[Tuple[T, T]]:
    """(left, right) of a matrix product term"""
    if t.op == "call":
        n = tm.callee_name(t)
        if n in ("numpy.dot", "numpy.matmul") and len(t.args[1]) == 2:
            return t.args[1][0], t.args[1][1]
        if n == ".dot" and len(t.args[1]) == 1:
            return tm.method_recv(t), t.args[1][0]
    if t.op == "binop" and t.args[0] == "MatMult":
        return t.args[1], t.args[2]
    return None


def _lazy_getters(ctx, prog):
    want = {
        "positions_xyz": (P, "block [:3, 3] of each pose matrix"),
        "orientations_quat_wxyz": (Q, "quaternion_from_matrix of each pose"),
        "poses_se3": (M, "se3(rotation of quaternion_matrix(q), xyz) zipped "
                         "in step"),
    }
    for name, (attr, what) in want.items():
        f = prog.func(f"{PATH}.{name}")
        ctx.analysed_fn(f.qualname)
        selfp = tm.param(f.params[0])
        # state in which the view is missing but the others exist
        st = tuple(v != attr for v in VIEWS)
        res = run_in_state(prog, f, st, {}, prog.cls(PATH))
        fills = [e for e in res.of_kind("setattr")
                 if e.data["base"] is selfp and e.data["name"] == attr]
        ok = len(fills) == 1
        v = fills[0].data["value"] if fills else None
        if ok:
            if name == "positions_xyz":
                ok = _is_per_pose(v, selfp, lambda el: _is_block(
                    el, "trans"))
            elif name == "orientations_quat_wxyz":
                ok = _is_per_pose(v, selfp, lambda el: el.op == "call" and
                                  is_call_to(el, "evo.core.transformations."
                                                 "quaternion_from_matrix"))
            else:
                ok = _is_se3_from_xyz_quat(v, selfp)
        ret_ok = bool(fills) and res.ret is fills[0].data["value"] or \
            res.ret is tm.attr(selfp, attr) or (
                fills and res.attrs.get((selfp, attr)) is res.ret)
        src_views = {"positions_xyz": (M,), "orientations_quat_wxyz": (M,),
                     "poses_se3": (P, Q)}[name]
        if not ok and v is not None and ret_ok and name != "positions_xyz" \
                and all(any(x is tm.attr(selfp, sv_) for x in v.walk())
                        for sv_ in src_views) and not any(
                    is_call_to(x, "evo.core.transformations."
                                  "quaternion_from_matrix",
                               "evo.core.transformations.quaternion_matrix")
                    for x in v.walk()):
            # the conversion is re-implemented (batched eigen-decomposition,
            # closed form ...) from the right source view: whether it agrees
            # with the vendored conversion for every rotation (half turns,
            # scaled blocks) is arithmetic this analysis does not model
            ctx.undecidable("C08.4", f, f"lazy getter {name}: conversion "
                            f"re-implemented without the vendored "
                            f"quaternion helpers")
            continue
        ctx.ob("C08.4", f, bool(ok) and bool(ret_ok),
               f"lazy getter {name} fills {attr} with the {what} and returns "
               f"it" if ok and ret_ok else
               f"lazy getter {name} does not build {attr} as the {what}: "
               f"{fmt(v) if v is not None else 'no fill'}",
               key=f"C08.4:getter:{name}", value=fmt(v) if v else None)


def _is_block(t: T, kind: str) -> bool:
    """p[:3, 3] (trans) or p[:3, :3] (rot) of some term"""
    if t.op != "sub" or t.args[1].op != "tuple" or len(t.args[1].args) != 2:
        return False
    a, b = t.args[1].args
    upto3 = lambda s: s.op == "slice" and tm.is_const(s.args[0], None) and \
        tm.is_const(s.args[1], 3) and tm.is_const(s.args[2], None)
    if kind == "trans":
        return upto3(a) and tm.is_const(b, 3)
    return upto3(a) and upto3(b)


def _is_per_pose(v: T, selfp: T, pred) -> bool:
    """np.array([ f(p) for p in self._poses_se3 ])"""
    if is_call_to(v, ".reshape") and len(v.args[1]) == 2 and \
            tm.is_const(v.args[1][0], -1) and tm.is_const(v.args[1][1]) and \
            tm.method_recv(v) is not None:
        # .reshape(-1, width) of the stacked rows keeps every row (it only
        # fixes the shape of an empty result)
        v = tm.method_recv(v)
    if v.op == "call" and is_call_to(v, "numpy.array", "numpy.asarray") \
            and v.args[1]:
        v = v.args[1][0]
    if v.op != "comp" or len(v.args[2]) != 1 or v.args[3]:
        return False
    it, lid = v.args[2][0]
    if it is not tm.attr(selfp, M) and it is not tm.attr(selfp, "poses_se3"):
        return False
    el = T("elem", it, lid)
    elt = v.args[1]
    if not pred(elt):
        return False
    # the block / converter is applied to the loop element itself
    inner = elt.args[0] if elt.op == "sub" else (
        elt.args[1][0] if elt.op == "call" and elt.args[1] else None)
    return inner is el


def _is_se3_from_xyz_quat(v: T, selfp: T) -> bool:
    """[se3(so3_from_se3(quaternion_matrix(q)), x) for q, x in zip(quat,
    xyz)] with quat/xyz the object's own quaternion / position views"""
    if v.op != "comp" or len(v.args[2]) != 1 or v.args[3]:
        return False
    it, lid = v.args[2][0]
    if not is_call_to(it, "builtins.zip") or len(it.args[1]) != 2:
        return False
    elt = v.args[1]
    if not (elt.op == "call" and is_call_to(elt, "evo.core.lie_algebra.se3")
            and len(elt.args[1]) == 2):
        return False
    rot, trans = elt.args[1]

    def src_view(el: T) -> Optional[str]:
        if el.op != "elem" or el.args[1] != lid:
            return None
        s = el.args[0]
        for nm in (P, "positions_xyz"):
            if s is tm.attr(selfp, nm):
                return P
        for nm in (Q, "orientations_quat_wxyz"):
            if s is tm.attr(selfp, nm):
                return Q
        # lazy getter inlined: value of the cached attribute
        return None
    qm = [x for x in rot.walk() if x.op == "call" and is_call_to(
        x, "evo.core.transformations.quaternion_matrix")]
    if len(qm) != 1 or not qm[0].args[1]:
        return False
    rot_ok = (is_call_to(rot, "evo.core.lie_algebra.so3_from_se3") and
              rot.args[1] and rot.args[1][0] is qm[0]) or \
        (_is_block(rot, "rot") and rot.args[0] is qm[0])
    return bool(rot_ok) and src_view(qm[0].args[1][0]) == Q and \
        src_view(trans) == P


def _transform(ctx, prog):
    f = prog.func(f"{PATH}.transform")
    ctx.analysed_fn(f.qualname)
    selfp = tm.param(f.params[0])
    ctx.require(f.params[1:4] == ["t", "right_mul", "propagate"],
                "transform(t, right_mul, propagate) signature changed")
    tpar = tm.param("t")
    st = (True, True, True)

    def rigid(a: T):
        # the multiplication clauses are about a rigid T: a separate
        # treatment of Sim(3) matrices is decided for the SE(3) case
        if is_call_to(a, "evo.core.lie_algebra.is_se3") and a.args[1] and \
                a.args[1][0] is tpar:
            return True
        return None
    # a similarity T = (s, R, t): only T*P scales the positions — P*T has
    # the position R_p t + p, which no scale of T touches. If transform()
    # rescales the path at all, that must not happen for right
    # multiplication.
    for pr in (False, True):
        rs = run_in_state(prog, f, st, {"right_mul": const(True),
                                        "propagate": const(pr)},
                          prog.cls(PATH),
                          extra_assume=lambda a: False if rigid(a) else None)
        sc = [e for e in rs.of_kind("call")
              if (e.data.get("name") or "").endswith(".scale") and
              e.data.get("recv") is selfp and
              not tm.is_const(e.live, False)]
        if sc or pr is False:
            ctx.ob("C08.5", sc[0] if sc else f, not sc,
                   "transform[right_mul]: the path is not rescaled for a "
                   "right multiplication" if not sc else
                   f"transform[right_mul=True,propagate={pr}]: the positions "
                   f"are scaled ({sc[0].where}) although P*T leaves every "
                   f"position at R_p t + p for a similarity T too",
                   key="C08.5:transform:right_mul:no-scale",
                   nontrivial=bool(sc))
    for rm, pr in itertools.product([False, True], repeat=2):
        res = run_in_state(prog, f, st, {"right_mul": const(rm),
                                         "propagate": const(pr)},
                           prog.cls(PATH), extra_assume=rigid)
        ctx.analysed["configs"] += 1
        mode = f"right_mul={rm},propagate={pr}"
        final = res.attrs.get((selfp, M))
        ctx.require(final is not None, f"transform[{mode}] never assigns "
                    f"{M}")
        if not (rm and pr):
            ok = False
            why = fmt(final)
            if final.op == "comp" and len(final.args[2]) == 1 and \
                    not final.args[3]:
                it, lid = final.args[2][0]
                el = T("elem", it, lid)
                ops = _dot_operands(final.args[1])
                src_ok = it is tm.attr(selfp, M) or \
                    it is tm.attr(selfp, "poses_se3")
                if ops is not None and src_ok:
                    want = (el, tpar) if rm else (tpar, el)
                    ok = ops == want
            ctx.ob("C08.5", f, ok,
                   f"transform[{mode}]: every pose p becomes "
                   f"{'p.t' if rm else 't.p'}" if ok else
                   f"transform[{mode}]: new poses are not "
                   f"{'p.t' if rm else 't.p'} for each pose p: {why}",
                   key=f"C08.5:transform:{mode}", value=why)
        else:
            _propagate(ctx, f, res, selfp, tpar, mode)
        # afterwards both other views are recomputed from the new matrices
        for v in (P, Q):
            val = res.attrs.get((selfp, v))
            ok = val is not None and val.op != "deleted" and any(
                x is final for x in val.walk()) or \
                (val is not None and val.op == "deleted")
            # accept flush as well as recompute-from-new-matrices
            w = [e for e in res.of_kind("setattr", "delattr")
                 if e.data["base"] is selfp and e.data["name"] == v]
            after = bool(w) and all(
                e.idx > max(x.idx for x in res.events
                            if x.kind in ("setattr", "setitem", "call")
                            and _writes_M(x, selfp)) for e in w[-1:])
            ctx.ob("C08.5", f, bool(ok) and after,
                   f"transform[{mode}]: {v} is recomputed from the new "
                   f"matrices (or flushed) after they are final"
                   if ok and after else
                   f"transform[{mode}]: {v} is not derived from the "
                   f"transformed matrices: {fmt(val)}",
                   key=f"C08.5:transform:{mode}:{v}")


def _identity_ids(a: T, ids: T, selfp: T) -> bool:
    """the test `ids` == [0, 1, ..., num_poses - 1] (element-wise, in order):
    np.array_equal(ids, np.arange(n)) / list(ids) == list(range(n))"""
    from ..lib import strip_asarray, strip_copies
    n_forms = (tm.attr(selfp, "num_poses"),)

    def is_ids(x: T) -> bool:
        x = strip_asarray(strip_copies(x))
        while is_call_to(x, "builtins.list", "builtins.tuple",
                         "numpy.asarray", "numpy.array") and \
                len(x.args[1]) >= 1:
            x = strip_asarray(strip_copies(x.args[1][0]))
        return x is ids

    def is_iota(x: T) -> bool:
        while is_call_to(x, "builtins.list", "builtins.tuple",
                         "numpy.asarray", "numpy.array") and \
                len(x.args[1]) == 1:
            x = x.args[1][0]
        if not is_call_to(x, "numpy.arange", "builtins.range"):
            return False
        args_ = list(x.args[1])
        if len(args_) == 2 and tm.is_const(args_[0], 0):
            args_ = args_[1:]
        if len(args_) != 1:
            return False
        c = args_[0]
        if c in n_forms:
            return True
        # the count spelled through one of the object's own views
        v = None
        if is_call_to(c, "builtins.len") and c.args[1]:
            v = c.args[1][0]
        elif c.op == "sub" and tm.is_const(c.args[1], 0) and \
                c.args[0].op == "attr" and c.args[0].args[1] == "shape":
            v = c.args[0].args[0]
        return v is not None and v.op == "attr" and v.args[0] is selfp
    if is_call_to(a, "numpy.array_equal") and len(a.args[1]) == 2:
        x, y = a.args[1]
        return (is_ids(x) and is_iota(y)) or (is_ids(y) and is_iota(x))
    if a.op == "cmp" and a.args[0] == "Eq" and \
            is_call_to(a.args[1], "builtins.list", "builtins.tuple") and \
            is_call_to(a.args[2], "builtins.list", "builtins.tuple"):
        x, y = a.args[1], a.args[2]
        return (is_ids(x) and is_iota(y)) or (is_ids(y) and is_iota(x))
    return False


def _writes_M(e: Event, selfp: T) -> bool:
    if e.kind == "setattr":
        return e.data["base"] is selfp and e.data["name"] == M
    if e.kind == "setitem":
        b = e.data["base"]
        return any(x is tm.attr(selfp, M) for x in b.walk())
    if e.kind == "call" and e.data.get("mutates_recv"):
        r = e.data.get("recv")
        return r is not None and any(
            x.op == "attr" and x.args[1] == M for x in r.walk()) or \
            (r is not None and r.op in ("loopvar", "mut", "list"))
    return False


def _propagate(ctx, f, res: Result, selfp: T, tpar: T, mode: str):
    """recognised idiom: relative motions D_i = rel(p_i, p_{i+1}).t are all
    computed from the *original* poses; the new list starts with the original
    first pose and appends new[j].D_i with j = i (accumulating from the
    left)."""
    rels = [e for e in res.of_kind("call")
            if (e.data.get("name") or "").endswith("lie_algebra.relative_se3")]
    m_writes = [e for e in res.events if _writes_M(e, selfp)]
    ctx.require(bool(rels) and bool(m_writes),
                "transform[propagate]: relative_se3 / pose writes not found "
                "(unknown idiom)")
    first_write = min(e.idx for e in m_writes)
    stale_reads = [e for e in rels if e.idx > first_write]
    ok = not stale_reads
    ctx.ob("C08.5", f, ok,
           "transform[propagate]: all relative motions D_i are taken from "
           "the original poses (before any pose is overwritten)" if ok else
           f"transform[propagate]: relative motion computed at "
           f"{stale_reads[0].where} reads poses after they were already "
           f"replaced — drift is not propagated (later poses become p.t)",
           key="C08.5:transform:propagate:rel-from-original")
    # D_i = rel(p_i, p_{i+1}).t over all consecutive positions
    Mattr = tm.attr(selfp, M)
    ok2 = None
    why2 = "relative_se3 operands not recognised as positions of the " \
           "original pose list"
    for e in rels:
        b = e.data.get("bound") or {}
        p1, p2 = b.get("p1"), b.get("p2")
        if p1 is None or p2 is None:
            continue
        s1, s2 = _position(p1, Mattr), _position(p2, Mattr)
        if s1 is None or s2 is None:
            continue
        users = [x for x in res.events if x.kind == "call" and
                 _dot_operands(x.data["result"]) ==
                 (e.data["result"], tpar)]
        if not users:
            # the product written with `@` is no call event: looked up in
            # the values that are stored / appended
            for x in res.events:
                for v_ in list(x.data.get("args") or ()) + [
                        x.data.get("value")]:
                    if isinstance(v_, T) and any(
                            _dot_operands(y) == (e.data["result"], tpar)
                            for y in v_.walk()):
                        users.append(x)
                        break
        (l1, o1, c1), (l2, o2, c2) = s1, s2
        if l1 != l2 or c1 is None or c2 is None:
            continue
        if (o1, o2, min(c1, c2)) == (0, 1, -1) and users:
            ok2 = True
        else:
            ok2 = False
            why2 = (f"relative motion at {e.where} is rel(p[k+{o1}], "
                    f"p[k+{o2}]) for k < n{min(c1, c2):+d}"
                    f"{'' if users else ', not right-multiplied by t'}")
        break
    if ok2 is None:
        ctx.undecidable("C08.5", f, f"transform[propagate]: {why2} "
                        f"(unknown idiom)")
    else:
        ctx.ob("C08.5", f, ok2,
               "transform[propagate]: D_i = relative_se3(p_i, p_{i+1}).dot(t) "
               "over all n-1 consecutive index pairs" if ok2 else
               f"transform[propagate]: {why2}",
           key="C08.5:transform:propagate:rel-shape")
    # first pose kept
    setm = [e for e in res.of_kind("setattr")
            if e.data["base"] is selfp and e.data["name"] == M]
    ok3 = False
    every = []
    # (stores of transform() itself; a lazy getter that materialises the
    # matrices on the way is not the result)
    setm = [e for e in setm if not tm.is_const(e.live, False) and
            (e.depth == 0 or e.func is f)]
    for e in setm:
        ok3 = False
        v = e.data["value"]
        # a list that is grown in a local variable and stored afterwards:
        # what it started as
        for _ in range(6):
            if v.op == "loopout":
                v = v.args[2]
            elif v.op in ("mut", "upd"):
                v = v.args[0]
            else:
                break
        if v.op == "list" and len(v.args) == 1 and v.args[0].op == "sub" \
                and tm.is_const(v.args[0].args[1], 0):
            ok3 = True
        # list(poses[:1]) / poses[:1]: the first pose, or nothing if empty
        w = v.args[1][0] if is_call_to(v, "builtins.list") and \
            len(v.args[1]) == 1 else v
        if w.op == "sub" and w.args[1] is T("slice", tm.NONE, const(1),
                                           tm.NONE):
            ok3 = True
        # itertools.accumulate(..., initial=poses[0]) starts with it too;
        # other library folds are not modelled
        if not ok3:
            acc_ = [x for x in e.data["value"].walk()
                    if is_call_to(x, "itertools.accumulate")]
            if acc_:
                init_ = dict(acc_[0].args[2]).get("initial")
                if init_ is not None and init_.op == "sub" and \
                        tm.is_const(init_.args[1], 0):
                    ok3 = True
                else:
                    ok3 = None
        every.append((ok3, e))
    if any(k is None for k, _ in every):
        ctx.undecidable("C08.5", f, "transform[propagate]: the new pose "
                        "list is built by a library fold whose start value "
                        "is not read")
        every = [(k, e) for k, e in every if k is not None]
    # on *every* path of this mode (also for a single pose, an empty tail)
    ok3 = bool(every) and all(k for k, _ in every)
    if not every:
        ctx.undecidable("C08.5", f, "transform[propagate]: the store of the "
                        "new pose list is not read at the level of "
                        "transform() (written by a helper)")
    else:
        ctx.ob("C08.5", [e for k, e in every if not k][0] if every and not ok3
             else f, ok3,
             "transform[propagate]: the first pose is kept" if ok3 else
             "transform[propagate]: new pose list does not start with the "
             "original first pose on every path of this mode (e.g. a branch "
             "for short trajectories that right-multiplies every pose)",
             key="C08.5:transform:propagate:first")
    # accumulation new[k+1] = new[k] . D_k, k = 0..n-2 in order
    ok4 = None
    why4 = "accumulation new[k+1] = new[k].D_k not recognised"
    for e in res.of_kind("call"):
        if not e.data.get("mutates_recv") or not e.data["name"].endswith(
                "append") or not e.data["args"]:
            continue
        ops = _dot_operands(e.data["args"][0])
        if ops is None:
            continue
        l, r_ = ops
        lo = seq_position(l)
        if lo is not None and (lo[3] is Mattr or
                               lo[3] is tm.attr(selfp, "poses_se3")) and \
                seq_position(r_) is not None:
            # the factor on the left is an *original* pose: nothing is
            # carried over from the poses already propagated
            ok4 = False
            why4 = (f"accumulation at {e.where} multiplies the original "
                    f"pose k (not the already propagated one) with D_k — "
                    f"that is p_k.D_k = p_(k+1).t, the drift is not "
                    f"propagated")
            break
        if l.op != "sub":
            continue
        dr = _dot_operands(r_)
        if dr is not None and dr[1] is tpar and ok2 and \
                any(dr[0] is y.data["result"] for y in rels) and \
                l.args[0].op == "loopvar":
            # one loop over the consecutive pairs (shape decided above):
            # D_k is formed in place and multiplied onto what was appended
            # last
            if tm.is_const(l.args[1], -1):
                ok4 = True
            elif tm.is_const(l.args[1]):
                ok4 = False
                why4 = (f"accumulation at {e.where} always starts from the "
                        f"fixed pose new[{l.args[1].args[1]}]")
            else:
                continue
            break
        rp = seq_position(r_)
        if rp is None or not any(x is y.data["result"] for y in rels
                                 for x in rp[3].walk()):
            continue
        rl, ro, rc, _ = rp
        if tm.is_const(l.args[1], -1):
            lp = (rl, 0, rc)
        elif tm.is_const(l.args[1]):
            ok4 = False
            why4 = (f"accumulation at {e.where} always starts from the fixed "
                    f"pose new[{l.args[1].args[1]}]")
            break
        else:
            q = index_position(l.args[1])
            lp = q
        if lp is None or lp[0] != rl or rc is None:
            continue
        # the list of relative motions has n-1 entries; a direct loop over
        # it (count marker 0 relative to itself) or an index range of n-1
        whole = rc == 0 and rp[3].op in ("comp", "loopout", "list") or \
            rc == -1
        if lp[1] == 0 and ro == 0 and whole:
            ok4 = True
        else:
            ok4 = False
            why4 = (f"accumulation at {e.where} is new[k+{lp[1]}].D[k+{ro}]"
                    f"{'' if whole else ' over a truncated index range'}")
        break
    if ok4 is None:
        ctx.undecidable("C08.5", f, f"transform[propagate]: {why4} "
                        f"(unknown idiom)")
        return
    ctx.ob("C08.5", f, ok4,
           "transform[propagate]: new pose k+1 = new pose k . D_k "
           "(accumulated from the left)" if ok4 else
           f"transform[propagate]: {why4}",
           key="C08.5:transform:propagate:accumulate")


def _position(p: T, Mattr: T):
    """a pose operand as position k+offset of the *original* pose list."""
    q = seq_position(p)
    if q is None or q[3] is not Mattr:
        return None
    return q[0], q[1], q[2]


def _scale(ctx, prog):
    f = prog.func(f"{PATH}.scale")
    ctx.analysed_fn(f.qualname)
    selfp = tm.param(f.params[0])
    s = tm.param(f.params[1])
    trans_blk = T("tuple", T("slice", tm.NONE, const(3), tm.NONE), const(3))
    for st in CACHE_STATES:
        res = run_in_state(prog, f, st, {}, prog.cls(PATH))
        sn = state_name(st)
        valM = res.attrs.get((selfp, M))
        if valM is not None and valM.op != "deleted":
            ok = False
            if valM.op == "comp" and len(valM.args[2]) == 1:
                it, lid = valM.args[2][0]
                el = T("elem", it, lid)
                elt = valM.args[1]
                src_ok = it is tm.attr(selfp, M) or \
                    it is tm.attr(selfp, "poses_se3")
                if is_call_to(elt, "evo.core.lie_algebra.se3") and \
                        len(elt.args[1]) == 2 and src_ok:
                    rot, tr = elt.args[1]
                    rot_ok = _is_block(rot, "rot") and rot.args[0] is el
                    tr_ok = tr.op == "binop" and tr.args[0] == "Mult" and \
                        {tr.args[1], tr.args[2]} == {s, tm.sub(el, trans_blk)}
                    ok = bool(rot_ok and tr_ok)
            ctx.ob("C08.6", f, ok,
                   f"scale[cache={sn}]: matrices keep the rotation block "
                   f"and get translation s * p[:3, 3]" if ok else
                   f"scale[cache={sn}]: matrices are not "
                   f"se3(p[:3,:3], s*p[:3,3]): {fmt(valM)}",
                   key="C08.6:scale:matrices", value=fmt(valM))
        valP = res.attrs.get((selfp, P))
        if valP is not None and valP.op != "deleted":
            own = tm.attr(selfp, P)
            ok = valP.op == "binop" and valP.args[0] == "Mult" \
                and {valP.args[1], valP.args[2]} == {s, own}
            ctx.ob("C08.6", f, ok,
                   f"scale[cache={sn}]: positions := s * positions" if ok
                   else f"scale[cache={sn}]: positions are not multiplied "
                        f"by s: {fmt(valP)}",
                   key="C08.6:scale:positions", value=fmt(valP))
        valQ = res.attrs.get((selfp, Q))
        ok = valQ is None or valQ.op == "deleted"
        ctx.ob("C08.6", f, ok,
               f"scale[cache={sn}]: orientation values are not changed "
               f"(scaling multiplies positions only)" if ok else
               f"scale[cache={sn}]: orientations are re-assigned: "
               f"{fmt(valQ)}", key="C08.6:scale:orientations")


def thorough(ctx):
    """package-wide sweep (evo/ and contrib/): every function *outside* the
    two trajectory classes that stores to, deletes or element-writes one of the
    cached views or `timestamps` of some object — nobody but the classes'
    own mutators may touch the private views; `timestamps` edits are listed"""
    prog = ctx.prog
    res = sweep(prog, "contrib", include_contrib=True)
    listed = []
    for q, r in sorted(res.items()):
        f = r.func
        if f.cls is not None and f.cls.qualname in (PATH, TRAJ):
            continue
        for e in r.events:
            name = None
            if e.kind in ("setattr", "delattr"):
                name = e.data["name"]
            elif e.kind in ("setitem", "augassign"):
                tgt = e.data.get("base") if e.kind == "setitem" else \
                    e.data.get("target")
                cur = tgt
                for _ in range(8):
                    if cur is None or not isinstance(cur, T):
                        break
                    if cur.op == "attr" and cur.args[1] in VIEWS + (
                            "timestamps", "poses_se3", "positions_xyz",
                            "orientations_quat_wxyz"):
                        name = cur.args[1]
                        break
                    if cur.op in ("sub", "elem", "upd", "mut"):
                        cur = cur.args[0]
                    else:
                        break
            if name in VIEWS:
                ctx.ob("C08.1", e, False,
                       f"{q} writes the private cached view {name} of a "
                       f"trajectory from outside the class: the other views "
                       f"are not refreshed", key=f"C08.1:outside-writer:{q}")
            elif name in ("timestamps", "poses_se3", "positions_xyz",
                          "orientations_quat_wxyz"):
                listed.append(f"{e.where} {q}: {e.kind} on .{name}")
    ctx.note("writes to public trajectory data outside the classes "
             "(count-preserving, reviewed): " + "; ".join(listed))


VARIANTS = [
    dict(name="scale-skips-positions", file="evo/core/trajectory.py",
         find="        if hasattr(self, \"_positions_xyz\"):\n"
              "            self._positions_xyz = s * self._positions_xyz\n",
         replace="", expect="fire", rule="C08.1"),
    dict(name="project-keeps-quat-cache", file="evo/core/trajectory.py",
         find="        if hasattr(self, \"_orientations_quat_wxyz\"):\n"
              "            del self._orientations_quat_wxyz\n        self._projected = True",
         replace="        self._projected = True", expect="fire", rule="C08.1"),
    dict(name="subclass-reduce-skips-timestamps",
         file="evo/core/trajectory.py",
         find="        super(PoseTrajectory3D, self).reduce_to_ids(ids)\n"
              "        self.timestamps = self.timestamps[ids]",
         replace="        super(PoseTrajectory3D, self).reduce_to_ids(ids)",
         expect="fire", rule="C08.3"),
    dict(name="right-mul-uses-left-product", file="evo/core/trajectory.py",
         find="            self._poses_se3 = [np.dot(p, t) for p in self.poses_se3]",
         replace="            self._poses_se3 = [np.dot(t, p) for p in self.poses_se3]",
         expect="fire", rule="C08.5"),
    dict(name="reduce-wrong-operand", file="evo/core/trajectory.py",
         find="            self._orientations_quat_wxyz = self._orientations_quat_wxyz[ids]",
         replace="            self._orientations_quat_wxyz = self._orientations_quat_wxyz[:len(ids)]",
         expect="fire", rule="C08.3"),
    dict(name="downsample-direct-slice", file="evo/core/trajectory.py",
         find="        ids = np.linspace(0, self.num_poses - 1, num_poses, dtype=int)\n"
              "        self.reduce_to_ids(ids)",
         replace="        ids = np.linspace(0, self.num_poses - 1, num_poses, dtype=int)\n"
                 "        PosePath3D.reduce_to_ids(self, ids)",
         expect="fire", rule="C08.3"),
    dict(name="scale-rotation-too", file="evo/core/trajectory.py",
         find="                lie.se3(p[:3, :3], s * p[:3, 3]) for p in self._poses_se3",
         replace="                lie.se3(s * p[:3, :3], s * p[:3, 3]) for p in self._poses_se3",
         expect="fire", rule="C08.6"),
    dict(name="hasattr-order-swapped", file="evo/core/trajectory.py",
         find="        if hasattr(self, \"_positions_xyz\"):\n"
              "            self._positions_xyz = self._positions_xyz[ids]\n"
              "        if hasattr(self, \"_orientations_quat_wxyz\"):\n"
              "            self._orientations_quat_wxyz = self._orientations_quat_wxyz[ids]\n",
         replace="        if hasattr(self, \"_orientations_quat_wxyz\"):\n"
                 "            self._orientations_quat_wxyz = self._orientations_quat_wxyz[ids]\n"
                 "        if hasattr(self, \"_positions_xyz\"):\n"
                 "            self._positions_xyz = self._positions_xyz[ids]\n",
         expect="silent"),
    dict(name="transform-dot-method-spelling", file="evo/core/trajectory.py",
         find="            self._poses_se3 = [np.dot(t, p) for p in self.poses_se3]",
         replace="            self._poses_se3 = [t.dot(p) for p in self.poses_se3]",
         expect="silent"),
    dict(name="getter-wrong-block", file="evo/core/trajectory.py",
         find="            self._positions_xyz = np.array([p[:3, 3] for p in self._poses_se3])",
         replace="            self._positions_xyz = np.array([p[3, :3] for p in self._poses_se3])",
         expect="fire", rule="C08.4"),
    dict(name="propagate-rel-same-index", file="evo/core/trajectory.py",
         find="for i, j in zip(ids, ids[1:])",
         replace="for i, j in zip(ids, ids)", expect="fire", rule="C08.5"),
    dict(name="propagate-truncated", file="evo/core/trajectory.py",
         find="for i, j in zip(ids[:-1], ids):",
         replace="for i, j in zip(ids[:-2], ids):", expect="fire",
         rule="C08.5"),
    dict(name="propagate-from-first", file="evo/core/trajectory.py",
         find="self._poses_se3.append(self._poses_se3[j].dot(rel_poses[i]))",
         replace="self._poses_se3.append(self._poses_se3[0].dot(rel_poses[i]))",
         expect="fire", rule="C08.5"),
    dict(name="propagate-last-idiom", file="evo/core/trajectory.py",
         find="            for i, j in zip(ids[:-1], ids):\n"
              "                self._poses_se3.append(self._poses_se3[j].dot(rel_poses[i]))",
         replace="            for rel in rel_poses:\n"
                 "                self._poses_se3.append(self._poses_se3[-1].dot(rel))",
         expect="silent"),
    dict(name="propagate-range-idiom", file="evo/core/trajectory.py",
         find="                lie.relative_se3(self.poses_se3[i], self.poses_se3[j]).dot(t)\n"
              "                for i, j in zip(ids, ids[1:])",
         replace="                lie.relative_se3(self.poses_se3[i], self.poses_se3[i + 1]).dot(t)\n"
                 "                for i in range(self.num_poses - 1)",
         expect="silent"),
    dict(name="propagate-range-short", file="evo/core/trajectory.py",
         find="                lie.relative_se3(self.poses_se3[i], self.poses_se3[j]).dot(t)\n"
              "                for i, j in zip(ids, ids[1:])",
         replace="                lie.relative_se3(self.poses_se3[i], self.poses_se3[i + 1]).dot(t)\n"
                 "                for i in range(self.num_poses - 2)",
         expect="fire", rule="C08.5"),
    dict(name="cached-path-length", file="evo/core/trajectory.py",
         find="        return float(geometry.arc_len(self.positions_xyz))",
         replace="        if not hasattr(self, \"_path_length\"):\n"
                 "            self._path_length = float(geometry.arc_len(self.positions_xyz))\n"
                 "        return self._path_length",
         expect="fire", rule="C08.7"),
]
