"""C11 — sub-sampling, cropping, splitting and merging."""
from __future__ import annotations

from typing import List, Optional, Tuple

from .. import terms as tm
from ..interp import Interp
from ..lib import comparisons, fmt, is_call_to, norm_cmp, norm_loops, \
    per_element
from ..terms import T, const

EXPLANATION = """
C11.1 downsample: early return iff count <= N, refusal of N < 1, index vector
linspace(0, count-1, N) with integer dtype and the end point included, handed
to reduce_to_ids. C11.2 motion filter: the kept list starts as [0], the loop
starts at index 1, both accept tests are inclusive (>=), the distance is the
accumulated-path difference to the last kept pose and the angle the relative
rotation to the last kept pose, and — sibling agreement — *both* accept
branches append the current index and reset *both* reference states to the
current pose; the degrees flag converts the threshold once. C11.3 time crop:
kept iff t >= start and t <= end (two inclusive comparisons in a
conjunction), None bounds default to first/last stamp, start > end raises.
C11.4 splits are partitions by construction: boundaries =
concat([0], where(step > threshold)+1, [count]) (strict: 'exceeding'), parts
are the consecutive boundary pairs, and the same pair slices timestamps and
poses of a part (co-indexing); step definitions per split kind. C11.5 merge is
a co-permutation: one argsort of the concatenated stamps indexes all three
concatenated arrays, each concatenated over the same sequence in the same
order, and the constructor receives them in the right roles.
"""
UNDECIDED = [
    "even spacing of linspace after integer truncation",
    "floating point at exactly-hit thresholds",
    "order of argsort for equal stamps (numpy default is not stable)",
]
TRUSTED = ["numpy.linspace / where / argsort / concatenate semantics"]
ASSUMPTIONS = []
MANIFEST = dict(
    text="Decides the index arithmetic of every selecting operation as a "
         "property of the code: boundary comparisons (inclusive / strict as "
         "specified), defaults, start indices, that both motion-filter "
         "accept branches update the same state (sibling agreement), that "
         "split parts are consecutive boundary slices applied identically "
         "to stamps and poses, and that merge applies one permutation to "
         "all three arrays in their constructor roles — including merge() "
         "and the reference-state resets that no pinned test reaches.",
    note="Floating-point behaviour at exactly-hit thresholds, linspace "
         "rounding and argsort tie order are not decided; numpy is trusted.",
    technique="comparison normalisation + provenance term matching + "
              "sibling-branch differencing on loop-carried state + "
              "co-indexing rule",
)
FLOORS = {"C11.1": 4, "C11.2": 8, "C11.3": 4, "C11.4": 12, "C11.5": 4,
          "C11.6": 4, "C11.7": 1, "C11.8": 6}

PATH = "evo.core.trajectory.PosePath3D"
TRAJ = "evo.core.trajectory.PoseTrajectory3D"
SELF = tm.param("self")


def _conj(f: T):
    if tm.is_const(f, True):
        return []
    return list(f.args) if f.op == "and" else [f]


def _cmp_set(live: T):
    return {(a, r, b) for (a, r, b) in comparisons(live)}


def accumulated_distances_rule(ctx, rule: str):
    """geometry.accumulated_distances(x)[k] = sum_{i<k} |x_i - x_{i+1}|, as
    floats: the travelled path length used by the motion filter, the distance
    splits and the path-length pair selection. Recognised forms: [0] joined
    with the cumulative sum of the consecutive-step norms, or a float array
    of zeros whose tail [1:] receives that cumulative sum. A result array
    typed after the *input* (dtype=x.dtype) truncates the distances of
    integer-valued positions."""
    prog = ctx.prog
    f = prog.func("evo.core.geometry.accumulated_distances")
    ctx.analysed_fn(f.qualname)
    x = tm.param(f.params[0])
    r = Interp(prog).run(f)
    ret = r.ret
    S1 = T("slice", const(1), tm.NONE, tm.NONE)
    SM1 = T("slice", tm.NONE, const(-1), tm.NONE)

    def steps_cumsum(t: T):
        if not is_call_to(t, "numpy.cumsum") or not t.args[1]:
            return None
        from ..lib import step_norms
        return step_norms(t.args[1][0], x)
    verdict = None
    why = fmt(ret)[:140]
    if is_call_to(ret, "numpy.concatenate", "numpy.hstack", "numpy.append",
                  "numpy.r_") and ret.args[1]:
        parts = ret.args[1][0].args if ret.args[1][0].op in (
            "tuple", "list") else tuple(ret.args[1])
        if len(parts) == 2:
            z = parts[0]
            zero = (is_call_to(z, "numpy.array", "numpy.zeros") and z.args[1]
                    and (fmt(z.args[1][0]) in ("[0]", "[0.0]", "1", "(0,)",
                                               "[0.]"))) or \
                fmt(z) in ("[0]", "[0.0]")
            sc = steps_cumsum(parts[1])
            if sc is not None:
                verdict = bool(zero and sc)
    elif ret.op == "upd" and is_call_to(ret.args[0], "numpy.zeros",
                                        "numpy.zeros_like"):
        base, idx, val = ret.args
        dt = dict(base.args[2]).get("dtype")
        sc = steps_cumsum(val)
        if sc is not None and idx is S1:
            float_dt = dt is None and is_call_to(base, "numpy.zeros") or (
                dt is not None and (
                    dt is tm.glob("builtins.float") or
                    (dt.op == "global" and dt.args[0] in (
                        "numpy.float64", "numpy.double", "numpy.float_"))))
            if not float_dt and dt is not None and is_call_to(
                    dt, "numpy.result_type", "numpy.promote_types") and any(
                    z is tm.glob("builtins.float") or (
                        z.op == "global" and z.args[0] in (
                            "numpy.float64", "numpy.double"))
                    for z in dt.args[1]):
                float_dt = True       # at least float64, whatever the input
            if float_dt:
                verdict = bool(sc)
            elif dt is not None and any(y is x for y in dt.walk()) or \
                    is_call_to(base, "numpy.zeros_like"):
                verdict = False
                why = (f"the result array is typed after the input "
                       f"({fmt(dt) if dt is not None else 'zeros_like'}): "
                       f"for integer-valued positions every accumulated "
                       f"distance is truncated to an integer")
    if verdict is None:
        ctx.undecidable(rule, f, f"accumulated_distances: form not "
                        f"recognised: {why}")
        return
    ctx.ob(rule, f, verdict,
           "accumulated_distances: 0 followed by the running sum of the "
           "consecutive step lengths, as floats" if verdict else
           f"accumulated_distances deviates: {why}",
           key=f"{rule}:accumulated-distances")


def check(ctx):
    prog = ctx.prog
    ctx.section(accumulated_distances_rule, ctx, "C11.7")
    ctx.section(_downsample, ctx, prog)
    ctx.section(_motion, ctx, prog)
    ctx.section(_crop, ctx, prog)
    ctx.section(_splits, ctx, prog)
    ctx.section(_merge, ctx, prog)
    # the splits cut where `distances` / `speeds` / timestamps jump: those
    # derived quantities must follow from the current poses, i.e. not be
    # cached across index reductions (instances of C08.7)
    from ..core import import_rules
    # "down-sampling / motion filtering as requested" on the command line:
    # evo_ape / evo_rpe apply them in common_ape_rpe.downsample_or_filter —
    # both trajectories, the given thresholds, each step exactly when its
    # own option asks for it (instances of C01.5, downsample_or_filter)
    n = import_rules(ctx, "c01", ("C01.5",), "C11.8",
                     pred=lambda o: ":dof:" in o.key)
    ctx.require(n >= 6, "C11.8: downsample_or_filter instances not found")
    # ... and evo_traj in its own run(): trajectories and the reference
    n = import_rules(ctx, "c15", ("C15.3",), "C11.8",
                     pred=lambda o: ":motion_filter:" in o.key or
                     ":downsample:" in o.key)
    # (at least one down-sampling and one motion-filter site: a single loop
    # over all trajectories incl. the reference is one site each)
    ctx.require(n >= 3, "C11.8: evo_traj filter wiring instances not found")
    n = import_rules(ctx, "c08", ("C08.7",), "C11.6")
    ctx.require(n >= 4, "C11.6: derived-quantity instances not found")


# ---------------------------------------------------------------- C11.1
def _downsample(ctx, prog):
    f = prog.func(f"{PATH}.downsample")
    ctx.analysed_fn(f.qualname)
    r = Interp(prog).run(f)
    n = tm.param(f.params[1])
    cnt = tm.attr(SELF, "num_poses")
    rets = r.of_kind("return")
    early = [e for e in rets if (cnt, "LtE", n) in _cmp_set(e.live)]
    ok = len(early) == 1 and len(_cmp_set(early[0].live)) == 1
    if not ok:
        # no early return: the reduction nested under the complement. Judged
        # by where the reduction can run: never for count <= N, and for
        # count > N (with N >= 1)
        reds_ = [e for e in r.of_kind("call")
                 if (e.data.get("name") or "").endswith("reduce_to_ids")]

        def world(le: bool):
            def env(a):
                c = norm_cmp(a) if a.op == "cmp" else None
                if c is None:
                    return None
                if c in ((cnt, "LtE", n),):
                    return le
                if c in ((n, "Lt", cnt),):
                    return not le
                if c in ((n, "Lt", const(1)), (n, "LtE", const(0))):
                    return False
                return None
            return env
        if reds_:
            never = all(tm.fold(e.live, world(True)) is False for e in reds_)
            runs = any(tm.fold(e.live, world(False)) is True for e in reds_)
            if never and runs:
                ok = True
            elif not never and all(tm.fold(e.live, world(True)) is True
                                   for e in reds_):
                ok = False
            else:
                ctx.undecidable("C11.1", f, "downsample: the condition "
                                "under which the reduction runs is not a "
                                "comparison of the pose count with N: "
                                f"{fmt(reds_[0].live)[:100]}")
                ok = None
    if ok is not None:
        ctx.ob("C11.1", f, ok,
               "downsample: nothing happens iff count <= N" if ok else
               "downsample: the reduction also runs when count <= N (no "
               "early return / guard)", key="C11.1:early-return")
    raises = [e for e in r.of_kind("raise")
              if (n, "Lt", const(1)) in _cmp_set(e.live) or
              (n, "LtE", const(0)) in _cmp_set(e.live)]
    red = [e for e in r.of_kind("call")
           if (e.data.get("name") or "").endswith("reduce_to_ids")]
    ok = bool(raises) and bool(red) and raises[0].idx < red[0].idx
    ctx.ob("C11.1", f, ok,
           "downsample: N < 1 is refused before anything is reduced" if ok
           else "downsample: N < 1 is not refused", key="C11.1:refuse-n")
    ctx.require(len(red) == 1, "downsample: reduce_to_ids call not found")
    ids = (red[0].data["bound"] or {}).get("ids")
    ok = False
    why = fmt(ids)
    if ids is not None and is_call_to(ids, "numpy.linspace") and \
            len(ids.args[1]) >= 3:
        a0, a1, a2 = ids.args[1][:3]
        kw = dict(ids.args[2])
        ep = kw.get("endpoint", const(True))
        dt = kw.get("dtype")
        ok = tm.is_const(a0, 0) and a1 is T("binop", "Sub", cnt, const(1)) \
            and a2 is n and tm.is_const(ep, True) and dt is not None and \
            (dt is tm.glob("builtins.int") or
             (dt.op == "global" and "int" in dt.args[0]))
    ctx.ob("C11.1", red[0], ok and red[0].data.get("recv") is SELF,
           "downsample: ids = linspace(0, count-1, N, dtype=int), end point "
           "included, applied through self.reduce_to_ids" if ok else
           f"downsample: index vector is {why} — expected "
           f"linspace(0, count-1, N, dtype=int) including the last pose",
           key="C11.1:linspace", ids=why)
    ctx.ob("C11.1", red[0], not red[0].loops and
           tm.fold(red[0].live, lambda t: None) is not False,
           "downsample: the reduction is reachable for count > N >= 1",
           key="C11.1:reachable", nontrivial=False)


# ---------------------------------------------------------------- C11.2
def _ite_chain(t: T) -> List[Tuple[T, T]]:
    out = []
    while t.op == "ite":
        out.append((t.args[0], t.args[1]))
        t = t.args[2]
    out.append((None, t))
    return out


def _motion(ctx, prog):
    """accept-any-of-two-tests, whichever way the branches are written:
    elif chain with continue, two ifs, or one `if a or b`; the last kept pose
    may be remembered as an index, as a distance, or read from the list"""
    f = prog.func("evo.core.filters.filter_by_motion")
    ctx.analysed_fn(f.qualname)
    from ..lib import extra_defaults
    # (parameters added later are analysed at their defaults; what the
    # method passes for them is judged at its call)
    # the unit of the angle threshold is chosen by the fourth parameter: the
    # `degrees` flag, or an enumeration with members radians / degrees
    ctx.require(len(f.params) >= 4, "filter_by_motion signature changed")
    SEL = f.params[3]
    extra = extra_defaults(f, ["poses", "distance_threshold",
                               "angle_threshold", SEL], prog)
    ctx.require(extra is not None, "filter_by_motion signature changed")
    if SEL == "degrees":
        worlds = [(False, const(False)), (True, const(True))]
    else:
        d0 = extra_defaults(f, ["poses", "distance_threshold",
                                "angle_threshold"], prog)
        sel0 = (d0 or {}).get(SEL)
        ctx.require(sel0 is not None and sel0.op == "enum" and
                    {"radians", "degrees"} <= set(
                        prog.enum_members(sel0.args[0]) or ()),
                    "filter_by_motion signature changed (angle unit "
                    "selector not recognised)")
        worlds = [(False, tm.enum(sel0.args[0], "radians")),
                  (True, tm.enum(sel0.args[0], "degrees"))]
    poses = tm.param("poses")
    thr_d = tm.param("distance_threshold")
    thr_a_raw = tm.param("angle_threshold")
    ACCF = "evo.core.geometry.accumulated_distances"
    blk = T("tuple", T("slice", tm.NONE, const(3), tm.NONE),
            T("slice", tm.NONE, const(3), tm.NONE))
    # thresholds >= 0 are in the property's range, 0 included ("keeps a
    # later pose if ... reached the threshold" — every pose for 0): an input
    # guard may refuse negative values only
    r0 = Interp(prog).run(f, dict(extra, **{SEL: worlds[0][1]}))
    for e in r0.of_kind("raise"):
        for a in tm.atoms(e.live):
            n_ = norm_cmp(a)
            if n_ is None:
                continue
            l_, rel, r_ = n_
            for thr in (thr_d, thr_a_raw):
                refuses_zero = (l_ is thr and rel == "LtE" and
                                tm.is_const(r_) and tm.const_val(r_) == 0) or \
                    (r_ is thr and rel == "Lt" and tm.is_const(l_) and
                     tm.const_val(l_) > 0)
                if (l_ is thr or r_ is thr):
                    ctx.ob("C11.2", e, not refuses_zero,
                           f"motion filter: only a negative "
                           f"{thr.args[0]} is refused" if not refuses_zero
                           else f"motion filter: {thr.args[0]} = 0 is "
                                f"refused ({fmt(a)}), although thresholds "
                                f">= 0 incl. 0 are valid",
                           key=f"C11.2:guard:{thr.args[0]}")
    for deg, selv in worlds:
        r = Interp(prog).run(f, dict(extra, **{SEL: selv}))
        ctx.analysed["configs"] += 1
        ret = _prefixed_loopout(r.ret)
        if ret.op != "loopout":
            ctx.undecidable("C11.2", f, f"kept-id list is not built in a "
                            f"loop: {fmt(ret)}")
            continue
        name, lid, init, upd = ret.args
        initu = init
        ok = init.op == "list" and len(init.args) == 1 and (
            tm.is_const(init.args[0], 0))
        ctx.ob("C11.2", f, ok,
               "motion filter: the kept list starts as [0] (first pose "
               "always kept)" if ok else
               f"motion filter: kept list starts as {fmt(init)}",
               key="C11.2:starts-with-first")
        loop_ev = [e for e in r.of_kind("loop") if e.data["lid"] == lid]
        it = loop_ev[0].data["iter"] if loop_ev else None
        canon = _canonical_candidates(it, lid, poses, ACCF)
        if canon is not None:
            # the same iteration space written over the elements
            # (enumerate(zip(poses[1:], distances[1:]), start=1)): expressed
            # through the index 1 .. len-1 like the pinned loop
            it, rw_ = canon
            upd = upd.map(rw_)
            r.env_all = {k: v.map(rw_) for k, v in r.env_all.items()}
            loop_ev[0].live = loop_ev[0].live.map(rw_)
        ok = it is not None and is_call_to(it, "builtins.range") and \
            len(it.args[1]) == 2 and tm.is_const(it.args[1][0], 1) and \
            is_call_to(it.args[1][1], "builtins.len") and \
            it.args[1][1].args[1][0] is poses
        if not ok:
            ctx.undecidable("C11.2", f, f"candidate loop is {fmt(it)}, not "
                            f"range(1, len(poses))")
            continue
        ctx.ob("C11.2", f, True,
               "motion filter: candidates are indices 1 .. len-1 in order",
               key="C11.2:loop-range")
        i = T("elem", it, lid)
        pl0 = set(_conj(loop_ev[0].live)) | {T("iter", lid)}

        def skip_form(ch):
            """`if <both tests fail>: continue` in front of the updates: they
            happen under the negation of the skip test"""
            if len(ch) == 2 and ch[0][0] is not None and \
                    ch[0][1].op == "loopvar" and ch[1][1].op != "loopvar":
                inner = [x for x in _conj(ch[0][0]) if x not in pl0]
                neg = tm.mk_or(*[tm.mk_not(x) for x in inner]) if inner \
                    else tm.FALSE
                return [(neg, ch[1][1]), (None, ch[0][1])]
            return ch
        chain = skip_form(_ite_chain(upd))
        accepts = [(c, v) for c, v in chain if c is not None]
        keep = chain[-1][1]
        shape = bool(accepts) and all(
            v.op == "mut" and v.args[1] == "append" and v.args[2] == (i,)
            and v.args[0].op == "loopvar" for _, v in accepts) and \
            keep.op == "loopvar"
        if not shape:
            ctx.undecidable("C11.2", f, f"kept-list update not recognised: "
                            f"{fmt(upd)}")
            continue
        pl = set(_conj(loop_ev[0].live)) | {T("iter", lid)}
        conds = [tm.mk_and(*[x for x in _conj(c) if x not in pl])
                 for c, _ in accepts]
        D = tm.mk_or(*conds)
        disj = list(D.args) if D.op == "or" else [D]
        tests = [norm_cmp(d) for d in disj]
        if len(disj) != 2 or not all(tests):
            ctx.undecidable("C11.2", f, f"accept condition is not a "
                            f"disjunction of two comparisons: {fmt(D)}")
            continue
        ctx.ob("C11.2", f, True,
               f"[degrees={deg}] a pose is kept iff (distance test) or "
               f"(angle test); it is then appended",
               key="C11.2:accept-branches")
        mention = lambda t_, p_: any(x is p_ for y in (t_[0], t_[2])
                                     for x in y.walk())
        dist_t = [t_ for t_ in tests if mention(t_, thr_d)]
        ang_t = [t_ for t_ in tests if mention(t_, thr_a_raw)]
        states = {}
        for nm, val in r.env_all.items():
            if val.op == "loopout" and val.args[1] == lid and nm != name:
                states[nm] = val

        def last_kept_ref(t_: T):
            """state name / marker if t_ denotes the last kept index"""
            if t_.op == "loopvar" and t_.args[1] == lid:
                return t_.args[0]
            if t_.op == "sub" and tm.is_const(t_.args[1], -1) and \
                    t_.args[0].op == "loopvar" and t_.args[0].args[0] == name:
                return "<last kept id>"
            return None
        used_states = []
        # ---- distance test
        okd, whyd = False, fmt(D)
        evid_d = False       # a recognised form with a wrong piece
        if len(dist_t) == 1:
            a_, rel, b_ = dist_t[0]
            if a_ is thr_d and rel in ("LtE", "Lt") and b_.op == "binop" \
                    and b_.args[0] == "Sub":
                cur, prev = b_.args[1], b_.args[2]
                acc = cur.args[0] if cur.op == "sub" else None
                acc_ok = acc is not None and is_call_to(acc, ACCF) and \
                    cur.args[1] is i
                if acc_ok:
                    pe = per_element(acc.args[1][0])
                    acc_ok = pe is not None and pe[2] is poses and \
                        not pe[3]
                    if not acc_ok:
                        # the stacked poses sliced at once:
                        # np.asarray(poses)[:, :3, 3]
                        a0 = acc.args[1][0]
                        acc_ok = a0.op == "sub" and is_call_to(
                            a0.args[0], "numpy.asarray", "numpy.array") and \
                            a0.args[0].args[1] and \
                            a0.args[0].args[1][0] is poses and \
                            a0.args[1] is T("tuple", T(
                                "slice", tm.NONE, tm.NONE, tm.NONE), T(
                                "slice", tm.NONE, const(3), tm.NONE),
                                const(3))
                prev_ok = False
                if prev.op == "loopvar" and prev.args[1] == lid:
                    prev_ok = True
                    used_states.append((prev.args[0], "distance"))
                elif prev.op == "sub" and prev.args[0] is acc:
                    ref = last_kept_ref(prev.args[1])
                    prev_ok = ref is not None
                    if ref and ref != "<last kept id>":
                        used_states.append((ref, "index"))
                okd = acc_ok and prev_ok and rel == "LtE"
                if acc_ok and prev_ok and rel == "Lt":
                    evid_d = True
                    whyd = "the distance test is strict (>): a pose at " \
                           "exactly the threshold is dropped"
                elif acc_ok and not prev_ok:
                    evid_d = True
                    whyd = (f"the accumulated path is compared relative to "
                            f"{fmt(prev)[:60]}, not to the last kept pose")
        if not okd and not evid_d and len(dist_t) == 1 and \
                not any(is_call_to(x, ACCF, "numpy.cumsum", ".cumsum")
                        for x in dist_t[0][2].walk()) and any(
                    is_call_to(x, "numpy.linalg.norm") and x.args[1] and
                    x.args[1][0].op == "binop" and
                    x.args[1][0].args[0] == "Sub" and
                    all(any(z is poses for z in y.walk())
                        for y in x.args[1][0].args[1:])
                    for x in dist_t[0][2].walk()):
            evid_d = True
            whyd = ("the distance compared with the threshold is the "
                    "straight-line distance between two poses "
                    "(np.linalg.norm of a position difference), not the "
                    "path length accumulated since the last kept pose: on a "
                    "curved or oscillating path poses are dropped that the "
                    "property keeps")
        if not okd and not evid_d:
            ctx.undecidable("C11.2", f, f"[degrees={deg}] distance accept "
                            f"test not recognised: {whyd[:160]}")
        else:
            ctx.ob("C11.2", f, okd,
                   f"[degrees={deg}] distance test: accumulated path since the "
                   f"last kept pose >= distance_threshold (inclusive)" if okd
                   else f"[degrees={deg}] distance accept test deviates: {whyd}",
                   key="C11.2:distance-test")
        # ---- angle test
        oka, whya = False, fmt(D)
        evid_a = False
        if len(ang_t) == 1:
            a_, rel, b_ = ang_t[0]
            if any(is_call_to(x, "numpy.cumsum", ".cumsum")
                   for x in b_.walk()):
                evid_a = True
                whya = ("the angle compared with the threshold is a "
                        "difference of accumulated frame-to-frame angles "
                        "(np.cumsum): by the triangle inequality it exceeds "
                        "the rotation relative to the last kept pose "
                        "whenever the axis or the direction of rotation "
                        "changes, so poses closer than the threshold are "
                        "kept")
            want_thr = tm.call(tm.glob("numpy.deg2rad"), (thr_a_raw,)) \
                if deg else thr_a_raw
            if rel in ("LtE", "Lt") and \
                    is_call_to(b_, "evo.core.lie_algebra.so3_log_angle") \
                    and b_.args[1] and is_call_to(
                        b_.args[1][0], "evo.core.lie_algebra.relative_so3"):
                r1, r2 = b_.args[1][0].args[1]
                roles = r2 is tm.sub(tm.sub(poses, i), blk) and \
                    r1.op == "sub" and r1.args[1] is blk and \
                    r1.args[0].op == "sub" and r1.args[0].args[0] is poses
                ref = last_kept_ref(r1.args[0].args[1]) if roles else None
                if ref and ref != "<last kept id>":
                    used_states.append((ref, "index"))
                if not roles and r2 is tm.sub(tm.sub(poses, i), blk) and \
                        r1.op == "sub" and r1.args[1] is blk and \
                        r1.args[0].op == "loopvar" and \
                        r1.args[0].args[1] == lid and \
                        r1.args[0].args[2] is tm.sub(poses, const(0)):
                    # the last kept *pose* is carried (starts as poses[0])
                    roles, ref = True, r1.args[0].args[0]
                    used_states.append((ref, "pose"))
                oka = roles and ref is not None and a_ is want_thr and \
                    rel == "LtE"
                if roles and ref is not None and a_ is not want_thr:
                    evid_a = True
                    whya = (f"threshold is {fmt(a_)}, expected "
                            f"{fmt(want_thr)}")
                elif roles and ref is not None and rel == "Lt":
                    evid_a = True
                    whya = "the angle test is strict (>): a pose at " \
                           "exactly the threshold is dropped"
                elif not (roles and ref is not None):
                    evid_a = True
                    whya = (f"the relative rotation is taken between "
                            f"{fmt(r1)[:50]} and {fmt(r2)[:50]}, not between "
                            f"the last kept pose and the current one")
        if not oka and not evid_a:
            ctx.undecidable("C11.2", f, f"[degrees={deg}] angle accept test "
                            f"not recognised: {whya[:160]}")
        else:
            ctx.ob("C11.2", f, oka,
                   f"[degrees={deg}] angle test: rotation angle relative to the "
                   f"last kept pose >= angle threshold"
                   f"{' (converted once with deg2rad)' if deg else ''} "
                   f"(inclusive)" if oka else
                   f"[degrees={deg}] angle accept test deviates: {whya}",
                   key="C11.2:angle-test")
        # ---- every accept branch resets every reference state it relies on
        full = [c for c, _ in accepts]
        seen = set()
        for sname, kind in used_states:
            if sname in seen:
                continue
            seen.add(sname)
            st = states.get(sname)
            ok = False
            detail = f"`{sname}` is not updated in the loop"
            if st is not None:
                ch = skip_form(_ite_chain(st.args[3]))
                resets = {c: v for c, v in ch if c is not None}
                missing = [c for c in full if c not in resets]
                vals_ok = all(
                    (v is i) if kind == "index" else
                    (v is tm.sub(poses, i)) if kind == "pose" else
                    (v.op == "sub" and v.args[1] is i and is_call_to(
                        v.args[0], ACCF)) for v in resets.values())
                ok = not missing and vals_ok and ch[-1][1].op == "loopvar"
                if missing:
                    which = "distance-triggered" if any(
                        x is thr_d for x in missing[0].walk()) and not any(
                        x is thr_a_raw for x in _conj(missing[0])[-1].walk()
                    ) else "angle-triggered"
                    detail = (f"the {which} accept branch does not reset "
                              f"the reference `{sname}`")
                elif not vals_ok:
                    detail = f"`{sname}` is reset to " \
                             f"{[fmt(v) for v in resets.values()]}"
            label = "distance" if kind == "distance" else "angle"
            ctx.ob("C11.2", f, ok,
                   f"[degrees={deg}] every accept branch resets the "
                   f"reference `{sname}` to the current pose" if ok else
                   f"[degrees={deg}] sibling disagreement: {detail} — after "
                   f"such an accept the motion is still measured from an "
                   f"older pose", key=f"C11.2:reset:{label}")
        if not used_states:
            ctx.ob("C11.2", f, True,
                   f"[degrees={deg}] the reference is the last kept id "
                   f"itself (always current)", key="C11.2:reset:angle",
                   nontrivial=False)
    # guards
    r = Interp(prog).run(f, dict(extra))
    neg = [e for e in r.of_kind("raise")
           if "FilterException" in (e.data.get("exc_name") or "")]
    ctx.ob("C11.2", f, len(neg) >= 3,
           "motion filter: fewer than two poses and negative thresholds are "
           "refused", key="C11.2:guards", nontrivial=False)
    m = prog.func(f"{PATH}.motion_filter")
    rm = Interp(prog).run(m)
    c = rm.calls("evo.core.filters.filter_by_motion")
    ok = len(c) == 1
    if ok:
        b = c[0].data["bound"]
        ok = b.get("poses") is tm.attr(SELF, "poses_se3") and \
            b.get("distance_threshold") is tm.param("distance_threshold") \
            and b.get("angle_threshold") is tm.param("angle_threshold") and \
            (b.get(SEL) is tm.param(SEL) or (
                SEL not in m.params and _unit_forwarding(
                    prog, m, b.get(SEL), worlds)))
        # an added parameter may only be given what the filter would compute
        # itself: the accumulated distances of the same object
        for k, v in b.items():
            if not ok or k not in extra or v is extra[k]:
                continue
            alts = [a for a in tm.strip_ite(v) if a is not extra[k]]
            own = all(a is tm.attr(SELF, "distances") for a in alts)
            if k == "distances" and own:
                continue
            # the method's own like-added parameter with the same default
            if v.op == "param" and v.args[0] in m.params[4:] + list(
                    m.kwonly):
                md = extra_defaults(m, m.params[:4], prog) or {}
                if md.get(v.args[0]) is extra[k]:
                    continue
            ctx.undecidable("C11.2", c[0],
                            f"motion_filter passes {k}={fmt(v)[:80]} to the "
                            f"added parameter of filter_by_motion")
    ctx.ob("C11.2", m, ok,
           "PosePath3D.motion_filter passes its own poses and the "
           "like-named thresholds", key="C11.2:method-wiring")


def _unit_forwarding(prog, m, got, worlds) -> bool:
    """the method selects the unit differently from the filter (a `degrees`
    flag in front of a unit enumeration or the other way round): what it
    passes on must be the filter's degrees world exactly when its own
    selector says degrees"""
    if got is None or len(m.params) < 4:
        return False
    msel = m.params[3]
    if msel == "degrees":
        mine = [(False, const(False)), (True, const(True))]
    else:
        from ..lib import extra_defaults
        d0 = extra_defaults(m, m.params[:3], prog)
        s0 = (d0 or {}).get(msel)
        if s0 is None or s0.op != "enum":
            return False
        mine = [(False, tm.enum(s0.args[0], "radians")),
                (True, tm.enum(s0.args[0], "degrees"))]
    for (deg, mv), (_, fv) in zip(mine, worlds):
        rm_ = Interp(prog).run(m, {msel: mv})
        c = rm_.calls("evo.core.filters.filter_by_motion")
        if len(c) != 1:
            return False
        v = (c[0].data["bound"] or {}).get(
            prog.func("evo.core.filters.filter_by_motion").params[3])
        if v is not fv:
            return False
    return True


def _prefixed_loopout(ret: T) -> T:
    """`[0] + list(<list grown from [] by appends in a loop>)` is the list
    grown from [0] by the same appends — as long as the loop never reads the
    list it grows (no kept[-1])"""
    u = Interp.unname(ret)
    if not (u.op == "binop" and u.args[0] == "Add"):
        return ret
    head, tail = Interp.unname(u.args[1]), Interp.unname(u.args[2])
    if is_call_to(tail, "builtins.list") and len(tail.args[1]) == 1 and \
            not tail.args[2]:
        tail = Interp.unname(tail.args[1][0])
    if head.op != "list" or tail.op != "loopout":
        return ret
    name, lid, init, upd = tail.args
    if not (init.op == "list" and not init.args):
        return ret
    lv = [x for x in upd.walk() if x.op == "loopvar" and x.args[0] == name]
    reads = [x for x in upd.walk() if x.op in ("sub", "attr", "call") and
             x.op != "mut" and any(
                 (a is v) for v in lv for a in (
                     x.args[:1] if x.op in ("sub", "attr") else
                     tuple(x.args[1]) + tuple(w for _, w in x.args[2])))]
    if reads:
        return ret
    return T("loopout", name, lid, head, upd)


def _canonical_candidates(it: Optional[T], lid: int, poses: T, accf: str):
    """(range(1, len(poses)), rewrite) if the loop enumerates the poses 1 ..
    len-1 through their elements: [enumerate(]zip(poses[1:], X[1:], ...)[,
    start=1)] with every X as long as `poses` (the accumulated distances of
    all positions); the rewrite expresses index and elements through the
    canonical index variable"""
    if it is None:
        return None
    S1 = T("slice", const(1), tm.NONE, tm.NONE)
    inner, idx_term = it, None
    if is_call_to(it, "builtins.enumerate") and it.args[1]:
        start = it.args[1][1] if len(it.args[1]) > 1 else dict(
            it.args[2]).get("start")
        if start is None or not tm.is_const(start, 1):
            return None
        inner = it.args[1][0]
        idx_term = T("binop", "Add", T("index", lid), start)
    comps = list(inner.args[1]) if is_call_to(inner, "builtins.zip") \
        else [inner]
    bases = []
    for c in comps:
        if not (c.op == "sub" and c.args[1] is S1):
            return None
        b = c.args[0]
        full = b is poses or (is_call_to(b, accf) and b.args[1] and (
            lambda pe: pe is not None and pe[2] is poses and not pe[3])(
            per_element(b.args[1][0])))
        if not full:
            return None
        bases.append((c, b))
    if not any(b is poses for _, b in bases):
        return None
    rng = tm.call(tm.glob("builtins.range"), (const(1), tm.call(
        tm.glob("builtins.len"), (poses,), ())), ())
    I = T("elem", rng, lid)

    def rw(x: T):
        if idx_term is not None and x is idx_term:
            return I
        for c, b in bases:
            if x is T("elem", c, lid):
                return tm.sub(b, I)
        return None
    return rng, rw


# ---------------------------------------------------------------- C11.3
def _sorted_search_crop(ids: T, ts: T):
    """(start, end, ok, why) if ids = arange(FIRST, LAST + 1) with FIRST /
    LAST found by np.searchsorted in the (ascending) timestamps; inclusive
    on both ends iff FIRST = searchsorted(ts, start, 'left') and
    LAST + 1 = searchsorted(ts, end, 'right')"""
    from ..lib import linear
    if ids is None or not is_call_to(ids, "numpy.arange", "builtins.range"):
        return None
    a = [x for x in ids.args[1]]
    if len(a) != 2:
        return None

    def strip(t: T) -> T:
        # int(..) wrappers, and min(x, num_poses - 1) around an index that a
        # sorted search cannot push beyond the end
        def rw(z: T):
            if is_call_to(z, "builtins.int") and len(z.args[1]) == 1:
                return z.args[1][0]
            if is_call_to(z, "builtins.min", "numpy.minimum") and \
                    len(z.args[1]) == 2:
                keep = [q for q in z.args[1]
                        if any(is_call_to(w, "numpy.searchsorted",
                                          ".searchsorted")
                               for w in q.walk())]
                if len(keep) == 1:
                    return keep[0]
            return None
        return t.map(rw)
    la, lb = linear(strip(a[0])), linear(strip(a[1]))
    if la is None or lb is None:
        return None

    def single(lf):
        ks = [k for k in lf if k != 1]
        if len(ks) == 1 and lf[ks[0]] == 1 and is_call_to(
                ks[0], "numpy.searchsorted", ".searchsorted"):
            return ks[0], lf.get(1, 0)
        return None
    sa_, sb_ = single(la), single(lb)
    if sa_ is None or sb_ is None:
        return None

    def parts(c: T):
        args = list(c.args[1])
        if tm.callee_name(c) == ".searchsorted":
            args = [tm.method_recv(c)] + args
        kw = dict(c.args[2])
        side = kw.get("side", args[2] if len(args) > 2 else None)
        side = tm.const_val(side) if side is not None and \
            tm.is_const(side) else ("left" if side is None else "?")
        return args[0], args[1], side
    (ta, va, sa2), (tb, vb, sb2) = parts(sa_[0]), parts(sb_[0])
    if ta is not ts or tb is not ts:
        return None
    ok = sa2 == "left" and sa_[1] == 0 and sb2 == "right" and sb_[1] == 0
    why = (f"first index = searchsorted(t, start, {sa2!r}){sa_[1]:+d}, "
           f"end of range = searchsorted(t, end, {sb2!r}){sb_[1]:+d} "
           f"(inclusive needs 'left'+0 and 'right'+0)")
    return va, vb, ok, why


def _crop(ctx, prog):
    f = prog.func(f"{TRAJ}.reduce_to_time_range")
    ctx.analysed_fn(f.qualname)
    r = Interp(prog).run(f)
    ts = tm.attr(SELF, "timestamps")
    sp, ep = tm.param("start_timestamp"), tm.param("end_timestamp")
    start = tm.ite(T("cmp", "Is", sp, tm.NONE), tm.sub(ts, const(0)), sp)
    end = tm.ite(T("cmp", "Is", ep, tm.NONE), tm.sub(ts, const(-1)), ep)
    red = [e for e in r.of_kind("call", all_depths=True)
           if (e.data.get("name") or "").endswith("reduce_to_ids")]

    def empty_sel(e):
        v = (e.data["bound"] or {}).get("ids")
        return v is not None and is_call_to(v, "numpy.array", "numpy.empty",
                                            "numpy.zeros") and v.args[1] and (
            (v.args[1][0].op == "list" and not v.args[1][0].args) or
            tm.is_const(v.args[1][0], 0))
    red = [e for e in red if not empty_sel(e)] or red
    # (a nested reduce_to_ids of a delegating helper is the same reduction)
    if len(red) > 1:
        red = [e for e in red if e.depth == max(x.depth for x in red)]
    ctx.require(len(red) == 1, "reduce_to_time_range: reduce_to_ids call "
                "not found")
    ids = (red[0].data["bound"] or {}).get("ids")
    ok, lo, hi = False, None, None
    # a binary-search fast path next to the mask (ascending stamps, the mask
    # kept as fall-back), bounds defaulting inside the index expressions:
    # judged per world of (start given?, end given?)
    if ids is not None and any(
            is_call_to(x, "numpy.searchsorted", ".searchsorted")
            for x in ids.walk()) and any(x.op == "ite" for x in ids.walk()):
        import itertools as _it
        n_s, n_e = T("cmp", "Is", sp, tm.NONE), T("cmp", "Is", ep, tm.NONE)
        nn_s, nn_e = T("cmp", "IsNot", sp, tm.NONE), \
            T("cmp", "IsNot", ep, tm.NONE)
        verdicts, rest = [], []
        for ws, we in _it.product((True, False), repeat=2):
            def world(a, ws=ws, we=we):
                if a is n_s:
                    return ws
                if a is nn_s:
                    return not ws
                if a is n_e:
                    return we
                if a is nn_e:
                    return not we
                return None
            idw = tm.deep_select(ids, world)
            for alt in tm.strip_ite(idw):
                if not is_call_to(alt, "numpy.arange", "builtins.range") or \
                        len(alt.args[1]) != 2:
                    continue
                lo_, hi_ = alt.args[1]
                full = (tm.attr(ts, "size"), tm.attr(SELF, "num_poses"),
                        tm.call(tm.glob("builtins.len"), (ts,), ()),
                        tm.sub(tm.attr(ts, "shape"), const(0)))
                if ws and tm.is_const(lo_, 0):
                    lo_ = tm.call(tm.glob("numpy.searchsorted"),
                                  (ts, tm.sub(ts, const(0))),
                                  (("side", const("left")),))
                if we and any(hi_ is f_ for f_ in full):
                    hi_ = tm.call(tm.glob("numpy.searchsorted"),
                                  (ts, tm.sub(ts, const(-1))),
                                  (("side", const("right")),))
                ss_ = _sorted_search_crop(
                    tm.call(alt.args[0], (lo_, hi_), ()), ts)
                if ss_ is None:
                    verdicts.append((None, f"range {fmt(alt)[:80]}"))
                    continue
                l_, h_, ok_, why_ = ss_
                want_l = tm.sub(ts, const(0)) if ws else sp
                want_h = tm.sub(ts, const(-1)) if we else ep
                l_ = tm.deep_select(l_, world)
                h_ = tm.deep_select(h_, world)
                if not ok_:
                    verdicts.append((False, why_))
                elif l_ is not want_l or h_ is not want_h:
                    verdicts.append((False, f"bounds searched are "
                                            f"{fmt(l_)} / {fmt(h_)}"))
                else:
                    verdicts.append((True, ""))
        bad_ = [w_ for v_, w_ in verdicts if v_ is False]
        unk_ = [w_ for v_, w_ in verdicts if v_ is None]
        if bad_:
            ctx.ob("C11.3", red[0], False,
                   f"time crop by sorted search is not inclusive on both "
                   f"ends: {bad_[0]}", key="C11.3:mask", ids=fmt(ids))
        elif unk_:
            ctx.undecidable("C11.3", red[0], f"time crop fast path: {unk_[0]}")
        elif verdicts:
            ctx.ob("C11.3", red[0], True,
                   "time crop fast path keeps exactly start <= t <= end: "
                   "index range [searchsorted(t, start), searchsorted(t, "
                   "end, 'right')) of the ascending timestamps, in every "
                   "world of given / defaulted bounds", key="C11.3:fast-path")
        rest = [a_ for a_ in tm.strip_ite(ids) if not (
            is_call_to(a_, "numpy.arange", "builtins.range") and
            len(a_.args[1]) == 2)]
        if len(rest) == 1:
            ids = rest[0]            # the fall-back is judged below
        elif not rest and verdicts and not unk_:
            ctx.ob("C11.3", red[0], not bad_,
                   "time crop: None bounds default to the first / last "
                   "timestamp (judged per world)", key="C11.3:defaults")
            raises = [e for e in r.of_kind("raise")
                      if (end, "Lt", start) in _cmp_set(e.live)]
            okr = bool(raises) and raises[0].idx < red[0].idx
            ctx.ob("C11.3", f, okr,
                   "time crop: start > end raises before the reduction"
                   if okr else "time crop: start > end is not refused",
                   key="C11.3:refuse")
            ctx.ob("C11.3", red[0], True, "time crop goes through "
                   "reduce_to_ids", key="C11.3:via-reduce", nontrivial=False)
            return
    ss = _sorted_search_crop(ids, ts)
    if ss is not None:
        lo, hi, oks, why = ss
        ctx.ob("C11.3", red[0], oks,
               "time crop keeps exactly start <= t <= end: index range "
               "[searchsorted(t, start), searchsorted(t, end, 'right')) of "
               "the ascending timestamps" if oks else
               f"time crop by sorted search is not inclusive on both ends: "
               f"{why}", key="C11.3:mask", ids=fmt(ids))
        ok2 = lo is start and hi is end
        ctx.ob("C11.3", red[0], ok2,
               "time crop: None bounds default to the first / last timestamp"
               if ok2 else
               f"time crop bounds are {fmt(lo)} / {fmt(hi)}",
               key="C11.3:defaults")
        raises = [e for e in r.of_kind("raise")
                  if (end, "Lt", start) in _cmp_set(e.live)]
        ok = bool(raises) and raises[0].idx < red[0].idx
        ctx.ob("C11.3", f, ok,
               "time crop: start > end raises before the reduction" if ok
               else "time crop: start > end is not refused",
               key="C11.3:refuse")
        ctx.ob("C11.3", red[0], True, "time crop goes through "
               "reduce_to_ids", key="C11.3:via-reduce", nontrivial=False)
        return
    if ids is not None and is_call_to(ids, "numpy.flatnonzero") and \
            len(ids.args[1]) == 1:
        # np.flatnonzero(m) is np.where(m)[0]
        ids = tm.sub(tm.call(tm.glob("numpy.where"), (ids.args[1][0],), ()),
                     const(0))
    if ids is not None and ids.op == "sub" and tm.is_const(ids.args[1], 0) \
            and is_call_to(ids.args[0], "numpy.where", "numpy.nonzero") and \
            len(ids.args[0].args[1]) == 1:
        m = ids.args[0].args[1][0]
        parts = None
        if is_call_to(m, "numpy.logical_and") and len(m.args[1]) == 2:
            parts = m.args[1]
        elif m.op == "binop" and m.args[0] == "BitAnd":
            parts = (m.args[1], m.args[2])
        widened = []
        if parts:
            ns = []
            for p in parts:
                # a bound test OR-ed with something else admits poses the
                # bound excludes
                alts = [p]
                if p.op == "binop" and p.args[0] == "BitOr":
                    alts = [p.args[1], p.args[2]]
                elif is_call_to(p, "numpy.logical_or") and \
                        len(p.args[1]) == 2:
                    alts = list(p.args[1])
                cm = [norm_cmp(a) for a in alts]
                widened += [a for a, c in zip(alts, cm) if c is None and
                            len(alts) > 1]
                cm = [c for c in cm if c]
                ns.append(cm[0] if len(cm) == 1 else None)
            if all(ns):
                for (a, rel, b) in ns:
                    if b is ts and rel == "LtE":
                        lo = a
                    if a is ts and rel == "LtE":
                        hi = b
                ok = lo is not None and hi is not None and not widened
    else:
        widened = []
    ctx.ob("C11.3", red[0], ok,
           "time crop keeps exactly start <= t <= end (both inclusive, "
           "conjunction)" if ok else
           (f"time crop keeps poses outside [start, end]: the bound tests "
            f"are widened by {fmt(widened[0])[:90]} — the property keeps "
            f"exactly the poses with start <= t <= end" if widened else
            f"time crop mask is {fmt(ids)} — expected "
            f"(t >= start) & (t <= end), both inclusive"),
           key="C11.3:mask", ids=fmt(ids))
    ok2 = lo is start and hi is end
    ctx.ob("C11.3", red[0], ok2,
           "time crop: None bounds default to the first / last timestamp"
           if ok2 else
           f"time crop bounds are {fmt(lo)} / {fmt(hi)}",
           key="C11.3:defaults")
    raises = [e for e in r.of_kind("raise")
              if (end, "Lt", start) in _cmp_set(e.live)]
    ok = bool(raises) and raises[0].idx < red[0].idx
    if not ok:
        # the guard turned round (reduce under start <= end, raise in the
        # else branch): judged in the world start > end — the reduction is
        # unreachable there and some raise is taken
        def inverted(a):
            c = norm_cmp(a) if a.op == "cmp" else None
            if c in ((end, "Lt", start),):
                return True
            if c in ((start, "LtE", end), (start, "Lt", end)):
                return False
            return None
        ok = all(tm.fold(e.live, inverted) is False for e in red) and any(
            tm.fold(e.live, inverted) is not False
            for e in r.of_kind("raise")
            if any(inverted(a) is not None for a in tm.atoms(e.live)))
    ctx.ob("C11.3", f, ok,
           "time crop: start > end raises before the reduction" if ok else
           "time crop: start > end is not refused", key="C11.3:refuse")
    ctx.ob("C11.3", red[0], red[0].data.get("recv") is SELF,
           "time crop goes through self.reduce_to_ids",
           key="C11.3:via-reduce", nontrivial=False)


# ---------------------------------------------------------------- C11.4
def _step_defs(kind: str):
    """accepted spellings of the step sequence"""
    s1 = T("slice", const(1), tm.NONE, tm.NONE)
    s0 = T("slice", tm.NONE, const(-1), tm.NONE)
    if kind == "time":
        a = tm.attr(SELF, "timestamps")
    elif kind == "distance":
        a = tm.attr(SELF, "distances")
    else:
        return (tm.attr(SELF, "speeds"),)
    return (T("binop", "Sub", tm.sub(a, s1), tm.sub(a, s0)),
            tm.call(tm.glob("numpy.diff"), (a,), ()))


def _step_def(kind: str) -> T:
    return _step_defs(kind)[0]


def _boundaries_ok(b: T, kind: str, thr: T) -> Tuple[bool, str]:
    """b = concatenate([[0], where(step > thr)[0] + 1, [num_poses]])"""
    from ..lib import strip_asarray
    # (indices stay the same indices through .astype(int) / np.asarray)
    b = b.map(lambda x: tm.method_recv(x) if (
        is_call_to(x, ".astype") and len(x.args[1]) == 1 and
        x.args[1][0] is tm.glob("builtins.int")) else None)
    alts = tm.strip_ite(b)
    main = [a for a in alts if is_call_to(a, "numpy.concatenate")]
    if not main:
        core = b
        if core.op == "binop" and core.args[0] == "Add" and \
                tm.is_const(core.args[2]):
            core = core.args[1]
        if core.op == "sub" and tm.is_const(core.args[1], 0) and \
                is_call_to(core.args[0], "numpy.where", "numpy.nonzero",
                           "numpy.flatnonzero"):
            return False, (f"the part boundaries are the positions of the "
                           f"long steps only ({fmt(b)[:70]}): 0 and the "
                           f"number of poses are missing, so the stretch "
                           f"before the first and after the last cut is "
                           f"dropped (no cut at all gives no part)")
        return None, f"boundaries are {fmt(b)}"
    c = main[0]
    parts = c.args[1][0] if c.args[1] else None
    if parts is None or parts.op not in ("list", "tuple") or \
            len(parts.args) != 3:
        return None, f"boundary vector is {fmt(c)}"
    first, mid, last = parts.args
    cnt = tm.attr(SELF, "num_poses")
    if first is not T("list", const(0)) or last is not T("list", cnt):
        return False, f"boundary vector does not start at 0 / end at the " \
                      f"pose count: {fmt(c)}"
    if not (mid.op == "binop" and mid.args[0] == "Add" and
            tm.is_const(mid.args[2], 1)):
        return False, f"cut positions are {fmt(mid)} (expected index + 1)"
    w = mid.args[1]
    if w.op == "sub" and tm.is_const(w.args[1], 0):
        w = w.args[0]
    if not (is_call_to(w, "numpy.where", "numpy.flatnonzero",
                       "numpy.nonzero") and len(w.args[1]) == 1):
        return None, f"cuts are not where(step > threshold): {fmt(w)}"
    n = norm_cmp(w.args[1][0])
    steps = _step_defs(kind)
    if n is None:
        return None, f"cut condition {fmt(w.args[1][0])}"
    a, rel, bb = n
    step = bb if bb in steps else steps[0]
    if not (a is thr and rel == "Lt" and bb in steps):
        if a is thr and rel == "LtE" and bb in steps:
            return False, "cut condition is `step >= threshold`; the " \
                          "property cuts only at steps *exceeding* the " \
                          "threshold"
        return False, f"cut condition is {fmt(w.args[1][0])}, expected " \
                      f"{fmt(step)} > threshold"
    # the degenerate alternative (no cut): [0, count]
    for a_ in alts:
        if a_ is c:
            continue
        if not (is_call_to(a_, "numpy.array") and a_.args[1] and
                a_.args[1][0] is T("list", const(0), cnt)):
            return None, f"alternative boundary vector {fmt(a_)}"
    # the no-cut alternative may only be chosen when there is *no* cut index
    if b.op == "ite":
        cond = b.args[0]
        cuts = mid.args[1]
        empties = (T("cmp", "Eq", tm.call(tm.glob("builtins.len"), (cuts,),
                                          ()), const(0)),
                   T("cmp", "Eq", tm.attr(cuts, "size"), const(0)),
                   T("not", tm.call(tm.glob("builtins.len"), (cuts,), ())))
        w_ = cuts.args[0] if cuts.op == "sub" else cuts
        empties += (T("cmp", "Eq", tm.call(tm.glob("builtins.len"),
                                           (tm.sub(w_, const(0)),), ()),
                      const(0)),)
        lits = [x for x in (list(cond.args) if cond.op == "and" else [cond])
                if any(y is cuts or y is w_ for y in x.walk())]
        if lits and not all(x in empties for x in lits):
            truthy = [x for x in lits if any(
                is_call_to(y, ".any", ".all", "numpy.any", "numpy.all")
                for y in x.walk()) or x is cuts or
                (x.op == "not" and x.args[0] is cuts)]
            if truthy:
                return False, (f"the 'no cut' case is selected by "
                               f"{fmt(truthy[0])}: a truth test on cut "
                               f"*indices* is false for the index 0 as "
                               f"well, so a gap at the very first step is "
                               f"lost")
            return None, f"'no cut' condition {fmt(cond)}"
    return True, "concat([0], where(step > thr)+1, [count])"


def _sliced(t: T, sl: T) -> Optional[T]:
    """the sequence b with t == b[sl], also where the subscript was
    distributed over the alternatives of a conditional value"""
    if t.op == "sub" and t.args[1] is sl:
        return t.args[0]
    if t.op == "ite":
        a, b = _sliced(t.args[1], sl), _sliced(t.args[2], sl)
        if a is not None and b is not None:
            return tm.ite(t.args[0], a, b)
    return None


def _splits(ctx, prog):
    specs = [(f"{PATH}.split_distance_gaps", "distance", False),
             (f"{TRAJ}.split_time_gaps", "time", True),
             (f"{TRAJ}.split_distance_gaps", "distance", True),
             (f"{TRAJ}.split_speed_outliers", "speed", True)]
    for q, kind, stamped in specs:
        # what the class executes under that name (its own definition or an
        # inherited one), with the receiver of that class
        f, recv_cls = prog.method(q)
        ctx.analysed_fn(f.qualname)
        it = Interp(prog, inline=lambda fn: fn.name == "_jumps",
                    max_depth=3)
        r = it.run(f, self_cls=recv_cls)
        thr = tm.param(f.params[1])
        parts = [v for v, _ in r.returns if v.op == "comp"]
        ctx.require(len(parts) == 1, f"{q}: parts comprehension not found "
                    f"(unknown idiom)")
        comp = parts[0]
        elt, (itr, lid) = comp.args[1], comp.args[2][0]
        b = lo = hi = None
        S1 = T("slice", const(1), tm.NONE, tm.NONE)
        if is_call_to(itr, "builtins.range") and len(itr.args[1]) == 1 \
                and itr.args[1][0].op == "binop" and \
                itr.args[1][0].args[0] == "Sub" and \
                tm.is_const(itr.args[1][0].args[2], 1) and \
                is_call_to(itr.args[1][0].args[1], "builtins.len") and \
                not comp.args[3]:
            # for i in range(len(b) - 1): ... [b[i]:b[i+1]]
            b = itr.args[1][0].args[1].args[1][0]
            i = T("elem", itr, lid)
            sb = Interp(prog).subscript
            lo, hi = sb(b, i), sb(b, T("binop", "Add", i, const(1)))
        elif is_call_to(itr, "builtins.zip") and len(itr.args[1]) == 2 \
                and _sliced(itr.args[1][0], T("slice", tm.NONE, const(-1),
                                              tm.NONE)) is not None and \
                _sliced(itr.args[1][0], T("slice", tm.NONE, const(-1),
                                          tm.NONE)) is \
                _sliced(itr.args[1][1], S1) and not comp.args[3]:
            # for start, end in zip(b[:-1], b[1:]): ... [start:end]
            b = _sliced(itr.args[1][1], S1)
            lo = T("elem", itr.args[1][0], lid)
            hi = T("elem", itr.args[1][1], lid)
        elif is_call_to(itr, "builtins.zip") and len(itr.args[1]) == 2 \
                and itr.args[1][1] is Interp(prog).subscript(
                    itr.args[1][0], S1) and not comp.args[3]:
            # for start, end in zip(b, b[1:]): ... [start:end]
            b = itr.args[1][0]
            lo = T("elem", b, lid)
            hi = T("elem", itr.args[1][1], lid)
        if b is None:
            ctx.undecidable("C11.4", f, f"{f.name}: iteration over the "
                            f"boundary pairs not recognised: {fmt(itr)} "
                            f"{fmt(comp.args[3])}")
            continue
        ctx.ob("C11.4", f, True,
               f"{f.name}: one part per consecutive boundary pair, none "
               f"skipped", key=f"C11.4:{q}:pairs")
        okb, why = _boundaries_ok(b, kind, thr)
        if okb is None:
            ctx.undecidable("C11.4", f, f"{f.name}: {why}")
            continue
        ctx.ob("C11.4", f, okb,
               f"{f.name}: boundaries = {why}" if okb else
               f"{f.name}: {why}", key=f"C11.4:{q}:boundaries")
        want_slice = T("slice", lo, hi, tm.NONE)
        kw = dict(elt.args[2]) if elt.op == "call" else {}
        if elt.op == "call" and elt.args[1]:
            ctx.undecidable("C11.4", f, f"{f.name}: part constructor uses "
                            f"positional arguments: {fmt(elt)}")
            continue
        need = {"poses_se3": tm.attr(SELF, "poses_se3")}
        if stamped:
            need["timestamps"] = tm.attr(SELF, "timestamps")
        ok = set(kw) == set(need) and all(
            kw[k] is tm.sub(src, want_slice) for k, src in need.items())
        ctx.ob("C11.4", f, ok,
               f"{f.name}: every part takes "
               f"{' and '.join(need)} sliced by the same boundary pair "
               f"[b_i : b_i+1]" if ok else
               f"{f.name}: part data are "
               f"{ {k: fmt(v) for k, v in kw.items()} } — pose and "
               f"timestamp of a pose are not kept together / parts are not "
               f"the consecutive boundary slices",
               key=f"C11.4:{q}:co-sliced")
        cls_ok = elt.op == "call" and tm.callee_name(elt) == \
            (TRAJ if stamped else PATH)
        ctx.ob("C11.4", f, cls_ok,
               f"{f.name}: parts are {'PoseTrajectory3D' if stamped else 'PosePath3D'} objects",
               key=f"C11.4:{q}:class", nontrivial=False)


# ---------------------------------------------------------------- C11.5
def _merge(ctx, prog):
    f = prog.func("evo.core.trajectory.merge")
    ctx.analysed_fn(f.qualname)
    from ..lib import extra_defaults
    extra = extra_defaults(f, f.params[:1])
    ctx.require(extra is not None, "merge: signature changed")
    r = Interp(prog).run(f, dict(extra))      # added options at defaults
    ret = r.ret
    ctx.require(ret.op == "call" and tm.callee_name(ret) == TRAJ,
                f"merge: does not return a PoseTrajectory3D(...) "
                f"(unknown idiom): {fmt(ret)}")
    init = prog.func(f"{TRAJ}.__init__")
    b = Interp(prog).bind(init, list(ret.args[1]), list(ret.args[2]),
                          tm.param("<obj>"), False)
    trajs = tm.param(f.params[0])
    roles = {"positions_xyz": "positions_xyz",
             "orientations_quat_wxyz": "orientations_quat_wxyz",
             "timestamps": "timestamps"}
    orders = set()
    all_ok = True
    for pname, attr in roles.items():
        v = b.get(pname)
        ok = False
        why = fmt(v)
        order = None
        if v is not None and pname == "timestamps" and \
                is_call_to(v, "numpy.take") and len(v.args[1]) == 2 and \
                not v.args[2]:
            # np.take(t, perm) of the 1-D stamp vector is t[perm]
            v = tm.sub(v.args[1][0], v.args[1][1])
        if v is not None and v.op == "sub":
            base, order = v.args
            if is_call_to(base, "numpy.concatenate") and base.args[1]:
                pe = per_element(base.args[1][0])
                if pe is not None:
                    elt, lid, it_, conds = pe
                    # (list(trajectories) / tuple(..) hold the same
                    # trajectories in the same order)
                    seq = it_.args[1][0] if is_call_to(
                        it_, "builtins.list", "builtins.tuple") and \
                        len(it_.args[1]) == 1 else it_
                    ok = not conds and seq is trajs and elt in (
                        tm.attr(T("elem", it_, lid), attr),
                        tm.attr(T("elem", seq, lid), attr))
                    if not ok:
                        why = f"concatenation of {fmt(elt)} over {fmt(it_)}"
        elif v is not None:
            why = f"{fmt(v)} (not permuted)"
        if order is not None:
            orders.add(norm_loops(order))
        all_ok = all_ok and ok
        ctx.ob("C11.5", f, ok,
               f"merge: {pname} <- concatenation of every trajectory's "
               f"{attr}, permuted" if ok else
               f"merge: constructor argument {pname} is {why} — every pose "
               f"must keep its own {attr}",
               key=f"C11.5:role:{pname}", value=fmt(v))
    # a further per-pose array handed to the constructor (the SE(3) matrices
    # kept from the inputs ...) must be permuted like the others
    pv = b.get("poses_se3")
    if pv is not None and pv is not tm.NONE:
        alts = [a for a in tm.strip_ite(pv) if a is not tm.NONE]
        unperm = [a for a in alts if not (
            (a.op == "sub" and norm_loops(a.args[1]) in orders) or
            (a.op == "comp" and any(x.op == "elem" and
                                    norm_loops(x.args[0]) in orders
                                    for x in a.walk())))]
        ctx.ob("C11.5", f, not unperm,
               "merge: the pose matrices handed to the constructor are "
               "permuted like positions, orientations and timestamps"
               if not unperm else
               f"merge: constructor argument poses_se3 is "
               f"{fmt(unperm[0])[:80]} — in concatenation order, while the "
               f"other arrays are time-sorted: pose k gets the matrix of "
               f"another timestamp", key="C11.5:role:poses_se3")
    # nothing may thin out / re-select the merged trajectory in the
    # documented call form (options added later are at their defaults)
    later = [e for e in r.of_kind("call")
             if e.data.get("recv") is ret and
             not tm.is_const(e.live, False) and
             any(k in (e.data.get("name") or "") for k in
                 ("reduce_to_ids", "downsample", "motion_filter",
                  "reduce_to_time_range"))]
    ctx.ob("C11.5", later[0] if later else f, not later,
           "merge: the merged trajectory is returned as constructed (the "
           "full time-sorted union)" if not later else
           f"merge: with default options the merged trajectory is reduced "
           f"again by {later[0].data.get('name')} at {later[0].where} — "
           f"poses of the union (e.g. poses with equal timestamps) are "
           f"dropped", key="C11.5:union-complete")
    ok = len(orders) == 1
    o = list(orders)[0] if ok else None
    if ok:
        src = tm.method_recv(o) if tm.callee_name(o) == ".argsort" else (
            o.args[1][0] if is_call_to(o, "numpy.argsort") and o.args[1]
            else None)
        ok = src is not None and is_call_to(src, "numpy.concatenate")
        if ok:
            pe = per_element(src.args[1][0])
            ok = pe is not None and pe[0].op == "attr" and \
                pe[0].args[1] == "timestamps" and not pe[3]
    ctx.ob("C11.5", f, ok and all_ok,
           "merge: one permutation — argsort of the concatenated stamps — "
           "is applied to positions, orientations and stamps alike" if
           ok and all_ok else
           f"merge: the three arrays are not permuted by one common "
           f"argsort of the concatenated timestamps (permutations: "
           f"{[fmt(x)[:80] for x in orders] or 'none'})",
           key="C11.5:co-permutation")


VARIANTS = [
    dict(name="linspace-endpoint-false", file="evo/core/trajectory.py",
         find="        ids = np.linspace(0, self.num_poses - 1, num_poses, dtype=int)",
         replace="        ids = np.linspace(0, self.num_poses - 1, num_poses, endpoint=False, dtype=int)",
         expect="fire", rule="C11.1"),
    dict(name="downsample-strict-early-return", file="evo/core/trajectory.py",
         find="        if self.num_poses <= num_poses:\n            return\n        if num_poses < 1:",
         replace="        if self.num_poses < num_poses:\n            return\n        if num_poses < 1:",
         # (for count == N the reduction then runs with linspace(0, N-1, N) =
         # every index once: the same poses — behaviour is preserved, the
         # check must not report it; it may decline)
         expect="silent", allow_error=True),
    dict(name="motion-strict", file="evo/core/filters.py",
         find="        if current_angle >= angle_threshold:",
         replace="        if current_angle > angle_threshold:",
         expect="fire", rule="C11.2"),
    dict(name="angle-branch-forgets-distance", file="evo/core/filters.py",
         find="        if current_angle >= angle_threshold:\n"
              "            filtered_ids.append(i)\n"
              "            previous_angle_id = i\n"
              "            previous_distance = distances[i]\n",
         replace="        if current_angle >= angle_threshold:\n"
                 "            filtered_ids.append(i)\n"
                 "            previous_angle_id = i\n",
         expect="fire", rule="C11.2"),
    dict(name="crop-exclusive-end", file="evo/core/trajectory.py",
         find="                           self.timestamps <= end_timestamp))[0]",
         replace="                           self.timestamps < end_timestamp))[0]",
         expect="fire", rule="C11.3"),
    dict(name="split-ge", file="evo/core/trajectory.py",
         find="        gaps = np.where(self.timestamps[1:] - self.timestamps[:-1] > dt)[0]",
         replace="        gaps = np.where(self.timestamps[1:] - self.timestamps[:-1] >= dt)[0]",
         expect="fire", rule="C11.4"),
    dict(name="split-stamps-shifted", file="evo/core/trajectory.py",
         find="            PoseTrajectory3D(timestamps=self.timestamps[gaps[i]:gaps[i + 1]],\n"
              "                             poses_se3=self.poses_se3[gaps[i]:gaps[i + 1]])",
         replace="            PoseTrajectory3D(timestamps=self.timestamps[gaps[i]:gaps[i + 1]],\n"
                 "                             poses_se3=self.poses_se3[gaps[i] + 1:gaps[i + 1] + 1])",
         expect="fire", rule="C11.4"),
    dict(name="merge-quat-not-permuted", file="evo/core/trajectory.py",
         find="    merged_quat = merged_quat[order]\n", replace="",
         expect="fire", rule="C11.5"),
    dict(name="merge-roles-crossed", file="evo/core/trajectory.py",
         find="    return PoseTrajectory3D(merged_xyz, merged_quat, merged_stamps)",
         replace="    return PoseTrajectory3D(merged_xyz, merged_stamps, merged_quat)",
         expect="fire", rule="C11.5"),
    dict(name="sides-swapped-spelling", file="evo/core/trajectory.py",
         find="        if self.num_poses <= num_poses:\n            return\n        if num_poses < 1:",
         replace="        if num_poses >= self.num_poses:\n            return\n        if num_poses < 1:",
         expect="silent"),
    dict(name="last-kept-id-spelling", file="evo/core/filters.py",
         find="            lie.relative_so3(poses[previous_angle_id][:3, :3],",
         replace="            lie.relative_so3(poses[filtered_ids[-1]][:3, :3],",
         expect="silent"),
]
