"""Shared structural model of metrics.APE / metrics.RPE used by C01, C02, C12."""
from __future__ import annotations

from typing import Dict, List, Optional, Tuple

from .. import terms as tm
from ..interp import Interp, Result
from ..lib import fmt, fuse_elems, is_call_to, per_element
from ..progdb import AnalysisError
from ..terms import T, const

PR = "evo.core.metrics.PoseRelation"
UNIT = "evo.core.units.Unit"
LIE = "evo.core.lie_algebra."

# oracle (from the property statement): relation -> (block, reducer family,
# degrees flag, unit for APE, unit for RPE)
ORACLE = {
    "full_transformation": ("pose", "frobenius4", None, "none", "none"),
    "translation_part": ("trans", "norm", None, "meters", "meters"),
    "rotation_part": ("rot", "frobenius3", None, "none", "none"),
    "rotation_angle_rad": ("rot", "angle", False, "radians", "radians"),
    "rotation_angle_deg": ("rot", "angle", True, "degrees", "degrees"),
    "point_distance": ("trans", "pointdist", None, "meters", "meters"),
    "point_distance_error_ratio": ("trans", "ratio", None, None, "percent"),
}

DATA = tm.param("data")
REF = tm.sub(DATA, const(0))
EST = tm.sub(DATA, const(1))
SELF = tm.param("self")


def run_relation(prog, cls_name: str, member: str,
                 extra: Optional[Dict[str, T]] = None) -> Result:
    f = prog.func(f"evo.core.metrics.{cls_name}.process_data")
    preset = {(SELF, "pose_relation"): tm.enum(prog.cls(PR).qualname, member)}
    for k, v in (extra or {}).items():
        preset[(SELF, k)] = v
    it = Interp(prog, inline=lambda fn: fn.name in ("ape_base", "rpe_base"),
                max_depth=3)
    return it.run(f, {}, None, preset_attrs=preset)


def init_unit(prog, cls_name: str, member: str) -> Optional[T]:
    f = prog.func(f"evo.core.metrics.{cls_name}.__init__")
    it = Interp(prog)
    r = it.run(f, {"pose_relation": tm.enum(prog.cls(PR).qualname, member)})
    return r.attrs.get((SELF, "unit"))


def traj_of(t: T) -> Optional[str]:
    """'ref' / 'est' if t is data[0] / data[1]"""
    if t is REF:
        return "ref"
    if t is EST:
        return "est"
    return None


def view_of(t: T) -> Optional[Tuple[str, str]]:
    """('ref'|'est', attribute) for data[k].<attr>"""
    if t.op == "attr":
        w = traj_of(t.args[0])
        if w is not None:
            return w, t.args[1]
    return None


def _blk(t: T) -> Optional[Tuple[str, T]]:
    """('rot'|'trans', base) for base[:3,:3] / base[:3,3] / so3_from_se3"""
    if is_call_to(t, LIE + "so3_from_se3") and t.args[1]:
        return "rot", t.args[1][0]
    if t.op == "sub" and t.args[1].op == "tuple" and \
            len(t.args[1].args) == 2:
        a, b = t.args[1].args
        up3 = lambda s: s.op == "slice" and tm.is_const(s.args[0], None) \
            and tm.is_const(s.args[1], 3) and tm.is_const(s.args[2], None)
        if up3(a) and up3(b):
            return "rot", t.args[0]
        if up3(a) and tm.is_const(b, 3):
            return "trans", t.args[0]
    return None


def _norm_arg(t: T) -> Optional[T]:
    if is_call_to(t, "numpy.linalg.norm") and len(t.args[1]) == 1 and \
            not t.args[2]:
        return t.args[1][0]
    return None


def _minus_eye(t: T) -> Optional[Tuple[T, int]]:
    if t.op == "binop" and t.args[0] == "Sub" and \
            is_call_to(t.args[2], "numpy.eye", "numpy.identity") and \
            t.args[2].args[1] and tm.is_const(t.args[2].args[1][0]):
        return t.args[1], t.args[2].args[1][0].args[1]
    return None


def match_reducer(elt: T):
    """classify the per-value reducer.
    returns dict(family=..., degrees=..., arg=term the reducer is applied
    to, block=...) or None (unknown idiom)"""
    x = elt
    had_abs = False
    if is_call_to(x, "builtins.abs", "numpy.abs", "numpy.fabs") and \
            len(x.args[1]) == 1:
        x, had_abs = x.args[1][0], True
    if is_call_to(x, "builtins.float") and len(x.args[1]) == 1:
        x = x.args[1][0]
    if is_call_to(x, LIE + "so3_log_angle") and x.args[1]:
        deg = False
        if len(x.args[1]) > 1:
            d = x.args[1][1]
            if not tm.is_const(d):
                return None
            deg = bool(d.args[1])
        for k, v in x.args[2]:
            if k == "degrees":
                if not tm.is_const(v):
                    return None
                deg = bool(v.args[1])
        b = _blk(x.args[1][0])
        if b is None:
            return dict(family="angle", degrees=deg, block="whole",
                        arg=x.args[1][0])
        return dict(family="angle", degrees=deg, block=b[0], arg=b[1])
    n = _norm_arg(x)
    if n is not None:
        me = _minus_eye(n)
        if me is not None:
            inner, k = me
            b = _blk(inner)
            if b is not None:
                return dict(family=f"frobenius{k}", degrees=None,
                            block=b[0], arg=b[1], eye=k)
            return dict(family=f"frobenius{k}", degrees=None, block="pose",
                        arg=inner, eye=k)
        b = _blk(n)
        if b is not None:
            return dict(family="norm", degrees=None, block=b[0], arg=b[1])
        return dict(family="norm", degrees=None, block="vector", arg=n)
    return None


def match_rel(t: T) -> Optional[Tuple[T, T]]:
    """(a, b) if t = a^-1 . b  (relative_se3(a, b) or dot(inverse(a), b))"""
    if is_call_to(t, LIE + "relative_se3") and len(t.args[1]) == 2:
        return t.args[1][0], t.args[1][1]
    if is_call_to(t, "numpy.dot") and len(t.args[1]) == 2 and \
            is_call_to(t.args[1][0], LIE + "se3_inverse") and \
            t.args[1][0].args[1]:
        return t.args[1][0].args[1][0], t.args[1][1]
    return None


def pose_elem(t: T) -> Optional[Tuple[str, int, str]]:
    """(which, loop id, view) for elem(data[k].poses_se3)"""
    if t.op == "elem":
        v = view_of(t.args[0])
        if v is not None:
            return v[0], t.args[1], v[1]
    return None


def pose_at(t: T) -> Optional[Tuple[str, str, T]]:
    """(which, view, index term) for data[k].<view>[index]"""
    if t.op == "sub":
        v = view_of(t.args[0])
        if v is not None:
            return v[0], v[1], t.args[1]
    return None
