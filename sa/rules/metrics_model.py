"""Shared structural model of metrics.APE / metrics.RPE used by C01, C02, C12."""
from __future__ import annotations

import ast

from typing import Dict, List, Optional, Tuple

from .. import terms as tm
from ..interp import Interp, Result
from ..lib import fmt, fuse_elems, is_call_to, per_element
from ..progdb import AnalysisError
from ..terms import T, const

PR = "evo.core.metrics.PoseRelation"
UNIT = "evo.core.units.Unit"
LIE = "evo.core.lie_algebra."

# oracle (from the property statement): relation -> (block, reducer family,
# degrees flag, unit for APE, unit for RPE)
ORACLE = {
    "full_transformation": ("pose", "frobenius4", None, "none", "none"),
    "translation_part": ("trans", "norm", None, "meters", "meters"),
    "rotation_part": ("rot", "frobenius3", None, "none", "none"),
    "rotation_angle_rad": ("rot", "angle", False, "radians", "radians"),
    "rotation_angle_deg": ("rot", "angle", True, "degrees", "degrees"),
    "point_distance": ("trans", "pointdist", None, "meters", "meters"),
    "point_distance_error_ratio": ("trans", "ratio", None, None, "percent"),
}

DATA = tm.param("data")
REF = tm.sub(DATA, const(0))
EST = tm.sub(DATA, const(1))
SELF = tm.param("self")


_PROG = None


def run_relation(prog, cls_name: str, member: str,
                 extra: Optional[Dict[str, T]] = None) -> Result:
    global _PROG
    _PROG = prog
    f = prog.func(f"evo.core.metrics.{cls_name}.process_data")
    preset = {(SELF, "pose_relation"): tm.enum(prog.cls(PR).qualname, member)}
    for k, v in (extra or {}).items():
        preset[(SELF, k)] = v
    it = Interp(prog, inline=lambda fn: fn.name in ("ape_base", "rpe_base"),
                max_depth=3)
    return it.run(f, {}, None, preset_attrs=preset)


def final_attr(prog, res: Result, cls_name: str, name: str) -> Optional[T]:
    """value of self.<name> after process_data: the stored attribute, or —
    when the class exposes it as a read-only property — the property body
    evaluated on the final attributes"""
    v = res.attrs.get((SELF, name))
    if v is not None:
        return v
    c = prog.cls(f"evo.core.metrics.{cls_name}")
    m = prog.find_method(c, name)
    if m is None or not m.is_property:
        return None
    preset = {k: val for k, val in res.attrs.items()}
    r = Interp(prog).run(m, {}, None, preset_attrs=preset)
    return r.ret if r.ret is not NONE_T else None


NONE_T = tm.NONE


def init_unit(prog, cls_name: str, member: str) -> Optional[T]:
    f = prog.func(f"evo.core.metrics.{cls_name}.__init__")
    it = Interp(prog)
    r = it.run(f, {"pose_relation": tm.enum(prog.cls(PR).qualname, member)})
    u = r.attrs.get((SELF, "unit"))
    if u is not None and any(x.op == "exc" for x in u.walk()):
        # a table lookup guarded against unhashable keys (`except
        # TypeError`): an enumeration member is hashable, no exception
        u = tm.select(u, lambda a: False if a.op == "exc" else None)
    return u


def traj_of(t: T) -> Optional[str]:
    """'ref' / 'est' if t is data[0] / data[1]"""
    if t is REF:
        return "ref"
    if t is EST:
        return "est"
    return None


def view_of(t: T) -> Optional[Tuple[str, str]]:
    """('ref'|'est', attribute) for data[k].<attr>"""
    if t.op == "attr":
        w = traj_of(t.args[0])
        if w is not None:
            return w, t.args[1]
    return None


def _blk(t: T) -> Optional[Tuple[str, T]]:
    """('rot'|'trans', base) for base[:3,:3] / base[:3,3] / so3_from_se3"""
    if is_call_to(t, LIE + "so3_from_se3") and t.args[1]:
        return "rot", t.args[1][0]
    if t.op == "sub" and t.args[1].op == "tuple" and \
            len(t.args[1].args) == 2:
        a, b = t.args[1].args
        up3 = lambda s: s.op == "slice" and tm.is_const(s.args[0], None) \
            and tm.is_const(s.args[1], 3) and tm.is_const(s.args[2], None)
        if up3(a) and up3(b):
            return "rot", t.args[0]
        if up3(a) and tm.is_const(b, 3):
            return "trans", t.args[0]
    return None


def _norm_arg(t: T) -> Optional[T]:
    if is_call_to(t, "numpy.linalg.norm") and len(t.args[1]) == 1 and \
            not t.args[2]:
        return t.args[1][0]
    return None


def _minus_eye(t: T) -> Optional[Tuple[T, int]]:
    if t.op == "binop" and t.args[0] == "Sub":
        eye = t.args[2]
        while eye.op == "named":      # a named / memoised identity matrix
            eye = eye.args[1]
        if is_call_to(eye, "numpy.eye", "numpy.identity") and \
                eye.args[1] and tm.is_const(eye.args[1][0]):
            return t.args[1], eye.args[1][0].args[1]
    return None


def match_reducer(elt: T):
    """classify the per-value reducer.
    returns dict(family=..., degrees=..., arg=term the reducer is applied
    to, block=...) or None (unknown idiom)"""
    x = elt
    had_abs = False
    if is_call_to(x, "builtins.abs", "numpy.abs", "numpy.fabs") and \
            len(x.args[1]) == 1:
        x, had_abs = x.args[1][0], True
    if is_call_to(x, "builtins.float") and len(x.args[1]) == 1:
        x = x.args[1][0]
    if is_call_to(x, LIE + "so3_log_angle") and x.args[1]:
        # bind the actual arguments to the callee's *current* signature
        params = ["r", "degrees"]
        defaults = {"degrees": False}
        if _PROG is not None:
            fn = _PROG.func(LIE + "so3_log_angle")
            params = list(fn.params)
            defaults = {}
            for k, dv in fn.defaults().items():
                try:
                    defaults[k] = ast.literal_eval(dv)
                except Exception:
                    defaults[k] = None
        if len(params) < 2 or len(x.args[1]) > len(params):
            return None
        # the unit selector: the `degrees` flag, or a parameter that takes
        # a member radians / degrees of a unit enumeration
        sel = "degrees" if "degrees" in params else params[1]
        bound = dict(zip(params, x.args[1]))
        for k, v in x.args[2]:
            bound[k] = v
        d = bound.get(sel)
        while d is not None and d.op == "named":
            d = d.args[1]
        if d is None:
            dv = defaults.get(sel)
            if dv in (True, False) and sel == "degrees":
                deg = bool(dv)
            else:
                dn = fn.defaults().get(sel) if _PROG is not None else None
                if isinstance(dn, ast.Attribute) and dn.attr in (
                        "radians", "degrees"):
                    deg = dn.attr == "degrees"
                else:
                    return None
        elif tm.is_const(d) and sel == "degrees":
            deg = bool(d.args[1])
        elif d.op == "enum" and d.args[1] in ("radians", "degrees"):
            deg = d.args[1] == "degrees"
        elif d.op in ("const", "enum") and _PROG is not None:
            # some other constant handed to the selector (a bool where a
            # unit member is expected ...): what the helper does with it
            from ..interp import Interp
            rr = Interp(_PROG).run(fn, {sel: d}).ret
            if any(y.op == "ite" for y in rr.walk()):
                return None
            deg = any(is_call_to(y, "numpy.rad2deg", "numpy.degrees",
                                 "math.degrees") for y in rr.walk())
        else:
            return None
        if bound.get(params[0]) is not x.args[1][0]:
            return None
        b = _blk(x.args[1][0])
        if b is None:
            return dict(family="angle", degrees=deg, block="whole",
                        arg=x.args[1][0])
        return dict(family="angle", degrees=deg, block=b[0], arg=b[1])
    n = _norm_arg(x)
    if n is not None:
        me = _minus_eye(n)
        if me is not None:
            inner, k = me
            b = _blk(inner)
            if b is not None:
                return dict(family=f"frobenius{k}", degrees=None,
                            block=b[0], arg=b[1], eye=k)
            return dict(family=f"frobenius{k}", degrees=None, block="pose",
                        arg=inner, eye=k)
        b = _blk(n)
        if b is not None:
            return dict(family="norm", degrees=None, block=b[0], arg=b[1])
        return dict(family="norm", degrees=None, block="vector", arg=n)
    return None


def match_rel(t: T) -> Optional[Tuple[T, T]]:
    """(a, b) if t = a^-1 . b  (relative_se3(a, b) or dot(inverse(a), b))"""
    if is_call_to(t, LIE + "relative_se3") and len(t.args[1]) == 2:
        return t.args[1][0], t.args[1][1]
    if is_call_to(t, "numpy.dot") and len(t.args[1]) == 2 and \
            is_call_to(t.args[1][0], LIE + "se3_inverse") and \
            t.args[1][0].args[1]:
        return t.args[1][0].args[1][0], t.args[1][1]
    return None


def group_word(t: T, depth: int = 0):
    """normal form of a product of poses and inverses in the free group over
    the indexed poses: [(which, view, index term, +1 | -1), ...] with adjacent
    x x^-1 cancelled, or None if `t` is not such a product.  Two products
    with the same word are the same matrix for every input."""
    if depth > 12 or not isinstance(t, T):
        return None
    while t.op == "named":
        t = t.args[1]
    p = pose_at(t)
    if p is not None:
        return [(p[0], p[1], p[2], 1)]
    parts = None
    if t.op == "binop" and t.args[0] == "MatMult":
        parts = [(t.args[1], 1), (t.args[2], 1)]
    elif t.op == "call":
        n = tm.callee_name(t) or ""
        a = t.args[1]
        if n in ("numpy.dot", "numpy.matmul") and len(a) == 2 and \
                not t.args[2]:
            parts = [(a[0], 1), (a[1], 1)]
        elif n == ".dot" and len(a) == 1 and not t.args[2]:
            parts = [(tm.method_recv(t), 1), (a[0], 1)]
        elif n in (LIE + "se3_inverse", "numpy.linalg.inv") and \
                len(a) == 1 and not t.args[2]:
            parts = [(a[0], -1)]
        elif n == LIE + "relative_se3" and len(a) == 2 and not t.args[2]:
            parts = [(a[0], -1), (a[1], 1)]
        elif n == "numpy.linalg.multi_dot" and len(a) == 1 and \
                a[0].op in ("list", "tuple"):
            parts = [(x, 1) for x in a[0].args]
    if parts is None:
        return None
    word = []
    for x, sg in parts:
        w = group_word(x, depth + 1)
        if w is None:
            return None
        if sg < 0:
            w = [(a_, b_, c_, -d_) for a_, b_, c_, d_ in reversed(w)]
        for g in w:
            if word and word[-1][:3] == g[:3] and word[-1][2] is g[2] and \
                    word[-1][3] == -g[3]:
                word.pop()
            else:
                word.append(g)
    return word


def pose_elem(t: T) -> Optional[Tuple[str, int, str]]:
    """(which, loop id, view) for elem(data[k].poses_se3)"""
    if t.op == "elem":
        v = view_of(t.args[0])
        if v is not None:
            return v[0], t.args[1], v[1]
    return None


def pose_at(t: T) -> Optional[Tuple[str, str, T]]:
    """(which, view, index term) for data[k].<view>[index]"""
    if t.op == "sub":
        v = view_of(t.args[0])
        if v is not None:
            return v[0], v[1], t.args[1]
    return None


# ------------------------------------------------------------- intervals
import math


def interval(t: T):
    """sound interval of a (scalar or element-wise) numeric expression built
    from the few functions angle computations use; None = unknown.
    Used only to refute 'geodesic angle in [0, pi]'."""
    INF = float("inf")
    if tm.is_const(t) and isinstance(t.args[1], (int, float)) and \
            not isinstance(t.args[1], bool):
        return float(t.args[1]), float(t.args[1])
    if t.op == "global" and t.args[0] in ("numpy.pi", "math.pi"):
        return math.pi, math.pi
    if t.op == "call":
        n = tm.callee_name(t) or ""
        a = t.args[1]
        if n in ("numpy.clip",) and len(a) == 3:
            lo, hi = interval(a[1]), interval(a[2])
            if lo and hi:
                x = interval(a[0])
                if x:
                    return max(x[0], lo[0]), max(min(x[1], hi[1]), lo[0])
                return lo[0], hi[1]
        if n in ("numpy.arccos", "math.acos") and a:
            x = interval(a[0])
            if x and -1.0 <= x[0] and x[1] <= 1.0:
                return math.acos(x[1]), math.acos(x[0])
            return 0.0, math.pi
        if n in ("numpy.arcsin", "math.asin") and a:
            return -math.pi / 2, math.pi / 2
        if n in ("numpy.arctan2", "math.atan2") and len(a) == 2:
            y, x = interval(a[0]), interval(a[1])
            if y and y[0] >= 0:
                if x and x[0] >= 0:
                    return 0.0, math.pi / 2
                return 0.0, math.pi
            return -math.pi, math.pi
        if n in ("numpy.abs", "numpy.fabs", "builtins.abs",
                 "numpy.absolute") and a:
            x = interval(a[0])
            if x:
                m = max(abs(x[0]), abs(x[1]))
                lo = 0.0 if x[0] <= 0 <= x[1] else min(abs(x[0]), abs(x[1]))
                return lo, m
            return 0.0, INF
        if n in ("numpy.rad2deg", "numpy.degrees", "math.degrees") and a:
            x = interval(a[0])
            if x:
                return math.degrees(x[0]), math.degrees(x[1])
        if n in ("numpy.deg2rad", "numpy.radians", "math.radians") and a:
            x = interval(a[0])
            if x:
                return math.radians(x[0]), math.radians(x[1])
        if n == "numpy.linalg.norm":
            return 0.0, INF
        if n.endswith("lie_algebra.so3_log_angle"):
            deg = any(k == "degrees" and tm.is_const(v, True)
                      for k, v in t.args[2]) or (
                len(a) > 1 and tm.is_const(a[1], True))
            return (0.0, 180.0) if deg else (0.0, math.pi)
        if n in ("numpy.array", "numpy.asarray", "builtins.float") and a:
            return interval(a[0])
        if n in ("numpy.minimum", "builtins.min") and len(a) == 2:
            x, y = interval(a[0]), interval(a[1])
            if x and y:
                return min(x[0], y[0]), min(x[1], y[1])
            if x:
                return -INF, x[1]
            if y:
                return -INF, y[1]
        return None
    if t.op == "binop":
        x, y = interval(t.args[1]), interval(t.args[2])
        if x is None or y is None:
            return None
        op = t.args[0]
        if op == "Add":
            return x[0] + y[0], x[1] + y[1]
        if op == "Sub":
            return x[0] - y[1], x[1] - y[0]
        if op == "Mult":
            c = [x[0] * y[0], x[0] * y[1], x[1] * y[0], x[1] * y[1]]
            c = [v for v in c if v == v]
            return (min(c), max(c)) if c else None
        if op == "Div" and (y[0] > 0 or y[1] < 0):
            c = [x[0] / y[0], x[0] / y[1], x[1] / y[0], x[1] / y[1]]
            return min(c), max(c)
        return None
    if t.op == "unop" and t.args[0] == "USub":
        x = interval(t.args[1])
        return (-x[1], -x[0]) if x else None
    if t.op == "comp":
        return interval(t.args[1])
    if t.op == "ite":
        x, y = interval(t.args[1]), interval(t.args[2])
        if x and y:
            return min(x[0], y[0]), max(x[1], y[1])
    return None
