"""C18 — config edits keep keys, types, user values; generated configs equal
their args."""
from __future__ import annotations

import ast
import itertools
from typing import List, Optional

from .. import terms as tm
from ..interp import Interp
from ..lib import comparisons, fmt, is_call_to, keyed_writes, root_object, \
    parse_time_transform, parser_arguments, per_element, sweep
from ..terms import T, const
from .c17 import find_sinks

EXPLANATION = """
C18.1: every store config[k] = ... in set_config is unreachable unless k is a
key of the loaded config (membership literal in the live condition); no
del/pop. C18.2: finalize_values returns only True/False/not old for boolean
parameters, only lists for list parameters and one token for scalars (return
sets per isinstance configuration), and numeric tokens become int when
integral else float in set_config (both branches present, decided on the
numeric value). C18.3: resetting a subset writes only keys that are in the
subset and in the defaults, each from DEFAULT_SETTINGS_DICT; a full reset
writes exactly the defaults. C18.12: set, merge and reset of a subset write
the dictionary they loaded and edited back to the path they were given
(evaluated in the world "file exists, subset given" for reset). C18.4: the
version upgrade calls
merge_dicts(user settings, defaults, soft=True) in that order, and the soft
branch only adds keys that are *absent* from the first dict (membership test,
not a truthiness test). C18.5: SettingsContainer.__setattr__ raises when
locked and the key is new; update_existing_keys restricts to the key
intersection; SETTINGS is constructed locked. C18.6: merge_config updates a
*copy* of vars(args) with the file's dict (file wins), overrides SETTINGS
through update_existing_keys only and writes no file. C18.7: generate agrees
with argparse on two necessary points: integral numeric tokens become int
(decided on the numeric value — a lexical test such as isdigit misses negative
integers), and a dash-prefixed token is an option only if it is not a number,
at every classification site.
C18.11 (wave 7): evo_ape's and evo_rpe's run() consult the same package
settings (siblings): a setting only one of them reads is ignored by the other,
whatever the settings file or a -c config says. Where helpers have another
interface than on the pinned tree, C18.2 / C18.7 evaluate what `set` /
`generate` store for sample tokens (_token_probe), C18.4 / C18.6 judge the
written / merged dict by its sources in priority order (lib.dict_priority).
"""
UNDECIDED = [
    "equivalence of a generated config with the direct command line for all "
    "argument lists (needs argparse semantics); only the two necessary "
    "conditions of C18.7 are decided",
    "seaborn palette special case of finalize_values",
]
TRUSTED = ["dict.update / json semantics", "argparse types of the target "
           "parsers (int options exist: --downsample, --n_to_align)"]
ASSUMPTIONS = []
MANIFEST = dict(
    text="Decides key-set invariance of `set`, type preservation, reset of "
         "exactly the named keys from the defaults, that the upgrade's soft "
         "merge adds only *absent* keys (never overwrites a user value, "
         "including falsy ones), the settings lock, that -c takes priority "
         "for the session only without writing anything, and two necessary "
         "conditions for generated configs (integers stay integers — "
         "including negative ones — and negative numbers are values, not "
         "flags).",
    note="Full equivalence of generated configs with argparse is not "
         "decided.",
    technique="live-condition folding (membership guards) + return-set "
              "analysis per isinstance configuration + provenance terms + "
              "effect/sink inventory",
)
FLOORS = {"C18.1": 2, "C18.2": 4, "C18.3": 2, "C18.4": 3, "C18.5": 3,
          "C18.12": 3,
          "C18.6": 4, "C18.7": 4, "C18.8": 4, "C18.9": 1,
          "C18.10": 2, "C18.11": 1}

MC = "evo.main_config."
ST = "evo.tools.settings."


def check(ctx):
    prog = ctx.prog
    ctx.analysed_fn(MC + "set_config", MC + "finalize_values",
                    MC + "generate", ST + "reset", ST + "merge_dicts",
                    ST + "update_if_outdated",
                    ST + "SettingsContainer.__setattr__",
                    "evo.entry_points.merge_config")
    ctx.section(_set_config, ctx, prog)
    ctx.section(_finalize, ctx, prog)
    ctx.section(_is_number, ctx, prog)
    ctx.section(_reset, ctx, prog)
    ctx.section(_upgrade, ctx, prog)
    ctx.section(_lock, ctx, prog)
    ctx.section(_merge_config, ctx, prog)
    ctx.section(_override_order, ctx, prog)
    ctx.section(_parser_types, ctx, prog)
    ctx.section(_token_windows, ctx, prog)
    ctx.section(_generate, ctx, prog)
    ctx.section(_sibling_settings, ctx, prog)
    ctx.section(_persisted, ctx, prog)


def _persisted(ctx, prog):
    """C18.12: an edit is an edit of the *file*: set, merge and reset write
    the dictionary they loaded and changed back to the path they were given
    (otherwise "changes only the named keys" holds vacuously and "restores
    exactly those keys" not at all)"""
    from ..lib import indirect_calls

    def writes(r):
        out = []
        for e in r.of_kind("call"):
            n = e.data.get("name") or ""
            b = e.data.get("bound") or {}
            if n.endswith("settings.write_atomic") and b:
                out.append((e, b.get("path"), b.get("text")))
            elif n.endswith("settings.write_to_json_file") and b:
                out.append((e, b.get("json_path"), b.get("dictionary")))
            elif n == "json.dump" and len(e.data["args"]) >= 2:
                out.append((e, e.data["args"][1], e.data["args"][0]))
            elif n in (".write", ".write_text") and e.data["args"] and \
                    e.data.get("recv") is not None:
                out.append((e, e.data["recv"], e.data["args"][0]))
        return out

    def about(t, p) -> bool:
        return isinstance(t, T) and any(x is p for x in t.walk())

    def loaded(t) -> bool:
        return isinstance(t, T) and any(
            is_call_to(x, "json.load", "json.loads") for x in t.walk())

    cases = [
        (MC + "set_config", "config_path", [("set", {})]),
        (MC + "merge_json_union", "first_file", [("merge", {})]),
        (ST + "reset", "destination", [
            ("reset of a subset", {"exists": True, "none": False,
                                   "subset": True})]),
    ]
    for fq, pname, worlds in cases:
        f = prog.func(fq)
        ctx.require(pname in f.params, f"{fq}: parameter {pname} vanished")
        r = Interp(prog).run(f)
        P = tm.param(pname)
        def is_path(t, depth=0) -> bool:
            # the path itself, Path(path), open(path, "w"), a handle of it
            t = Interp.unname(t) if isinstance(t, T) else t
            if t is P:
                return True
            return isinstance(t, T) and depth < 3 and t.op == "call" and \
                bool(t.args[1]) and is_path(t.args[1][0], depth + 1)
        ws = [(e, pt, ct) for e, pt, ct in writes(r) if is_path(pt)]
        handed_on = [e for e in r.of_kind("call")
                     if e.data.get("target") is not None and
                     not e.data.get("inlined") and
                     not (e.data.get("name") or "").endswith(
                         ("write_atomic", "write_to_json_file")) and
                     any(v is P or (isinstance(v, T) and v.op == "call" and
                                    len(v.args[1]) == 1 and v.args[1][0] is P)
                         for v in (e.data.get("bound") or {}).values())]
        for label, world in worlds:
            def asg(t, world=world):
                if t.op in ("and", "or", "not"):
                    return None
                if world:
                    if is_call_to(t, ".exists", ".is_file",
                                  "os.path.exists", "os.path.isfile") and \
                            about(t, P):
                        return world["exists"]
                    S = tm.param("parameter_subset")
                    if t is S:
                        return world["subset"]
                    if t.op == "cmp" and t.args[0] in ("Is", "IsNot") and \
                            t.args[1] is S and tm.is_const(t.args[2], None):
                        return world["none"] == (t.args[0] == "Is")
                return None
            live = [(e, tm.fold(e.live, asg), ct) for e, _, ct in ws]
            sure = [x for x in live if x[1] is True]
            ok = bool(sure) and any(loaded(ct) for _, _, ct in sure)
            if not ws:
                # written by a helper added later that was looked through (an
                # atomic writer moved to another module): a file-creating
                # call / a move onto a path derived from the given one
                try:
                    general = [(e, p_) for e, p_, _ in find_sinks(r)
                               if about(p_, P)]
                except Exception:
                    general = []
                general += [(e, e.data["args"][1]) for e in r.of_kind("call")
                            if e.data.get("name") in ("os.replace",
                                                      "os.rename",
                                                      "shutil.move")
                            and len(e.data["args"]) == 2 and
                            is_path(e.data["args"][1])]
                gl = [tm.fold(e.live, lambda t: None if t.op in (
                    "and", "or", "not") else (False if t.op == "exc" else
                                              asg(t))) for e, _ in general]
                if any(v is True for v in gl):
                    ok = True
                    sure = [(general[gl.index(True)][0], True, None)]
                elif general:
                    ws = [(e, p_, None) for e, p_ in general]
                    live = [(e, v, None) for (e, _), v in zip(general, gl)]
            ctx.ob("C18.12", sure[0][0] if sure else f, ok,
                   f"{label}: the dictionary loaded from `{pname}` and "
                   f"edited is written back to `{pname}`" if ok else
                   (f"{label}: nothing is written back to `{pname}` — the "
                    f"edit is lost when the command ends" if not ws else
                    f"{label}: the write to `{pname}` happens only under "
                    f"{[fmt(e.live)[:60] for e, _, _ in ws]}, or does not "
                    f"write the dictionary that was loaded and edited"),
                   key=f"C18.12:persisted:{f.name}",
                   # a write that exists only under conditions this rule
                   # does not read, a helper of the program that is handed
                   # the path, calls through values: no evidence
                   evidence=not handed_on and not indirect_calls(r) and (
                       not ws or all(v is False for _, v, _ in live) or
                       bool(sure)))


def _settings_keys_read(prog, q: str):
    """keys of the package settings a command's run() consults, helpers of
    the glue modules looked through (values passed on as arguments count)"""
    r = Interp(prog, max_depth=4).run(prog.func(q))
    out = set()

    def scan(t):
        if not isinstance(t, T):
            return
        for x in t.walk():
            if x.op == "attr" and x.args[0].op == "named" and \
                    str(x.args[0].args[0]).endswith("SETTINGS"):
                out.add(x.args[1])
    for e in r.events:
        scan(e.live)
        for v in e.data.values():
            if isinstance(v, T):
                scan(v)
            elif isinstance(v, (list, tuple)):
                for z in v:
                    if isinstance(z, tuple):
                        for w in z:
                            scan(w)
                    else:
                        scan(z)
            elif isinstance(v, dict):
                for z in v.values():
                    scan(z)
    return out


def _sibling_settings(ctx, prog):
    """C18.11: "-c overrides matching package settings for that run" holds
    for a command only if it consults the setting.  evo_ape and evo_rpe are
    siblings (same pipeline, same output options): a package setting one of
    them consults in run() and the other does not is a setting that the
    second silently ignores (its default applies whatever the file says)."""
    a = _settings_keys_read(prog, "evo.main_ape.run")
    b = _settings_keys_read(prog, "evo.main_rpe.run")
    ctx.require(bool(a | b), "no package setting is consulted by evo_ape / "
                "evo_rpe run() (unknown idiom)")
    for k in sorted(a | b):
        ok = k in a and k in b
        ctx.ob("C18.11", prog.func("evo.main_rpe.run" if k not in b else
                                   "evo.main_ape.run"), ok,
               f"SETTINGS.{k} is consulted by evo_ape and evo_rpe alike"
               if ok else
               f"SETTINGS.{k} is consulted by "
               f"{'evo_ape' if k in a else 'evo_rpe'} but not by its "
               f"sibling {'evo_rpe' if k in a else 'evo_ape'}: there the "
               f"value from the settings file or a -c config has no effect",
               key=f"C18.11:sibling:{k}")


def _set_config(ctx, prog):
    f = prog.func(MC + "set_config")
    r = Interp(prog).run(f)
    stores = [e for e in r.of_kind("setitem")
              if any(x.op == "loopvar" and x.args[0] == "config" or
                     x.op == "call" and is_call_to(x, "json.load")
                     for x in e.data["base"].walk())]
    ctx.require(len(stores) >= 2, "set_config: config stores not found")
    for e in stores:
        k = e.data["index"]
        mem = [a for a in tm.atoms(e.live) if a.op == "cmp" and
               a.args[0] in ("In", "NotIn") and a.args[1] is k and
               any(is_call_to(x, ".keys") or x.op == "loopvar"
                   for x in a.args[2].walk())]
        ok = bool(mem) and tm.fold(
            e.live, lambda t: (mem[0].args[0] == "NotIn") if t is mem[0]
            else None) is False
        if not ok and not mem:
            # the key is taken at a position from a list of positions that
            # was filtered by membership beforehand (one pass over the
            # arguments): whether every position used is a filtered one
            # (sentinels, zip truncation) is not modelled
            filt = [x for x in k.walk() if x.op == "comp" and any(
                c.op == "cmp" and c.args[0] == "In" and any(
                    is_call_to(y, "json.load", ".keys") or
                    y.op == "loopvar" for y in c.args[2].walk())
                for c in x.args[3])]
            if filt:
                ctx.undecidable("C18.1", e, f"set: config[{fmt(k)[:70]}] is "
                                f"keyed through a membership-filtered index "
                                f"list")
                continue
        ctx.ob("C18.1", e, ok,
               "set: a key is only written if it already exists in the "
               "config" if ok else
               f"set: config[{fmt(k)}] is written without a membership test "
               f"— unknown parameters can be added", key="C18.1:membership",
               # (a key handed out by a generator / helper that is not
               # read may have been tested there)
               evidence=not any(x.op in ("unknown", "loopout", "loopvar") or
                                "generator" in fmt(x)[:40]
                                for x in k.walk()))
    # a parameter named without value tokens: booleans toggle, others stay
    tog = [e for e in stores if not any(
        is_call_to(x, MC + "finalize_values") for x in e.data["value"].walk())]
    # decided by cases on "the current value is a boolean"
    for isbool in (True, False):
        what = "boolean" if isbool else "non-boolean"
        verdict = None
        why = ""
        site = tog[0] if tog else f
        for e in tog:
            cur = tm.sub(e.data["base"], e.data["index"])
            isb = tm.call(tm.glob("builtins.isinstance"),
                          (cur, tm.glob("builtins.bool")), ())

            def case(t, isb=isb):
                return isbool if t is isb else None
            if tm.fold(e.live, case) is False:
                continue          # this store does not happen in this case
            v = tm.select(e.data["value"], case)
            toggled = v.op in ("not", "unop") and v.args[-1] is cur
            if v is cur or toggled:
                good = toggled == isbool
                if verdict is None or not good:
                    verdict, site = good, e
                    why = (f"a bare {what} parameter becomes "
                           f"{fmt(v)[:100]}")
            else:
                verdict, site = "?", e
                why = f"a bare {what} parameter becomes {fmt(v)[:100]}"
                break
        if verdict is None:
            # no store at all: the value stays (right for non-booleans)
            verdict = not isbool
            why = f"a bare {what} parameter is never written"
            if isbool and not tog:
                verdict = "?"
        if verdict == "?":
            ctx.undecidable("C18.2", site, f"set: {why} (unknown idiom)")
            continue
        ctx.ob("C18.2", site, verdict,
               ("set: a bare boolean parameter is toggled" if isbool else
                "set: a bare non-boolean parameter keeps its value")
               if verdict else
               f"set: {why} — expected `not current` for booleans and the "
               f"unchanged value otherwise",
               key=f"C18.2:toggle:{what}")
    dels = [e for e in r.events if e.kind == "delitem" or (
        e.kind == "call" and e.data.get("mutates_recv") and
        e.data["name"] in (".pop", ".clear", ".popitem"))]
    ctx.ob("C18.1", f, not dels, "set: no key is ever removed",
           key="C18.1:no-removal", nontrivial=False)
    # numeric tokens: int when integral else float, decided numerically
    apps = [e for e in r.of_kind("call") if e.data.get("mutates_recv") and
            e.data["name"] == ".append"]
    kinds = set()
    misguarded = []

    def alternatives(t: T, cond: T):
        if t.op == "ite":
            yield from alternatives(t.args[1], tm.mk_and(cond, t.args[0]))
            yield from alternatives(t.args[2],
                                    tm.mk_and(cond, tm.mk_not(t.args[0])))
        else:
            yield t, cond
    for e in apps:
        for a, cond in alternatives(e.data["args"][0], e.live):
            isnum = [x for x in tm.atoms(cond)
                     if is_call_to(x, MC + "is_number")]
            if is_call_to(a, "builtins.int"):
                kind = {"int"}
            elif is_call_to(a, "builtins.float"):
                kind = {"float"}
            elif is_call_to(a, MC + "to_number"):
                kind = {"int", "float"}
            else:
                kind = {"str"}
            kinds |= kind
            # numbers only for numeric tokens, raw strings only otherwise
            if isnum and tm.fold(cond, lambda t, v=(kind == {"str"}):
                                 v if t in isnum else None) is not False:
                misguarded.append((fmt(a), fmt(cond)))
    ok = {"int", "float", "str"} <= kinds and not misguarded
    # what separates the int alternative from the float alternative
    int_conds = [cond for e in apps
                 for a, cond in alternatives(e.data["args"][0], e.live)
                 if is_call_to(a, "builtins.int")]
    flt_conds = [cond for e in apps
                 for a, cond in alternatives(e.data["args"][0], e.live)
                 if is_call_to(a, "builtins.float")]
    if ok and int_conds and flt_conds:
        def required(cond: T, a: T):
            """truth value atom `a` must have for `cond` to hold, if any"""
            ats = [x for x in tm.atoms(cond) if x is not a]
            if len(ats) > 10:
                for v in (True, False):
                    if tm.fold(cond, lambda t: (not v) if t is a
                               else None) is False:
                        return v
                return None
            possible = set()
            for bits in itertools.product((True, False), repeat=len(ats)):
                env = dict(zip(map(id, ats), bits))
                for v in (True, False):
                    env[id(a)] = v
                    if tm.fold(cond, lambda t: env.get(id(t))) is not False:
                        possible.add(v)
            return possible.pop() if len(possible) == 1 else None
        deciding = []
        for a in tm.atoms(int_conds[0]):
            ri = required(int_conds[0], a)
            rf = required(flt_conds[0], a)
            if ri is not None and rf is not None and ri != rf:
                deciding.append(a)

        def numeric(c: T) -> bool:
            return any(is_call_to(x, ".is_integer") and is_call_to(
                tm.method_recv(x), "builtins.float") for x in c.walk()) or (
                c.op == "cmp" and
                any(is_call_to(x, "builtins.int") for x in c.walk()) and
                any(is_call_to(x, "builtins.float") for x in c.walk()))

        def lexical(c: T) -> bool:
            return any(is_call_to(x, ".isdigit", ".isnumeric", ".isdecimal",
                                  ".count", ".find", ".endswith",
                                  ".startswith", "re.match", "re.fullmatch")
                       for x in c.walk()) or (
                c.op == "cmp" and c.args[0] in ("In", "NotIn") and
                tm.is_const(c.args[1]) and isinstance(c.args[1].args[1], str))
        lex = [c for c in deciding if lexical(c)]
        if lex:
            ctx.ob("C18.2", apps[0], False,
                   f"set: int vs float is decided by the spelling of the "
                   f"token ({fmt(lex[0])}), not by its numeric value: "
                   f"'2.0' / '1e3' become floats although integral",
                   key="C18.2:set-integral-numeric")
        elif deciding and all(numeric(c) for c in deciding):
            ctx.ob("C18.2", apps[0], True,
                   "set: int iff the numeric value is integral",
                   key="C18.2:set-integral-numeric")
        else:
            ctx.undecidable("C18.2", apps[0], f"set: test separating int "
                            f"from float tokens not recognised: "
                            f"{[fmt(c) for c in deciding]}")
    pv, pwhy = _probe_verdict(prog, "set_config")
    if pv is False:
        ctx.ob("C18.2", f, False, pwhy, key="C18.2:set-number-types")
    elif not ok and pv is True:
        ctx.ob("C18.2", f, True,
               "set: sample tokens (integral, fractional, exponent, signed, "
               "zero, words) are stored as int / float / str by their "
               "numeric value (evaluated through the helpers)",
               key="C18.2:set-number-types")
    elif not ok and pv is None and not ({"int", "float", "str"} <= kinds):
        ctx.undecidable("C18.2", f, f"set: token conversion not recognised "
                        f"({pwhy})")
    else:
        ctx.ob("C18.2", f, ok,
               "set: numeric tokens become int (integral) or float, others "
               "stay strings" if ok else
               f"set: token conversion yields only {sorted(kinds)}",
               key="C18.2:set-number-types")


TOKEN_SAMPLES = (("abc", "abc"), ("2.5", 2.5), ("3", 3), ("3.0", 3),
                 ("1e3", 1000), ("-4", -4), ("-0.5", -0.5), ("1e-3", 1e-3),
                 ("1.4036E9", 1403600000), (".5", 0.5), ("x1", "x1"),
                 ("0", 0), ("0.0", 0), ("00", 0))
_PROBES = {}


def _token_probe(prog, fname: str):
    """What does `set` / `generate` store for a value token?  The function
    is interpreted with the small helpers of main_config looked through; the
    stored alternatives and their conditions are then evaluated for sample
    tokens (lib.const_eval; a try around float(token) raises exactly for the
    non-numeric samples).  {token: [stored values]} — None for a token where
    an alternative cannot be evaluated — or None if the token is not found."""
    key = (id(prog), fname)
    if key in _PROBES:
        return _PROBES[key]
    from ..lib import const_eval, _NoValue
    ENTRY = ("set_config", "generate", "main", "merge_json_union", "show",
             "finalize_values", "reset", "log_info_dict_json")
    g = prog.func(MC + fname)
    it = Interp(prog, inline=lambda f: f.module.name == "evo.main_config"
                and f.cls is None and f.name not in ENTRY, max_depth=4)
    r = it.run(g)
    alts = []

    def alternatives(t: T, cond: T):
        if t.op == "ite":
            yield from alternatives(t.args[1], tm.mk_and(cond, t.args[0]))
            yield from alternatives(t.args[2],
                                    tm.mk_and(cond, tm.mk_not(t.args[0])))
        else:
            yield t, cond
    for e in r.of_kind("call"):
        if e.data.get("mutates_recv") and e.data["name"] == ".append" and \
                e.data["args"]:
            alts.extend(alternatives(e.data["args"][0], e.live))
    for e in r.of_kind("setitem"):
        if e.depth == 0:
            for x in e.data["value"].walk():
                if x.op == "comp" and x.args[0] == "list":
                    alts.extend(alternatives(x.args[1], tm.mk_and(
                        e.live, *x.args[3])))
    floats = [e for e in r.calls("builtins.float") if e.data["args"]]
    leaves = [a for a, _ in alts]
    cands = []
    for e in floats:
        v = e.data["args"][0]
        if any(v is l for l in leaves) and not any(v is c for c in cands):
            cands.append(v)
    if len(cands) != 1:
        _PROBES[key] = None
        return None
    V = cands[0]
    tids = {tid for e in floats if e.data["args"][0] is V
            for tid, _ in e.tries}
    out = {}
    for tok, _ in TOKEN_SAMPLES:
        try:
            float(tok)
            numeric = True
        except ValueError:
            numeric = False

        def assign(a: T):
            if a.op == "exc":
                return (not numeric) if a.args[1] in tids else None
            if a.op == "iter":
                return True
            if not any(x is V for x in a.walk()):
                return None
            try:
                return bool(const_eval(tm.deep_select(a, assign_exc),
                                       {V: tok}))
            except _NoValue:
                return None

        def assign_exc(a: T):
            if a.op == "exc" and a.args[1] in tids:
                return not numeric
            return None
        vals = []
        for a, cond in alts:
            if not any(x is V for x in a.walk()) and not any(
                    x is V for x in cond.walk()):
                continue
            if tm.fold(cond, assign) is False:
                continue
            try:
                vals.append(const_eval(tm.deep_select(a, assign), {V: tok}))
            except _NoValue:
                vals = None
                break
        out[tok] = vals
    _PROBES[key] = out
    return out


def _probe_verdict(prog, fname: str):
    """(True, '') if every sample token is stored as the number / string it
    denotes; (False, why) for a definite deviation; (None, why) otherwise"""
    pr = _token_probe(prog, fname)
    if pr is None:
        return None, "value token not identified"
    und = [t for t, v in pr.items() if not v]
    for tok, want in TOKEN_SAMPLES:
        for got in pr.get(tok) or ():
            if type(got) is not type(want) or got != want:
                return False, (f"{fname}: the token {tok!r} is stored as "
                               f"{got!r} ({type(got).__name__}), expected "
                               f"{want!r} ({type(want).__name__})")
    if und:
        return None, f"samples not evaluated: {und}"
    return True, ""


def _is_number(ctx, prog):
    """C18.2 / C18.6: `set` and `generate` turn a value token into a number
    exactly when is_number() says so; argparse converts the same token with
    float() (type=float options). 'The generated config has the effect of
    the arguments' therefore needs is_number to be "float() accepts it":
    decided by the conversion itself, not by the spelling of the token
    (1e-3, 1.4036E9, .5 are floats for argparse)."""
    if prog.functions.get(MC + "is_number") is None:
        # the test was folded into another helper (a parse that returns the
        # value or None ...): what counts is that tokens float() accepts are
        # stored as numbers by both commands — decided on sample tokens
        for fname in ("set_config", "generate"):
            pv, pwhy = _probe_verdict(prog, fname)
            site = prog.func(MC + fname)
            if pv is None:
                ctx.undecidable("C18.2", site, f"is_number is gone and the "
                                f"token handling of {fname} is not decided "
                                f"({pwhy})")
            else:
                ctx.ob("C18.2", site, pv,
                       f"{fname}: every sample token float() accepts (1e-3, "
                       f"1.4036E9, .5, ...) is stored as a number, words "
                       f"stay strings" if pv else pwhy,
                       key="C18.2:is-number")
        return
    f = prog.func(MC + "is_number")
    tok = tm.param(f.params[0])
    r = Interp(prog).run(f)
    conv = [e for e in r.calls("builtins.float")
            if e.data["args"] and e.data["args"][0] is tok and e.tries]
    trues = [(v, l) for v, l in r.returns if tm.is_const(v, True)]
    falses = [(v, l) for v, l in r.returns if tm.is_const(v, False)]
    lexical = [x for v, l in r.returns for t in (v, l) for x in t.walk()
               if is_call_to(x, ".isdigit", ".isnumeric", ".isdecimal",
                             ".replace", ".count", ".find", ".lstrip",
                             ".strip", "re.match", "re.fullmatch",
                             "re.search") or
               (x.op == "sub" and x.args[0] is tok)]
    by_float = bool(conv) and len(trues) >= 1 and len(falses) >= 1 and \
        all(any(a.op == "exc" and "ValueError" in str(a.args[0])
                for a in tm.atoms(l)) for _, l in falses) and \
        not any(a.op == "exc" for _, l in trues for a in tm.atoms(l)) and \
        len(trues) + len(falses) == len(r.returns)
    if by_float and not lexical:
        ctx.ob("C18.2", f, True,
               "is_number(token) = float(token) succeeds — the test argparse "
               "itself applies to float options", key="C18.2:is-number")
    elif lexical and not r.calls("builtins.float"):
        ctx.ob("C18.2", f, False,
               f"is_number decides by the spelling of the token "
               f"({fmt(lexical[0])[:60]}), not by float(token): tokens such "
               f"as 1e-3 or 1.4036E9 that argparse accepts for float options "
               f"are stored as strings by set / generate",
               key="C18.2:is-number")
    else:
        ctx.undecidable("C18.2", f, "is_number: neither a float() "
                        "conversion attempt nor a lexical test recognised "
                        "(unknown idiom)")


def _finalize(ctx, prog):
    f = prog.func(MC + "finalize_values")
    cfgk = tm.sub(tm.param("config"), tm.param("key"))
    vals = tm.param("values")

    def run(is_bool, is_list):
        def assume(t: T):
            if is_call_to(t, "builtins.isinstance") and t.args[1][0] is cfgk:
                ty = t.args[1][1]
                if ty is tm.glob("builtins.bool"):
                    return is_bool
                if ty is tm.glob("builtins.list"):
                    return is_list
            if t.op == "cmp" and t.args[1] is tm.param("key"):
                return False          # not the seaborn special case
            if t.op == "cmp" and is_call_to(t.args[1], "builtins.len") and \
                    tm.is_const(t.args[2], 0):
                return False          # values given
            if t is vals:
                return True           # values given (truthiness spelling)
            return None
        return Interp(prog, assume=assume).run(f)
    r = run(True, False)
    rets = [v for v, l in r.returns if not tm.is_const(l, False)]
    # decided by evaluation on sample tokens where the function can be
    # evaluated (whatever the spelling of the word tests): the last token
    # 'true' / 'false' in any case gives that value, every other token (also
    # a non-string) toggles the current value
    from ..lib import const_eval
    samples = [("true", True), ("True", True), ("TRUE", True),
               ("false", False), ("False", False), ("FALSE", False),
               ("yes", None), ("1", None), ("", None), (1, None),
               (0.5, None), ("none", None), ("[]", None)]
    sampled, why_s = True, ""
    try:
        for tok, want_ in samples:
            for old in (True, False):
                for vv in ((tok,), ("zzz", tok)):
                    env = {vals: vv, cfgk: old,
                           tm.sub(vals, const(-1)): vv[-1],
                           tm.sub(vals, const(0)): vv[0]}
                    got = const_eval(r.ret, env)
                    exp = want_ if want_ is not None else (not old)
                    if got is not exp and sampled:
                        sampled = False
                        why_s = (f"values={list(vv)!r} with the current "
                                 f"value {old} gives {got!r}, expected "
                                 f"{exp!r}")
        evaluated = True
    except Exception:
        evaluated = False
    if evaluated:
        ctx.ob("C18.2", f, sampled,
               "boolean parameters stay boolean: explicit true/false (any "
               "case) or toggle — evaluated on sample tokens" if sampled else
               f"boolean parameters: {why_s}", key="C18.2:bool")
        ctx.ob("C18.2", f, sampled,
               "boolean parameters: 'false' -> False, 'true' -> True, any "
               "other token toggles the current value" if sampled else
               f"boolean parameters: {why_s}", key="C18.2:bool-words")
    else:
        _finalize_bool_shapes(ctx, f, r, rets, cfgk)
    _finalize_rest(ctx, f, run, vals)


def _finalize_bool_shapes(ctx, f, r, rets, cfgk):
    def bool_table(v: T):
        """{'false': False, 'true': True, ...} if v is a lookup in a literal
        word table whose values are all booleans"""
        if v.op != "sub":
            return None
        d = v.args[0]
        while d.op == "named":
            d = d.args[1]
        if d.op != "dict" or not all(
                tm.is_const(k) and tm.is_const(x) and
                isinstance(x.args[1], bool) for k, x in d.args):
            return None
        return {k.args[1]: x.args[1] for k, x in d.args}
    ok = bool(rets) and all(
        tm.is_const(v, True) or tm.is_const(v, False) or
        (v.op in ("not", "unop") and v.args[-1] is cfgk) or
        bool_table(v) is not None for v in rets)
    ctx.ob("C18.2", f, ok,
           "boolean parameters stay boolean: explicit true/false or toggle"
           if ok else f"boolean branch can return "
                      f"{[fmt(v) for v in rets]}",
           key="C18.2:bool", returns=[fmt(v) for v in rets],
           evidence=not any(_opaque_result(v) for v in rets))
    # ... and the explicit words map to their own value: decision table of
    # the boolean branch over the atoms token == 'false' / token == 'true'
    live_rets = [(v, l) for v, l in r.returns if not tm.is_const(l, False)]
    atoms_ = {a for _, l in live_rets for a in tm.atoms(l)}
    word = {}
    flipped = set()
    for a in atoms_:
        if a.op == "cmp" and a.args[0] in ("Eq", "NotEq"):
            for x, y in ((a.args[1], a.args[2]), (a.args[2], a.args[1])):
                if tm.is_const(y) and y.args[1] in ("false", "true") and \
                        is_call_to(x, ".lower"):
                    word[y.args[1]] = a
                    if a.args[0] == "NotEq":
                        flipped.add(y.args[1])
    tables = [bool_table(v) for v, _ in live_rets
              if bool_table(v) is not None]
    if tables:
        tb = tables[0]
        okt = tb.get("false") is False and tb.get("true") is True and \
            any(v.op in ("not", "unop") and v.args[-1] is cfgk
                for v, _ in live_rets)
        ctx.ob("C18.2", f, okt,
               "boolean parameters: word table maps 'false' -> False, "
               "'true' -> True; any other token toggles the current value"
               if okt else
               f"boolean parameters: word table is {tb} / no toggle branch",
               key="C18.2:bool-words")
    elif set(word) != {"false", "true"}:
        ctx.unrecognised("C18.2", f, f"boolean branch: tests for the words "
                         f"'true' / 'false' not recognised "
                         f"({sorted(word)})", key="C18.2:bool-words")
    else:
        def leaf(is_false, is_true):
            def env(t):
                if t is word["false"]:
                    return is_false != ("false" in flipped)
                if t is word["true"]:
                    return is_true != ("true" in flipped)
                if is_call_to(t, "builtins.isinstance"):
                    return True          # the token is a string
                return None
            hit = [v for v, l in live_rets if tm.fold(l, env) is True]
            return hit[0] if len(hit) == 1 else None
        table = {("false",): leaf(True, False), ("true",): leaf(False, True),
                 ("other",): leaf(False, False)}
        ok = tm.is_const(table[("false",)], False) and \
            tm.is_const(table[("true",)], True) and \
            table[("other",)] is not None and \
            table[("other",)].op in ("not", "unop") and \
            table[("other",)].args[-1] is cfgk
        ctx.ob("C18.2", f, bool(ok),
               "boolean parameters: 'false' -> False, 'true' -> True, any "
               "other token toggles the current value" if ok else
               f"boolean parameters: token table is "
               f"{ {k[0]: fmt(v) if v is not None else '?' for k, v in table.items()} }"
               f" — expected false -> False, true -> True, other -> "
               f"not current", key="C18.2:bool-words")


def _opaque_result(v: T) -> bool:
    """the returned value is the result of a call this analysis cannot read
    (a function taken from a registry, `next(...)` over a table filled at
    import time): no evidence about what comes back"""
    return any(x.op == "call" and (
        x.args[0].op in ("call", "sub", "elem", "loopvar", "loopout", "ite")
        or tm.callee_name(x) == "builtins.next") for x in v.walk())


def _finalize_rest(ctx, f, run, vals):
    r = run(False, True)
    rets = [v for v, l in r.returns if not tm.is_const(l, False)]
    # (a conditional expression returns either of its alternatives)
    rets = [a for v in rets for a in tm.strip_ite(v)]
    ok = bool(rets) and all(v is vals or v is T("list") for v in rets)
    ctx.ob("C18.2", f, ok,
           "list parameters stay lists" if ok else
           f"list branch can return {[fmt(v) for v in rets]}",
           key="C18.2:list", returns=[fmt(v) for v in rets],
           evidence=not any(_opaque_result(v) for v in rets))
    r = run(False, False)
    rets = [v for v, l in r.returns if not tm.is_const(l, False)]
    ok = bool(rets) and all(v is tm.sub(vals, const(0)) for v in rets)
    ctx.ob("C18.2", f, ok,
           "scalar parameters get exactly one token" if ok else
           f"scalar branch can return {[fmt(v) for v in rets]}",
           key="C18.2:scalar", returns=[fmt(v) for v in rets],
           evidence=not any(_opaque_result(v) for v in rets))


def _reset(ctx, prog):
    f = prog.func(ST + "reset")
    r = Interp(prog).run(f)
    DEF = [x for e in r.events for x in (e.data.get("value") or tm.NONE)
           .walk() if x.op in ("global", "named") and
           x.args[0].endswith("DEFAULT_SETTINGS_DICT")]
    stores = keyed_writes(r)
    ok = False
    sw = False      # the store iterates the subset itself: its guard is read
    if len(stores) == 1 and stores[0][0] is not None:
        k, v, guard, e = stores[0]
        sw = k.op == "elem" and k.args[0] is tm.param("parameter_subset")
        from_default = v.op == "sub" and v.args[1] is k and \
            v.args[0].op in ("global", "named") and \
            v.args[0].args[0].endswith("DEFAULT_SETTINGS_DICT")
        in_subset = k.op == "elem" and k.args[0] is tm.param(
            "parameter_subset")
        mem = [a for a in tm.atoms(guard) if a.op == "cmp" and
               a.args[0] in ("In", "NotIn") and a.args[1] is k]
        guarded = bool(mem) and tm.fold(
            guard, lambda t: (mem[0].args[0] == "NotIn") if t is mem[0]
            else None) is False
        ok = from_default and in_subset and guarded
    ctx.ob("C18.3", f, ok,
           "reset(subset): only keys of the subset that exist in the "
           "defaults are written, each from DEFAULT_SETTINGS_DICT" if ok
           else "reset(subset) does not restore exactly the named keys from "
                "the defaults", key="C18.3:subset", evidence=bool(sw))
    w = [e for e in r.of_kind("call")
         if (e.data.get("name") or "").endswith("write_to_json_file")]
    full = [e for e in w if any(
        x.op in ("global", "named") and
        x.args[0].endswith("DEFAULT_SETTINGS_DICT")
        for x in (e.data["bound"] or {}).get("dictionary", tm.NONE).walk())
        and (e.data["bound"] or {}).get("dictionary").op in ("global",
                                                             "named")]
    ok = len(full) == 1 and any(
        a.op == "cmp" and a.args[1] is tm.param("parameter_subset")
        for a in tm.atoms(full[0].live))
    if not ok:
        # one write for both cases: the written dict is a conditional whose
        # alternative under `subset is None / file missing` is the defaults
        for e in w:
            d_ = (e.data["bound"] or {}).get("dictionary")
            alts_ = tm.strip_ite(d_) if d_ is not None else []
            if len(alts_) > 1 and any(
                    a.op in ("global", "named") and
                    str(a.args[0]).endswith("DEFAULT_SETTINGS_DICT")
                    for a in alts_) and d_.op == "ite" and any(
                    a.op == "cmp" and a.args[1] is
                    tm.param("parameter_subset")
                    for a in tm.atoms(d_.args[0])):
                ok = True
    ctx.ob("C18.3", f, ok,
           "reset(): writes exactly DEFAULT_SETTINGS_DICT" if ok else
           "full reset does not write the defaults as they are",
           key="C18.3:full",
           # evidence: a write of something that is not the defaults object
           # under the full-reset condition; no recognisable write at all is
           # not evidence
           evidence=bool(w) and all(
               ((e.data["bound"] or {}).get("dictionary") or tm.NONE).op
               not in ("ite", "loopout", "named", "global") for e in w))


def _upgrade_sources(prog):
    """what update_if_outdated writes, as dict sources by priority (merge
    helper looked through): (verdict, message)"""
    from ..lib import dict_priority
    f = prog.func(ST + "update_if_outdated")
    it = Interp(prog, inline=lambda fn: fn.qualname == ST + "merge_dicts",
                max_depth=3)
    r = it.run(f)
    wr = [e for e in r.of_kind("call")
          if (e.data.get("name") or "").endswith("write_to_json_file")
          and not tm.is_const(e.live, False)]
    if len(wr) != 1:
        return None, "settings write not found"
    d = (wr[0].data["bound"] or {}).get("dictionary")
    pr = dict_priority(d, Interp.unname) if d is not None else None
    if pr is None or len(pr) != 2:
        return None, f"written value {fmt(d)[:80]}"

    def kind(x: T):
        if any(is_call_to(y, "json.loads", "json.load") for y in x.walk()):
            return "user"
        y = x
        while y.op == "named":
            y = T("global", y.args[0])
        if y.op == "global" and y.args[0].endswith("DEFAULT_SETTINGS_DICT"):
            return "defaults"
        return "?"
    ks = [kind(x) for x in pr]
    if ks == ["user", "defaults"]:
        return True, ""
    if ks == ["defaults", "user"]:
        return False, ("upgrade: the defaults take priority over the loaded "
                       "settings — every value the user has set is reset")
    return None, f"sources {[fmt(x)[:40] for x in pr]}"


def _guarded_missing_keys(ctx, prog, f, r) -> bool:
    """the upgrade without merge_dicts: the loaded settings are updated with
    (key, default) for exactly the keys of the defaults that they lack, and
    written when there is such a key.  Skipping the write when *no key is
    missing* is sound; a comparison of the two dictionaries' sizes is not (a
    file with obsolete extra keys is as long as the template and still lacks
    the new ones).  True if the idiom was recognised and judged."""
    def defaults(x: T) -> bool:
        while x.op == "named":
            x = T("global", x.args[0])
        return x.op == "global" and x.args[0].endswith(
            "DEFAULT_SETTINGS_DICT")

    def loaded(x: T) -> bool:
        return any(is_call_to(y, "json.loads", "json.load") for y in x.walk())
    wr = [e for e in r.of_kind("call")
          if (e.data.get("name") or "").endswith("write_to_json_file")]
    if len(wr) != 1:
        return False
    d = (wr[0].data["bound"] or {}).get("dictionary")
    if d is None or not (d.op == "mut" and d.args[1] == "update" and
                         len(d.args[2]) == 1 and loaded(d.args[0])):
        return False
    arg = Interp.unname(d.args[2][0])
    if not (arg.op == "comp" and len(arg.args[2]) == 1 and not arg.args[3]):
        return False
    K, lid = arg.args[2][0]
    el = T("elem", K, lid)
    pair = arg.args[1]
    ok_pair = pair.op == "tuple" and len(pair.args) == 2 and \
        pair.args[0] is el and pair.args[1].op == "sub" and \
        defaults(pair.args[1].args[0]) and pair.args[1].args[1] is el
    Ku = Interp.unname(K)
    ok_keys = Ku.op == "binop" and Ku.args[0] == "Sub" and \
        is_call_to(Ku.args[1], ".keys") and \
        defaults(tm.method_recv(Ku.args[1])) and \
        is_call_to(Ku.args[2], ".keys") and loaded(tm.method_recv(Ku.args[2]))
    ok = ok_pair and ok_keys
    ctx.ob("C18.4", wr[0], ok,
           "upgrade: the loaded settings get (key, default) for exactly the "
           "keys of the defaults they lack" if ok else
           f"upgrade: the loaded settings are updated with {fmt(arg)[:100]}",
           key="C18.4:upgrade-call")
    ctx.ob("C18.4", wr[0], ok, "upgrade: only absent keys are added (user "
           "values untouched)", key="C18.4:soft-merge", nontrivial=False)
    # when is the write skipped?
    import re as _re
    ats = [a for a in tm.atoms(wr[0].live) if a.op != "exc" and not any(
        (x.op in ("global", "named") and
         str(x.args[0]).endswith("__version__")) or
        (tm.is_const(x) and isinstance(x.args[1], str) and
         _re.fullmatch(r"v?\d+\.\d+(\.\w+)*", x.args[1]))
        for x in a.walk())]
    sizes = [a for a in ats if a.op == "cmp" and sum(
        1 for x in (a.args[1], a.args[2]) if is_call_to(x, "builtins.len"))
        == 2]
    nokeys = [a for a in ats if a is K or Interp.unname(a) is Ku or (
        a.op == "cmp" and any(x is K for x in a.walk()))]
    rest = [a for a in ats if a not in sizes and a not in nokeys]
    if sizes:
        ctx.ob("C18.4", wr[0], False,
               f"upgrade: the merged settings are written only when "
               f"{fmt(sizes[0])[:80]} — a settings file with obsolete or "
               f"foreign keys is as long as the template and never gets the "
               f"new default keys", key="C18.4:upgrade-written")
    elif rest:
        ctx.undecidable("C18.4", wr[0], f"upgrade: write of the settings "
                        f"depends on {fmt(rest[0])[:80]}")
    else:
        ctx.ob("C18.4", wr[0], True,
               "upgrade: the updated settings are written whenever a default "
               "key is missing", key="C18.4:upgrade-written")
    return True


def _upgrade(ctx, prog):
    f = prog.func(ST + "update_if_outdated")
    g0 = prog.func(ST + "merge_dicts")
    if g0.params[:3] != ["first", "second", "soft"]:
        # the merge helper has another interface: the upgrade is judged by
        # what it writes — the user's values first, the defaults for the
        # keys that are missing
        v, why = _upgrade_sources(prog)
        if v is None:
            ctx.undecidable("C18.4", f, f"upgrade through the changed "
                            f"merge_dicts not decided ({why})")
        else:
            for key in ("upgrade-call", "soft-merge", "upgrade-written"):
                ctx.ob("C18.4", f, v,
                       "upgrade: the written settings are the user's file "
                       "with the defaults filled in for missing keys (user "
                       "values first)" if v else why, key=f"C18.4:{key}")
        return
    r = Interp(prog).run(f)
    # whatever the merge idiom: a decision taken on the *sizes* of the loaded
    # settings and of the defaults says nothing about missing keys
    for e in r.of_kind("call"):
        if not (e.data.get("name") or "").endswith("write_to_json_file"):
            continue
        for a in tm.atoms(e.live):
            if a.op == "cmp" and all(
                    is_call_to(x, "builtins.len") for x in
                    (a.args[1], a.args[2])):
                srcs = [fmt(x) for x in (a.args[1], a.args[2])]
                if any("json.load" in s_ for s_ in srcs) and any(
                        "DEFAULT_SETTINGS" in s_ for s_ in srcs):
                    ctx.ob("C18.4", e, False,
                           f"upgrade: the settings are only completed / "
                           f"written when {fmt(a)[:90]} — a settings file "
                           f"with obsolete or foreign keys is as long as "
                           f"the template and never gets the new default "
                           f"keys", key="C18.4:upgrade-written")
    m = r.calls(ST + "merge_dicts")
    if not m:
        gm = _guarded_missing_keys(ctx, prog, f, r)
        ctx.require(gm, "update_if_outdated: merge_dicts call not found")
        return
    ctx.require(len(m) == 1, "update_if_outdated: merge_dicts call not found")
    b = m[0].data["bound"]
    first, second, soft = b.get("first"), b.get("second"), b.get("soft")
    ok = first is not None and any(
        is_call_to(x, "json.loads", "json.load") for x in first.walk()) and \
        second is not None and second.op in ("global", "named") and \
        second.args[0].endswith("DEFAULT_SETTINGS_DICT") and \
        tm.is_const(soft, True)
    ctx.ob("C18.4", m[0], ok,
           "upgrade: merge_dicts(user settings, defaults, soft=True)" if ok
           else f"upgrade merges ({fmt(first)[:60]}, {fmt(second)[:60]}, "
                f"soft={fmt(soft)})", key="C18.4:upgrade-call")
    # "without changing any value the user has set": on the way to the
    # merge nothing stores into the loaded settings, except under a test
    # that the key is missing (helpers of the settings module looked through)
    loaded = [x for x in (first.walk() if first is not None else [])
              if is_call_to(x, "json.loads", "json.load")]
    stores = []
    for e in r.of_kind("setitem", all_depths=True) if True else []:
        base = e.data["base"]
        if loaded and any(z is loaded[0] for z in base.walk()):
            missing = any(
                a.op == "cmp" and a.args[0] in ("NotIn", "In") and
                a.args[1] is e.data["index"]
                for a in tm.atoms(e.live))
            if not (missing and tm.fold(
                    e.live, lambda a: True if (
                        a.op == "cmp" and a.args[0] == "In" and
                        a.args[1] is e.data["index"]) else (
                        False if (a.op == "cmp" and a.args[0] == "NotIn"
                                  and a.args[1] is e.data["index"])
                        else None)) is False):
                stores.append(e)
    ctx.ob("C18.4", stores[0] if stores else f, not stores,
           "upgrade: no value of the loaded settings is overwritten before "
           "the soft merge" if not stores else
           f"upgrade: {fmt(stores[0].data['base'])[:50]}["
           f"{fmt(stores[0].data['index'])[:30]}] is overwritten at "
           f"{stores[0].where} for keys the user's file already has — a "
           f"value the user has set is changed by the upgrade",
           key="C18.4:upgrade-keeps-user-values", nontrivial=bool(stores))
    wr = [e for e in r.of_kind("call")
          if (e.data.get("name") or "").endswith("write_to_json_file")]
    ok = bool(wr) and (wr[0].data["bound"] or {}).get("dictionary") is \
        m[0].data["result"]
    e2e = None
    if not ok:
        # the helper may merge in place and return nothing: judged by the
        # sources of what is written, helper looked through
        e2e, why_ = _upgrade_sources(prog)
        never = False
        if e2e is None and not wr:
            # no settings writer is called at all. With every helper looked
            # through: does any file-creating call get the settings path?
            deep = Interp(prog, max_depth=4).run(f)
            sinks = list(find_sinks(deep)) + [
                (e_, e_.data["args"][0], "write_atomic")
                for e_ in deep.of_kind("call")
                if (e_.data.get("name") or "").endswith(
                    ("write_atomic", "write_to_json_file"))
                and e_.data["args"]]
            to_settings = [s_ for s_ in sinks if any(
                x.op in ("global", "named") and
                str(x.args[0]).endswith("DEFAULT_PATH")
                for x in s_[1].walk())]
            to_version = [s_ for s_ in sinks if any(
                x.op in ("global", "named") and
                str(x.args[0]).endswith("USER_ASSETS_VERSION_PATH")
                for x in s_[1].walk())]
            opaque = [s_ for s_ in sinks if s_ not in to_settings and
                      s_ not in to_version]
            never = bool(to_version) and not to_settings and not opaque
        if never:
            ctx.ob("C18.4", m[0], False,
                   "upgrade: the merge result is computed and the new "
                   "version is recorded, but nothing writes the settings "
                   "file — the missing default keys are never added and the "
                   "recorded version keeps the upgrade from running again",
                   key="C18.4:upgrade-written")
        elif e2e is None:
            ctx.undecidable("C18.4", wr[0] if wr else f, f"upgrade: what is "
                            f"written is not the merge call's result and "
                            f"its sources are not decided ({why_})")
        else:
            ctx.ob("C18.4", wr[0] if wr else f, e2e,
                   "upgrade: the written dict is the user's settings with "
                   "the defaults filled in (merged in place)" if e2e
                   else why_, key="C18.4:upgrade-written")
    else:
        ctx.ob("C18.4", wr[0] if wr else f, ok,
               "upgrade: the merged dict is what gets written",
               key="C18.4:upgrade-written")
    g = prog.func(ST + "merge_dicts")
    rg = Interp(prog).run(g, {"soft": const(True)})
    fp, sp = tm.param("first"), tm.param("second")
    verdict, why = _restricted_writes(rg, fp, sp, present=False)
    if verdict is None:
        ctx.undecidable("C18.4", g, f"soft merge: {why} (unknown idiom)")
    else:
        ctx.ob("C18.4", g, verdict,
               "soft merge adds exactly the keys absent from the first dict "
               "(`k not in first`), with the second dict's values"
               if verdict else
               f"soft merge is not restricted to absent keys: {why}",
               key="C18.4:soft-merge")
    rg = Interp(prog).run(g)
    ok = all(root_object(a) is fp for a in tm.strip_ite(rg.ret))
    if not ok and rg.ret is tm.NONE and e2e is True:
        ctx.ob("C18.4", g, True, "merge_dicts merges into its first "
               "argument and returns nothing; the callers use the merged "
               "first argument", key="C18.4:returns-first", nontrivial=False)
    else:
        ctx.ob("C18.4", g, ok, "merge_dicts returns its (updated) first "
               "argument", key="C18.4:returns-first", nontrivial=False)


def _restricted_writes(res, target: T, source: T, present: bool):
    """Are the keyed writes into `target` exactly `target[k] = source[k]` for
    the keys k of `source` that are (present=True) / are not (present=False)
    already keys of `target`?  Decided per write by cases on the membership
    of its key: (True, '') / (False, what deviates) / (None, what is not
    understood). Accepts item stores in a loop, update() with a dict / pair
    comprehension, setdefault() and key-set intersections as iteration
    space."""
    ws = keyed_writes(res, lambda b_: root_object(b_) is target)
    if not ws:
        return (None if present else False), "no update of the first dict"
    items = tm.call(tm.attr(source, "items"), (), ())
    skeys = tm.call(tm.attr(source, "keys"), (), ())
    tkeys = tm.call(tm.attr(target, "keys"), (), ())
    covered = False
    for k, v, guard, e in ws:
        if k is None:
            # update(whole dict): every key of it, present or not
            return False, (f"{fmt(v)[:60]} is merged as a whole — keys are "
                           f"written whether or not they exist")
        # where the key ranges: an element of source.items() / source /
        # source.keys() / an intersection with the target's keys
        rng = None
        inter = False
        base = k.args[0] if k.op == "sub" and tm.is_const(k.args[1], 0) \
            else k
        if base.op == "elem":
            it = base.args[0]
            if it is items and k is not base:
                rng = "items"
            elif (it is source or it is skeys) and k is base:
                rng = "keys"
            elif it.op == "binop" and it.args[0] == "BitAnd" and \
                    {it.args[1], it.args[2]} in ({skeys, tkeys},
                                                 {skeys, target},
                                                 {source, tkeys}) and \
                    k is base:
                rng, inter = "keys", True
        if rng is None:
            return None, f"key {fmt(k)[:60]} of the write at {e.where}"
        want_v = tm.sub(base, const(1)) if rng == "items" else \
            tm.sub(source, k)
        if v is not want_v:
            return None, (f"value {fmt(v)[:60]} written at {e.where} is not "
                          f"the second dict's value for that key")

        def member(a: T):
            if a.op == "cmp" and a.args[0] in ("In", "NotIn") and \
                    a.args[1] is k and (a.args[2] is target or
                                        a.args[2] is tkeys or
                                        root_object(a.args[2]) is target):
                return a.args[0]
            return None
        tests = [a for a in tm.atoms(guard) if member(a)]

        def case(is_in: bool):
            return tm.fold(guard, lambda a: (is_in == (member(a) == "In"))
                           if member(a) else (True if a.op == "iter"
                                              else None))
        if inter:
            wrong, right = (False if present else True), present
        else:
            wrong = case(not present)    # the case that must not be written
            right = case(present)        # the case that must be written
        if wrong is not False:
            if not tests and not inter:
                others = [a for a in tm.atoms(guard) if a.op != "iter" and
                          any(x is k or x is target for x in a.walk())]
                if others:
                    return False, (
                        f"keys are written when `{fmt(others[0])}` — not a "
                        f"membership test of the key (a truthiness test "
                        f"treats values such as False, 0, '' or [] as "
                        f"missing)")
                return False, (f"the write at {e.where} is not conditioned "
                               f"on the key being "
                               f"{'present' if present else 'absent'}")
            if wrong is True:
                return False, (f"the write at {e.where} happens for keys "
                               f"that are "
                               f"{'absent' if present else 'present'}")
            return None, f"guard {fmt(guard)[:80]} of the write at {e.where}"
        if right is True:
            covered = True
    if not covered:
        return None, "no write found that covers every qualifying key"
    return True, ""


def _lock(ctx, prog):
    f = prog.func(ST + "SettingsContainer.__setattr__")
    r = Interp(prog).run(f)
    selfp, attr = tm.param("self"), tm.param("attr")
    raises = [e for e in r.of_kind("raise")
              if "SettingsException" in (e.data.get("exc_name") or "")]
    stores = r.of_kind("setitem")
    ok = False
    if raises and stores:
        # judged in the four worlds (key present?, locked?): the raise is
        # taken exactly for a new key on a locked container, the store in
        # the three other worlds — whichever way round the test is written
        def world(present, lock):
            def env(a):
                if is_call_to(a, ".locked"):
                    return lock
                if a.op == "cmp" and a.args[0] in ("In", "NotIn") and \
                        a.args[1] is attr and a.args[2] is selfp:
                    return present == (a.args[0] == "In")
                return None
            return env
        ok = True
        for present in (True, False):
            for lock in (True, False):
                refuse = (not present) and lock
                rv = [tm.fold(e.live, world(present, lock)) for e in raises]
                sv = [tm.fold(e.live, world(present, lock)) for e in stores]
                if refuse:
                    ok = ok and any(x is True for x in rv) and \
                        all(x is False for x in sv)
                else:
                    ok = ok and all(x is False for x in rv) and \
                        any(x is True for x in sv)
    ctx.ob("C18.5", f, ok,
           "locked container: adding a new key raises, nothing is stored"
           if ok else "the settings lock does not prevent new keys",
           key="C18.5:setattr")
    g = prog.func(ST + "SettingsContainer.update_existing_keys")
    rg = Interp(prog).run(g)
    verdict, why = _restricted_writes(rg, tm.param(g.params[0]),
                                      tm.param(g.params[1]), present=True)
    if verdict is None:
        ctx.undecidable("C18.5", g, f"update_existing_keys: {why} (unknown "
                        f"idiom)")
    else:
        ctx.ob("C18.5", g, verdict,
               "update_existing_keys is restricted to the keys the container "
               "already has" if verdict else
               f"update_existing_keys can add keys: {why}",
               key="C18.5:update-existing")
    h = prog.func(ST + "SettingsContainer.__init__")
    import ast
    d = h.defaults().get("lock")
    ok = isinstance(d, ast.Constant) and d.value is True
    fj = prog.func(ST + "SettingsContainer.from_json_file")
    rj = Interp(prog).run(fj)
    ctor_ok = rj.ret.op == "call" and len(rj.ret.args[1]) == 1 and \
        not rj.ret.args[2]
    ctx.ob("C18.5", h, ok and ctor_ok,
           "SETTINGS is constructed locked (lock defaults to True and "
           "from_json_file does not override it)" if ok and ctor_ok else
           "the loaded settings container is not locked",
           key="C18.5:locked-by-default")


def _top_level_imports(m, mods):
    """evo modules imported when module `m` is imported (statements outside
    function bodies, including those under module-level if / try / class)"""
    out = set()

    def visit(stmts):
        for st in stmts:
            if isinstance(st, (ast.FunctionDef, ast.AsyncFunctionDef)):
                continue
            if isinstance(st, ast.ClassDef):
                visit(st.body)
                continue
            if isinstance(st, ast.Import):
                for a in st.names:
                    out.add(a.name)
            elif isinstance(st, ast.ImportFrom):
                base = st.module or ""
                if st.level:
                    pkg = m.name.rsplit(".", st.level)[0]
                    base = pkg + ("." + base if base else "")
                out.add(base)
                for a in st.names:
                    out.add(base + "." + a.name)
            for fld in ("body", "orelse", "finalbody"):
                sub = getattr(st, fld, None)
                if isinstance(sub, list):
                    visit([x for x in sub if isinstance(x, ast.stmt)])
            for h in getattr(st, "handlers", []) or []:
                visit(h.body)
    visit(m.tree.body)
    return {x for x in out if x in mods}


def _import_time_consumers(mods):
    """modules whose import-time code reads the SETTINGS container (so the
    values current at *import* are what takes effect)"""
    out = {}
    for name, m in mods.items():
        if name == "evo.tools.settings":
            continue              # defines the container
        def import_time(st):
            """the sub-trees of a module-level statement that are evaluated
            when the module is imported"""
            if isinstance(st, (ast.Import, ast.ImportFrom)):
                return
            if isinstance(st, (ast.FunctionDef, ast.AsyncFunctionDef)):
                # default values and decorators, not the body
                a = st.args
                yield from a.defaults
                yield from (d for d in a.kw_defaults if d is not None)
                yield from st.decorator_list
                return
            if isinstance(st, ast.ClassDef):
                yield from st.decorator_list
                yield from st.bases
                for sub in st.body:
                    yield from import_time(sub)
                return
            yield st
        for st in m.tree.body:
            for part in import_time(st):
                for n in ast.walk(part):
                    if (isinstance(n, ast.Name) and n.id == "SETTINGS") or \
                            (isinstance(n, ast.Attribute) and
                             n.attr == "SETTINGS"):
                        out.setdefault(name, getattr(n, "lineno",
                                                     st.lineno))
    return out


def _override_order(ctx, prog):
    """C18.8: '-c overrides matching package settings for that run' — the
    override happens in launch() after the parser module and the main module
    were imported, so no module in their import-time closure may apply
    settings while being imported (evo.tools.plot does: apply_settings at
    module level; it must stay a lazy, function-level import there)."""
    mods = prog.modules
    consumers = _import_time_consumers(mods)
    ctx.require("evo.tools.plot" in consumers, "evo.tools.plot no longer "
                "applies settings at import time (rule instance vanished)")
    hep = prog.func("evo.entry_points.handle_entry_point")
    src = ast.unparse(hep.node)
    ctx.require("import_module" in src and "launch(" in src,
                "handle_entry_point: import-then-launch sequence not found")
    for app in ("ape", "rpe", "res", "traj"):
        roots = [f"evo.main_{app}_parser", f"evo.main_{app}"]
        ctx.require(all(r in mods for r in roots), f"modules of evo_{app} "
                    f"not found")
        seen, todo, via = set(), list(roots), {}
        while todo:
            x = todo.pop()
            if x in seen or x not in mods:
                continue
            seen.add(x)
            parts = x.split(".")
            for k in range(1, len(parts)):
                p_ = ".".join(parts[:k])
                if p_ in mods and p_ not in seen:
                    via.setdefault(p_, x)
                    todo.append(p_)
            for y in _top_level_imports(mods[x], mods):
                via.setdefault(y, x)
                todo.append(y)
        bad = sorted(seen & set(consumers))
        chain = ""
        if bad:
            c, path = bad[0], [bad[0]]
            while c in via and via[c] not in path:
                c = via[c]
                path.append(c)
            chain = " <- ".join(path)
        ctx.ob("C18.8", prog.func(f"evo.main_{app}.run"), not bad,
               f"evo_{app}: no module imported before the -c override "
               f"applies settings at import time ({len(seen)} modules in the "
               f"import-time closure)" if not bad else
               f"evo_{app}: {bad[0]} reads SETTINGS while being imported "
               f"(line {consumers[bad[0]]}) and is now imported at module "
               f"level ({chain}) — i.e. before launch() merges the -c "
               f"config: import-time settings (line width, font, style, "
               f"backend ...) keep their on-disk values for that run",
               key=f"C18.8:{app}:import-order")


def _token_windows(ctx, prog):
    """C18.10: set / generate read, for the parameter at position i, the
    value tokens i+1 .. up to (excluding) the next parameter / option, or to
    the end of the argument list: index arithmetic as integer-linear normal
    forms (so `i + 1 <= len - 1`, `i + 2 <= len`, `i + 1 < len` coincide and
    an off-by-one does not)."""
    from ..lib import linear, linear_cmp
    for fname in ("set_config", "generate"):
        f = prog.func(MC + fname)
        r = Interp(prog).run(f)
        al = tm.param("arg_list")
        n_ = tm.call(tm.glob("builtins.len"), (al,), ())
        loops = r.of_kind("loop")
        outer = [e for e in loops if is_call_to(e.data["iter"],
                                                "builtins.enumerate") and
                 e.data["iter"].args[1] and e.data["iter"].args[1][0] is al]
        if len(outer) != 1:
            ctx.unrecognised("C18.10", f, f"{fname}: loop over "
                             f"enumerate(arg_list) not found",
                             key=f"C18.10:{fname}:not-applied")
            continue
        lid = outer[0].data["lid"]
        idx = T("index", lid)
        inner = [e for e in loops if lid in e.loops and (
            is_call_to(e.data["iter"], "builtins.range") or (
                e.data["iter"].op == "sub" and e.data["iter"].args[0] is al
                and e.data["iter"].args[1].op == "slice"))]
        if len(inner) != 1 or (
                inner[0].data["iter"].op == "call" and
                len(inner[0].data["iter"].args[1]) != 2):
            ctx.unrecognised("C18.10", f, f"{fname}: value-token loop "
                             f"`range(start, stop)` / `arg_list[start:]` not "
                             f"found", key=f"C18.10:{fname}:not-applied")
            continue
        if inner[0].data["iter"].op == "sub":
            lo, hi, st = inner[0].data["iter"].args[1].args
            if st is not tm.NONE or hi is not tm.NONE:
                ctx.unrecognised("C18.10", f, f"{fname}: token slice "
                                 f"{fmt(inner[0].data['iter'])}",
                                 key=f"C18.10:{fname}:not-applied")
                continue
            a, b = (const(0) if lo is tm.NONE else lo), n_
        else:
            a, b = inner[0].data["iter"].args[1]
        la, lb = linear(a), linear(b)
        ok = la == {idx: 1, 1: 1} and lb == {n_: 1}
        show = lambda d: " + ".join(
            (f"{v}" if k == 1 else f"{v}*{fmt(k)}") for k, v in
            (d or {}).items()) or "0"
        ctx.ob("C18.10", inner[0], ok,
               f"{fname}: the value tokens of parameter i are scanned from "
               f"i+1 to the end of the list" if ok else
               f"{fname}: value tokens are scanned over range({show(la)}, "
               f"{show(lb)}) — expected range(i + 1, len(arg_list))",
               key=f"C18.10:{fname}:scan-range")
        # every comparison between the position and the list length must be
        # "a next token exists"
        want = ("le", frozenset({(idx, 1), (n_, -1), (1, 2)}))
        seen = set()
        pos_cmps = []
        for e in r.events:
            pool = list(tm.atoms(e.live))
            v = e.data.get("value")
            if isinstance(v, T):
                pool += [a_ for x in v.walk() if x.op == "ite"
                         for a_ in tm.atoms(x.args[0])]
            for a_ in pool:
                if id(a_) in seen or a_.op != "cmp":
                    continue
                seen.add(id(a_))
                lc = linear_cmp(a_)
                if lc is None:
                    continue
                vars_ = {k for k, _ in lc[1]}
                if idx in vars_ and n_ in vars_:
                    pos_cmps.append((a_, lc))
        neg_want = ("le", frozenset({(idx, -1), (n_, 1), (1, -1)}))
        # i == len - 1 (i never exceeds the last index inside the loop)
        last = frozenset({(idx, 1), (n_, -1), (1, 1)})
        last2 = frozenset({(idx, -1), (n_, 1), (1, -1)})
        okf = (want, neg_want, ("eq", last), ("ne", last), ("eq", last2),
               ("ne", last2))
        subs = set()
        for e in r.events:
            for key in ("value", "live"):
                v = e.data.get(key) if key == "value" else e.live
                if isinstance(v, T):
                    for x in v.walk():
                        if x.op == "sub" and x.args[0] is al and \
                                x.args[1].op != "slice":
                            subs.add(x.args[1])
        # a look-ahead read arg_list[i + 1] needs the test; a scan that is
        # bounded by the list itself (slice / range to len) does not
        lookahead = any(linear(i_) == {idx: 1, 1: 1} for i_ in subs)
        bad = [(a_, lc) for a_, lc in pos_cmps if lc not in okf]
        ok = (bool(pos_cmps) or not lookahead) and not bad
        ctx.ob("C18.10", f, ok,
               (f"{fname}: 'a next token exists' is tested as i + 1 < "
                f"len(arg_list) ({len(pos_cmps)} comparison(s))"
                if pos_cmps else
                f"{fname}: no token is read ahead of the scan, which the "
                f"list itself bounds") if ok else
               f"{fname}: position test "
               f"{fmt(bad[0][0]) if bad else 'missing'} is not "
               f"`i + 1 < len(arg_list)` (off by one: the last value token "
               f"is dropped or the list is over-read)",
               key=f"C18.10:{fname}:next-exists")
        # tokens are addressed at i (the parameter), i+1 (look-ahead) and j
        bad_idx = []
        for i_ in subs:
            li = linear(i_)
            if i_.op == "elem" and i_.args[1] == inner[0].data["lid"]:
                continue
            if i_.op == "elem" and i_.args[1] == lid:
                continue
            if li == {idx: 1, 1: 1}:
                continue
            bad_idx.append(i_)
        ctx.ob("C18.10", f, not bad_idx,
               f"{fname}: tokens are read at i+1 (look-ahead) and at the "
               f"scan position only" if not bad_idx else
               f"{fname}: a token is read at arg_list[{fmt(bad_idx[0])}] — "
               f"neither the look-ahead i+1 nor the scan position",
               key=f"C18.10:{fname}:token-positions")


def _relpath(prog, m: str) -> str:
    mod = prog.modules[m]
    return getattr(mod, "relpath", None) or m.replace(".", "/") + ".py"


def _parser_types(ctx, prog):
    """C18.9: merge_config injects the raw JSON values of a config file into
    the namespace, bypassing argparse. 'A generated config has the same
    effect as passing the arguments directly' therefore needs every option
    to reach the namespace as typed: only int/float/str conversions (which
    JSON round-trips) and standard actions — an enum-valued `type=`, a
    custom Action or a converting callable would only run for command-line
    values."""
    args_ = parser_arguments(prog)
    ctx.require(len(args_) >= 100, f"only {len(args_)} add_argument calls "
                f"found in the parser modules")
    bad = [(m, n, o, parse_time_transform(k)) for m, n, o, k in args_
           if parse_time_transform(k)]
    for m, n, o, why in bad:
        ctx.ob("C18.9", f"{_relpath(prog, m)}:{n.lineno}", False,
               f"{m}: option {o or '?'} is converted while parsing "
               f"({why}); the same option given through a -c config file "
               f"reaches run() unconverted, so a generated config no longer "
               f"has the effect of the command line",
               key=f"C18.9:{m}:{(o or ['?'])[0]}")
    ctx.ob("C18.9", prog.func("evo.entry_points.merge_config"), not bad,
           f"all {len(args_)} options of the four parsers reach the "
           f"namespace as typed (plain int/float/str, standard actions)",
           key="C18.9:all-options", nontrivial=True)


def _merge_config(ctx, prog):
    f = prog.func("evo.entry_points.merge_config")
    r = Interp(prog).run(f)
    args = tm.param("args")
    ups = [e for e in r.of_kind("call") if e.data.get("mutates_recv") and
           e.data["name"] == ".update"]
    ok = False
    cfg = None
    if ups:
        recv = ups[0].data["recv"]
        cfg = ups[0].data["args"][0]
        copy_of_args = is_call_to(recv, ".copy") and is_call_to(
            tm.method_recv(recv), "builtins.vars") and \
            tm.method_recv(recv).args[1][0] is args
        from_file = any(is_call_to(x, "json.loads", "json.load")
                        for x in cfg.walk())
        ok = copy_of_args and from_file
    if not ok:
        # judged by the sources of the dict that becomes the namespace
        # (merge helpers looked through): the file's dict over vars(args)
        from ..lib import dict_priority
        r2 = Interp(prog, inline=lambda fn: fn.qualname == ST +
                    "merge_dicts", max_depth=3).run(f)
        ns2 = [e for e in r2.calls("argparse.Namespace")]
        spread = [v for e in ns2[:1] for k, v in e.data["kwargs"]
                  if k == "**"]
        pr = dict_priority(spread[0], Interp.unname) if spread else None
        ue2 = [e for e in r2.of_kind("call") if (e.data.get("name") or "")
               .endswith("update_existing_keys")]
        if pr is not None and len(pr) == 2:
            is_file = lambda x: any(is_call_to(y, "json.loads", "json.load")
                                    for y in x.walk())
            is_args = lambda x: is_call_to(x, "builtins.vars") and \
                x.args[1] and x.args[1][0] is args
            good = is_file(pr[0]) and is_args(pr[1])
            swapped = is_args(pr[0]) and is_file(pr[1])
            if good or swapped:
                # the file's dict read through a process-lifetime memo
                # (lru_cache / cache) whose key does not depend on the
                # file's content or modification time: a later -c run in the
                # same process gets the values of the file as it *was*
                fsrc = pr[0 if good else 1]
                memos = [x for x in spread[0].walk() if x.op == "named" and
                         str(x.args[0]).startswith("memo:") and
                         is_file(x.args[1])]
                for m_ in memos:
                    keyed = any(is_call_to(y, "os.stat", "os.path.getmtime",
                                           ".stat", "os.fstat")
                                for y in spread[0].walk())
                    if keyed:
                        ctx.undecidable("C18.6", ns2[0], "-c: the config "
                                        "file is read through a memo keyed "
                                        "by file status")
                        return
                    ctx.ob("C18.6", ns2[0], False,
                           f"-c: the config file is read through the "
                           f"process-lifetime memo {str(m_.args[0])[5:]} "
                           f"keyed by the path only — a file edited between "
                           f"two runs of one process keeps its old values "
                           f"(the file passed with -c no longer takes "
                           f"priority)", key="C18.6:memo-read")
                ctx.ob("C18.6", ns2[0], good,
                       "-c: the namespace is built from the file's dict "
                       "over vars(args) (file wins)" if good else
                       "-c: the parsed arguments take priority over the "
                       "config file: the values of the file are ignored for "
                       "every option", key="C18.6:file-wins")
                ctx.ob("C18.6", ns2[0], True, "-c: the merged dict becomes "
                       "the namespace that is returned",
                       key="C18.6:namespace")
                other = (ue2[0].data["bound"] or {}).get("other") \
                    if ue2 else None
                src3 = dict_priority(other, Interp.unname) \
                    if other is not None else None
                ok3 = len(ue2) == 1 and src3 is not None and \
                    len(src3) == 1 and src3[0] is pr[0 if good else 1]
                ctx.ob("C18.6", ue2[0] if ue2 else f, ok3,
                       "-c: package settings are overridden only through "
                       "update_existing_keys with the file's dict" if ok3
                       else "-c: SETTINGS override deviates",
                       key="C18.6:settings-override")
                sinks = find_sinks(r2)
                ctx.ob("C18.6", f, not sinks,
                       "-c: nothing is written to disk (session only)"
                       if not sinks else f"-c: merge_config writes a file "
                       f"at {sinks[0][0].where}", key="C18.6:no-write")
                return
    if not ok:
        # neither the update form nor a dict whose two sources are the file
        # and vars(args): no evidence either way
        ctx.undecidable("C18.6", ups[0] if ups else f, "-c: construction of "
                        "the merged namespace not recognised (neither "
                        "vars(args).copy().update(file) nor a dict with the "
                        "two sources file / vars(args))")
        return
    ctx.ob("C18.6", ups[0] if ups else f, ok,
           "-c: a copy of vars(args) is updated with the file's dict (file "
           "wins)" if ok else
           "-c: the config file does not take priority over a copy of the "
           "parsed arguments", key="C18.6:file-wins")
    ns = [e for e in r.calls("argparse.Namespace")]
    ok = bool(ns) and any(k == "**" for k, _ in ns[0].data["kwargs"]) and \
        any(x.op == "mut" and x.args[1] == "update"
            for k, v in ns[0].data["kwargs"] for x in v.walk())
    ctx.ob("C18.6", ns[0] if ns else f, ok,
           "-c: the merged dict becomes the namespace that is returned",
           key="C18.6:namespace")
    ue = [e for e in r.of_kind("call")
          if (e.data.get("name") or "").endswith("update_existing_keys")]
    other = (ue[0].data["bound"] or {}).get("other") if ue else None
    ok = len(ue) == 1 and other is cfg
    ctx.ob("C18.6", ue[0] if ue else f, ok,
           "-c: package settings are overridden only through "
           "update_existing_keys with the file's dict" if ok else
           "-c: SETTINGS override deviates", key="C18.6:settings-override")
    sinks = find_sinks(r)
    ctx.ob("C18.6", f, not sinks,
           "-c: nothing is written to disk (session only)" if not sinks else
           f"-c: merge_config writes a file at {sinks[0][0].where}",
           key="C18.6:no-write")


def _generate_numbers(ctx, prog, g, r):
    # (a) number conversion
    apps = [e for e in r.of_kind("call") if e.data.get("mutates_recv") and
            e.data["name"] == ".append"]
    if apps:
        v = apps[0].data["args"][0]
    else:
        # values built by a comprehension: its element expression
        comps = [x for e in r.of_kind("setitem") if e.depth == 0
                 for x in e.data["value"].walk()
                 if x.op == "comp" and x.args[0] == "list" and any(
                     is_call_to(y, MC + "is_number") for y in x.args[1].walk())]
        if not comps:
            pv, pwhy = _probe_verdict(prog, "generate")
            ctx.require(pv is not None, f"generate: value collection not "
                        f"found ({pwhy})")
            ctx.ob("C18.7", g, pv,
                   "generate: sample tokens are stored as int / float / str "
                   "by their numeric value" if pv else pwhy,
                   key="C18.7:int-tokens")
            return
        v = comps[0].args[1]
        apps = [e for e in r.of_kind("setitem") if e.depth == 0]
    num_alts = []
    isnum = [a for a in tm.atoms(tm.mk_and(*[x.args[0] for x in v.walk()
                                             if x.op == "ite"]))
             if is_call_to(a, MC + "is_number")]

    def collect(t: T, out: list):
        if t.op == "ite":
            collect(t.args[1], out)
            collect(t.args[2], out)
        else:
            out.append(t)
    leaves: List[T] = []
    collect(v, leaves)
    has_int = any(is_call_to(x, "builtins.int") for x in leaves)
    has_float = any(is_call_to(x, "builtins.float") for x in leaves)
    conds = [x.args[0] for x in v.walk() if x.op == "ite"]
    lexical = [c for c in conds if any(
        is_call_to(x, ".isdigit", ".isnumeric", ".isdecimal", "re.match",
                   "re.fullmatch") for x in c.walk())]
    numeric = [c for c in conds if any(
        is_call_to(x, ".is_integer") and is_call_to(
            tm.method_recv(x), "builtins.float") for x in c.walk()) or
        (any(is_call_to(x, "builtins.int") for x in c.walk()) and
         any(is_call_to(x, "builtins.float") for x in c.walk()) and
         c.op in ("cmp",))]
    if not has_int:
        ctx.ob("C18.7", apps[0], False,
               "generate turns every numeric token into a float: an "
               "int-typed option (--downsample, --n_to_align) then gets "
               "500.0 from the config but 500 from the command line",
               key="C18.7:int-tokens", value=fmt(v),
               # evident when the float conversion is seen (and no int one)
               evidence=has_float)
    elif lexical:
        ctx.ob("C18.7", apps[0], False,
               f"generate decides int vs float with a lexical test "
               f"({fmt(lexical[0])}): negative integers (e.g. --n_to_align "
               f"-20) are not recognised and become floats",
               key="C18.7:int-tokens", value=fmt(v))
    elif numeric and has_float:
        ctx.ob("C18.7", apps[0], True,
               "generate: integral tokens become int, others float, decided "
               "on the numeric value", key="C18.7:int-tokens")
    else:
        pv, pwhy = _probe_verdict(prog, "generate")
        if pv is None:
            ctx.undecidable("C18.7", apps[0], f"number conversion idiom not "
                            f"recognised: {fmt(v)} ({pwhy})")
        else:
            ctx.ob("C18.7", apps[0], pv,
                   "generate: sample tokens are stored as int / float / str "
                   "by their numeric value" if pv else pwhy,
                   key="C18.7:int-tokens")


def _generate(ctx, prog):
    g = prog.func(MC + "generate")
    inl = {"is_option", "to_number"}
    it = Interp(prog, inline=lambda f: f.name in inl and
                f.module.name == "evo.main_config", max_depth=2)
    r = it.run(g)
    _generate_numbers(ctx, prog, g, r)
    # (b) token classification: a token counts as an option iff it starts
    # with '-' AND is not a number — as a truth table over the two atoms of
    # each token, at every decision generate() takes
    formulas = [e.live for e in r.events
                if (e.kind in ("setitem", "setattr", "return") and
                    e.depth == 0) or
                (e.kind == "call" and e.data.get("mutates_recv"))]
    for e in r.events:
        v_ = e.data.get("value")
        if isinstance(v_, T):
            formulas.extend(x.args[0] for x in v_.walk() if x.op == "ite")
    toks = {}
    for fm in formulas:
        for n in fm.walk():
            if n.op == "call" and tm.callee_name(n) == ".startswith" and \
                    n.args[1] and tm.is_const(n.args[1][0], "-"):
                toks[tm.method_recv(n)] = n
    ctx.require(len(toks) >= 2, "generate: dash-prefix tests not found "
                "(unknown idiom)")
    bare = []
    sites = 0
    from ..lib import const_eval as _ce, _NoValue as _NV
    unknown_atoms = []
    for tok, s_atom in toks.items():
        n_atom = tm.call(tm.func(MC + "is_number"), (tok,), ())
        tids = {tid for e in r.calls("builtins.float")
                if e.data["args"] and e.data["args"][0] is tok
                for tid, _ in e.tries}
        matters = False
        for fm in formulas:
            if not any(x is s_atom for x in fm.walk()):
                continue
            sites += 1

            def val(s_v, n_v):
                # residual decision once everything this token decides is
                # fixed: evaluated for a sample token of that class
                sample = {(True, True): "-4", (False, True): "4",
                          (False, False): "word", (True, False): "--opt"}[
                              (s_v, n_v)]

                def exc_(t):
                    if t.op == "exc" and t.args[1] in tids:
                        return not n_v
                    return None

                def assign(t):
                    if t is s_atom:
                        return s_v
                    if t is n_atom:
                        return n_v
                    if t.op == "exc":
                        return exc_(t)
                    if any(x is tok for x in t.walk()) and (
                            tids or t.op == "cmp") and not any(
                            x.op in ("loopvar", "loopout") or (
                                x.op == "call" and x.args[0].op == "func")
                            for x in t.walk() if x is not n_atom):
                        try:
                            return bool(_ce(tm.deep_select(t, exc_),
                                            {tok: sample}))
                        except _NV:
                            if not any(t is u for u in unknown_atoms):
                                unknown_atoms.append(t)
                    return None
                return tm.restrict(fm, assign)
            neg_number, plain_number, word = val(True, True), \
                val(False, True), val(False, False)
            option = val(True, False)
            if not (neg_number is plain_number is word):
                bare.append(tok)
            if option is not word:
                matters = True
        if not matters and tok not in bare:
            bare.append(tok)
    ok = not bare
    if bare and unknown_atoms:
        ctx.undecidable("C18.7", g, f"generate: token tests not evaluated: "
                        f"{[fmt(a)[:60] for a in unknown_atoms[:3]]}")
        ok = None
    if ok is not None:
      ctx.ob("C18.7", g, ok,
           f"generate: at all {sites} decisions a token is an option only "
           f"if it starts with '-' AND is not a number" if ok
           else f"generate treats {fmt(bare[0])} as an option whenever it "
                f"starts with '-' (or never): a negative number after an "
                f"option (--t_offset -0.5) is parsed as a flag",
           key="C18.7:negative-numbers")
    for e in r.of_kind("setitem"):
        if tm.is_const(e.data["value"], True):
            ctx.ob("C18.7", e, True, "generate: an option without values "
                   "becomes the flag value true",
                   key="C18.7:flag", nontrivial=False)
    # the key written for an option is the option's own name ("a generated
    # config has the same effect as passing those arguments"): evaluated for
    # every real option of the evo_ape / evo_rpe / evo_traj parsers — a
    # rewriting of names (prefix stripping, negation) must leave them alone
    from ..lib import const_eval, _NoValue
    from ..known_options import KNOWN_OPTIONS
    names = set(KNOWN_OPTIONS)
    for (_, _, opts, kws) in parser_arguments(prog):
        for o in opts:
            if o.startswith("--"):
                names.add(o[2:])
    loops = [e for e in r.of_kind("loop") if e.depth == 0]
    keys = [(e, e.data["index"]) for e in r.of_kind("setitem")
            if e.depth == 0]
    bad, undecided = [], []
    for e, k in keys:
        toks = [x for x in k.walk() if x.op == "elem" and
                any(x.args[0] is tm.param(g.params[0]) or
                    (x.args[0].op == "call" and tm.param(g.params[0]) in
                     x.args[0].args[1]) for _ in (0,))]
        if not toks:
            continue
        for nm in sorted(names):
            env_ = {t_: "--" + nm for t_ in toks}

            def atom(a, env_=env_):
                try:
                    v = const_eval(a, env_)
                    return bool(v)
                except _NoValue:
                    return None
            if tm.fold(e.live, atom) is False:
                continue        # this store is not taken for that name
            try:
                got = const_eval(k, env_)
            except _NoValue as ex:
                undecided.append(str(ex))
                break
            if got != nm:
                bad.append((e, nm, got))
    if undecided and not bad:
        ctx.undecidable("C18.7", g, f"generate: key expression not "
                        f"evaluable ({undecided[0]})")
    else:
        ctx.ob("C18.7", bad[0][0] if bad else g, not bad,
               f"generate: the key written for --<name> is <name> for all "
               f"{len(names)} option names of the parsers" if not bad else
               f"generate: --{bad[0][1]} is stored under the key "
               f"{bad[0][2]!r}: the generated config does not set the "
               f"option that was given"
               + (f" (also: {sorted({b[1] for b in bad})[:4]})"
                  if len(bad) > 1 else ""),
               key="C18.7:key-is-name")
    # sibling: set_config and generate both produce int for integral tokens
    pr = _token_probe(prog, "generate") or {}
    both = any(isinstance(x, int) and not isinstance(x, bool)
               for v_ in pr.values() for x in v_ or ()) and \
        any(isinstance(x, float) for v_ in pr.values() for x in v_ or ())
    evaluated = [x for v_ in pr.values() for x in v_ or ()]
    ctx.ob("C18.7", g, both,
           "generate and `set` agree on the numeric result types "
           "(int and float)", key="C18.7:sibling-types", nontrivial=False,
           # (no sample token could be evaluated through the conversion
           # helpers: no evidence about the result types)
           evidence=bool(evaluated))


VARIANTS = [
    dict(name="set-never-written", file="evo/main_config.py",
         find="    settings.write_atomic(config_path,\n"
              "                          json.dumps(config, indent=4, sort_keys=True))\n\n\n"
              "def generate(",
         replace="\n\ndef generate(", expect="fire", rule="C18.12"),
    dict(name="set-written-by-json-helper", file="evo/main_config.py",
         find="    settings.write_atomic(config_path,\n"
              "                          json.dumps(config, indent=4, sort_keys=True))\n\n\n"
              "def generate(",
         replace="    settings.write_to_json_file(config_path, config)\n\n\n"
                 "def generate(", expect="silent"),
    dict(name="reset-subset-never-written", file="evo/tools/settings.py",
         find="            reset_settings[parameter] = DEFAULT_SETTINGS_DICT[parameter]\n"
              "        write_to_json_file(destination, reset_settings)\n",
         replace="            reset_settings[parameter] = DEFAULT_SETTINGS_DICT[parameter]\n",
         expect="fire", rule="C18.12"),
    dict(name="merge-written-to-the-other-file", file="evo/main_config.py",
         find="    settings.write_atomic(first_file,",
         replace="    settings.write_atomic(second_file,",
         expect="fire", rule="C18.12"),
    dict(name="membership-continue-removed", file="evo/main_config.py",
         find="        if arg not in config.keys():\n            continue\n",
         replace="", expect="fire", rule="C18.1"),
    dict(name="bool-branch-returns-values", file="evo/main_config.py",
         find="        else:\n            return not config[key]\n",
         replace="        else:\n            return values\n",
         expect="fire", rule="C18.2"),
    dict(name="upgrade-hard-merge", file="evo/tools/settings.py",
         find="    updated_settings = merge_dicts(old_settings, DEFAULT_SETTINGS_DICT,\n"
              "                                   soft=True)",
         replace="    updated_settings = merge_dicts(old_settings, DEFAULT_SETTINGS_DICT,\n"
                 "                                   soft=False)",
         expect="fire", rule="C18.4"),
    dict(name="soft-merge-truthiness", file="evo/tools/settings.py",
         find="        first.update({k: v for k, v in second.items() if k not in first})",
         replace="        first.update({k: v for k, v in second.items() if not first.get(k)})",
         expect="fire", rule="C18.4"),
    dict(name="generate-float-only", file="evo/main_config.py",
         find="    return int(number) if number.is_integer() else number",
         replace="    return number", expect="fire", rule="C18.7"),
    dict(name="generate-isdigit", file="evo/main_config.py",
         find="    number = float(token)\n    return int(number) if number.is_integer() else number",
         replace="    return int(token) if token.isdigit() else float(token)",
         expect="fire", rule="C18.7"),
    dict(name="option-test-without-number-exclusion",
         file="evo/main_config.py",
         find="                    if is_option(value):\n                        break",
         replace="                    if value.startswith(\"-\"):\n                        break",
         expect="fire", rule="C18.7"),
    dict(name="lock-disabled", file="evo/tools/settings.py",
         find="        if self.locked() and attr not in self:",
         replace="        if False:", expect="fire", rule="C18.5"),
    dict(name="merge-config-writes-settings", file="evo/entry_points.py",
         find="            SETTINGS.update_existing_keys(other=config_dict)",
         replace="            SETTINGS.update_existing_keys(other=config_dict)\n"
                 "            with open(args.config + \".last\", \"w\") as f:\n"
                 "                f.write(json.dumps(config_dict))",
         expect="fire", rule="C18.6"),
    dict(name="reset-any-key", file="evo/tools/settings.py",
         find="            if parameter not in DEFAULT_SETTINGS_DICT:\n                continue\n",
         replace="", expect="fire", rule="C18.3"),
]
