"""C02 — RPE values over exactly the selected pairs (structure)."""
from __future__ import annotations

from typing import Optional, Tuple

from .. import terms as tm
from ..interp import Interp
from ..lib import opaque, devectorise, fmt, fuse_elems, is_call_to, per_element
from ..progdb import AnalysisError
from ..terms import T, const
from . import metrics_model as mm
from .c01 import _guarded_by_length, _pipeline, _pipeline_inputs, \
    _run_wiring

EXPLANATION = """
Structure of metrics.RPE and main_rpe.rpe/run on provenance terms, specialised
per PoseRelation member. C02.1 length guard. C02.2: delta_ids and the error
values derive from the same id_pairs by unfiltered comprehensions; whenever
one is re-indexed by an index set (the zero-distance filter of the ratio
relation) the other is re-indexed by the same set, which is computed from the
*reference* distances and guarded only by a comparison against the array it
was computed from. C02.3: the relative-motion composition is
rel(rel(A_i, A_j), rel(B_i, B_j)) with {A, B} = {reference, estimate} and
(i, j) the two components of the same id pair (a consistent swap of A and B is
accepted, crossing i/j or mixing trajectories is not). C02.4: point-distance
relations compare norms of position differences of the *same* trajectory at i
and j; the ratio divides by the reference distance and multiplies by 100.
C02.5: pairs are selected on the reference iff pairs_from_reference, with
delta / delta_unit / rel_delta_tol / all_pairs passed to the like-named
parameters. C02.6: reducer and unit per relation (oracle table). C02.7:
pipeline order and option wiring of rpe()/run(), get_delta_unit table, and
both trajectories reduced with the identical [0] + delta_ids after the metric.
C02.11: the requested alignment is the Umeyama fit over all / the first n
pose pairs, estimate onto reference (instances of C04.1-3); every pipeline
step of rpe() runs exactly when its own option asks for it, whatever the other
options are.
C02.13 (wave 7): the pair-filter dispatch of id_pairs_from_delta — delta,
tolerance, angle unit and all-pairs switch reach the filter parameter of that
meaning (instances of C10.6).
"""
UNDECIDED = [
    "numerical agreement of the error values with the definition; drift "
    "independence",
    "that the *selection* of pairs is the right one (C10)",
]
TRUSTED = ["numpy", "lie_algebra helpers (structure in C09)"]
ASSUMPTIONS = ["E -> E^-1 invariance of all reductions (consistent swap of "
               "reference and estimate accepted)"]
MANIFEST = dict(
    text="Decides which relative motion is formed from which four poses, "
         "that values and pair-end indices stay parallel through the "
         "zero-distance filter, which trajectory the pairs are selected on, "
         "the reducer/unit table and the evo_rpe pipeline and option wiring "
         "— for all 7 relations and all option combinations as path "
         "properties. Numerical agreement with the definition is not "
         "decided.",
    note="Recognised idioms are enumerated; unknown idioms are analysis "
         "errors. Numerical content undecided.",
    technique="per-enum-member constant propagation + provenance term "
              "matching with comprehension fusion + co-indexing rule + "
              "must-precede on the event log",
)
FLOORS = {"C02.1": 1, "C02.2": 8, "C02.3": 5, "C02.4": 3, "C02.5": 5,
          "C02.6": 14, "C02.7": 30, "C02.8": 20,
          "C02.9": 12, "C02.10": 4, "C02.11": 30, "C02.12": 6,
          "C02.13": 12}

RPE = "evo.core.metrics.RPE"
IDP = "evo.core.metrics.id_pairs_from_delta"


def _index_sets(t: T):
    """selector terms a value was re-indexed with (x.nonzero(), np.where,
    np.nonzero, boolean masks)"""
    out = []

    def mask(s: T) -> Optional[T]:
        """an element-wise comparison used as a boolean mask"""
        if s.op == "unop" and s.args[0] == "Invert":
            return mask(s.args[1])
        if s.op == "cmp" and not any(
                (y.op == "attr" and y.args[1] == "size") or
                is_call_to(y, "builtins.len") for y in s.walk()):
            return s
        return None
    for x in t.walk():
        if is_call_to(x, ".nonzero", "numpy.nonzero", "numpy.where",
                      "numpy.flatnonzero", "numpy.argwhere"):
            out.append(x)
        elif x.op == "sub" and mask(x.args[1]) is not None:
            out.append(mask(x.args[1]))          # values[mask]
        elif is_call_to(x, "itertools.compress", "numpy.compress",
                        "numpy.extract") and len(x.args[1]) == 2:
            m = [mask(a) for a in x.args[1] if mask(a) is not None]
            out.extend(m)
        elif x.op == "comp":
            # [d for d, keep in zip(values, mask) if keep]
            for it, _ in x.args[2]:
                for y in it.walk():
                    if mask(y) is not None:
                        out.append(mask(y))
    return out


def check(ctx):
    prog = ctx.prog
    members = prog.enum_members(mm.PR)
    ctx.require(members is not None and set(mm.ORACLE) == set(members),
                f"PoseRelation members changed: {members}")
    ctx.analysed_fn(f"{RPE}.process_data", f"{RPE}.__init__",
                    f"{RPE}.rpe_base", "evo.main_rpe.rpe", "evo.main_rpe.run")
    first = True
    for member in members:
        res = mm.run_relation(prog, "RPE", member)
        ctx.analysed["configs"] += 1
        _guarded_by_length(ctx, res, "C02.1", "RPE", member)
        if first:
            _pair_source(ctx, prog, res)
            first = False
        block, family, degrees, _, unit_rpe = mm.ORACLE[member]
        err = res.attrs.get((mm.SELF, "error"))
        dids = mm.final_attr(prog, res, "RPE", "delta_ids")
        if err is None and dids is not None:
            from .c01 import _missing_values
            if _missing_values(ctx, res, "C02.6", "RPE", member):
                continue
        ctx.require(err is not None and dids is not None,
                    f"RPE[{member}]: error / delta_ids never assigned")
        raw_dids = dids
        err, dids = devectorise(err), devectorise(dids)
        idps = res.calls(IDP)
        ctx.require(len(idps) == 1, f"RPE[{member}]: id_pairs_from_delta "
                    f"call not found")
        IDPAIRS = idps[0].data["result"]

        coindexing(ctx, res, member, err, dids, IDPAIRS, "C02.2",
                   raw_dids=raw_dids)
        # necessary for every pairing mode: each value depends on *both*
        # components (i and j) of its own id pair
        uses = {0: False, 1: False}
        for x in err.walk():
            if x.op == "sub" and x.args[0].op == "elem" and \
                    x.args[0].args[0] is IDPAIRS and tm.is_const(x.args[1]) \
                    and x.args[1].args[1] in (0, 1):
                uses[x.args[1].args[1]] = True
        ok = uses[0] and uses[1]
        ctx.ob("C02.3", res.func, ok,
               f"RPE[{member}]: every value is computed from both ends "
               f"(i and j) of its own id pair" if ok else
               f"RPE[{member}]: the values do not depend on the "
               f"{'start' if not uses[0] else 'end'} index of each id pair "
               f"(e.g. differences along the chain of end indices): wrong "
               f"for non-consecutive (all-pairs) selections",
               key=f"C02.3:{member}:both-ends",
               # (values computed by a helper object / iterator adaptor that
               # is not read: no evidence which ends they use)
               evidence=not opaque(err, (IDPAIRS,)) and any(
                   x.op == "elem" and x.args[0] is IDPAIRS
                   for x in err.walk()))

        # ------------------------------------------------- C02.3/4/6 values
        if family in ("pointdist", "ratio"):
            _point_distance(ctx, res, member, err, IDPAIRS, family)
        else:
            pe = per_element(err)
            iv = mm.interval(err) if pe is None and family == "angle" \
                else None
            top = 180.0 if degrees else 3.141592653589793
            if iv is not None and top * (1 + 1e-9) < iv[1] < float("inf"):
                ctx.ob("C02.6", res.func, False,
                       f"RPE[{member}]: the value expression has range "
                       f"[{iv[0]:.6g}, {iv[1]:.6g}] — a geodesic angle lies "
                       f"in [0, {top:.6g}]", key=f"C02.6:{member}:range",
                       value=fmt(err))
                continue
            if pe is None:
                ctx.undecidable("C02.6", res.func, f"RPE[{member}]: error array is not "
                                    f"built element-wise (unknown idiom): "
                                    f"{fmt(err)}")
                continue
            elt, lid, it, conds = pe
            ok = not conds and it is IDPAIRS or (
                not conds and fuse_elems(T("elem", it, lid)) is not None)
            red = mm.match_reducer(elt)
            if red is None:
                ctx.undecidable("C02.6", res.func, f"RPE[{member}]: reducer idiom not "
                                    f"recognised: {fmt(elt)}")
                continue
            E = red["arg"]
            rel = mm.match_rel(E)
            ok3, why = False, fmt(E)
            src_lid = None
            if rel is not None:
                ra, rb = mm.match_rel(rel[0]), mm.match_rel(rel[1])
                if ra and rb:
                    p = [mm.pose_at(x) for x in (ra[0], ra[1], rb[0], rb[1])]
                    if all(p):
                        (w1, v1, i1), (w2, v2, j1), (w3, v3, i2), \
                            (w4, v4, j2) = p
                        same_traj = w1 == w2 and w3 == w4 and \
                            {w1, w3} == {"ref", "est"}
                        views = {v1, v2, v3, v4} == {"poses_se3"}
                        idx_ok = i1 is i2 and j1 is j2 and \
                            i1.op == "sub" and j1.op == "sub" and \
                            i1.args[0] is j1.args[0] and \
                            tm.is_const(i1.args[1], 0) and \
                            tm.is_const(j1.args[1], 1) and \
                            i1.args[0].op == "elem" and \
                            i1.args[0].args[0] is IDPAIRS
                        ok3 = same_traj and views and idx_ok
                        why = (f"rel(rel({w1}_i, {w2}_j), rel({w3}_i, "
                               f"{w4}_j))" if ok3 else
                               f"traj roles {w1},{w2},{w3},{w4}; indices "
                               f"{fmt(i1)},{fmt(j1)},{fmt(i2)},{fmt(j2)}")
            word = mm.group_word(E)
            if not ok3 and word is not None:
                # any product of poses and inverses, by its normal form:
                # E = A_j^-1 A_i B_i^-1 B_j, (A, B) the two trajectories
                ok3 = len(word) == 4 and \
                    [g[3] for g in word] == [-1, 1, -1, 1] and \
                    all(g[1] == "poses_se3" for g in word) and \
                    word[0][0] == word[1][0] and word[2][0] == word[3][0] \
                    and {word[0][0], word[2][0]} == {"ref", "est"} and \
                    word[0][2] is word[3][2] and word[1][2] is word[2][2] \
                    and all(g[2].op == "sub" and g[2].args[0].op == "elem"
                            and g[2].args[0].args[0] is IDPAIRS
                            for g in word) and \
                    word[1][2].args[0] is word[0][2].args[0] and \
                    tm.is_const(word[1][2].args[1], 0) and \
                    tm.is_const(word[0][2].args[1], 1)
                why = " ".join(
                    f"{g[0]}[{fmt(g[2])[-12:]}]{'^-1' if g[3] < 0 else ''}"
                    for g in word)
            ctx.ob("C02.3", res.func, ok3 and not conds,
                   f"RPE[{member}]: E = {why}, (i, j) the components of one "
                   f"id pair, one value per pair" if ok3 and not conds else
                   f"RPE[{member}]: the relative-motion composition crosses "
                   f"indices or trajectories (or filters pairs): {why}",
                   key=f"C02.3:{member}:composition", E=fmt(E),
                   evidence=word is not None or (not opaque(E) and
                                                 rel is not None))
            fam = red["family"]
            if family == "norm":
                ok = fam == "norm" and red["block"] == "trans"
                want = "|| trans(E) ||"
            elif family == "frobenius3":
                ok = fam == "frobenius3" and red["block"] == "rot"
                want = "|| R(E) - eye(3) ||"
            elif family == "frobenius4":
                ok = fam == "frobenius4" and red["block"] == "pose"
                want = "|| E - eye(4) ||"
            else:
                ok = fam == "angle" and red["block"] == "rot" and \
                    red["degrees"] == degrees
                want = f"so3_log_angle(R(E), degrees={degrees})"
            ctx.ob("C02.6", res.func, ok,
                   f"RPE[{member}]: value = {want}" if ok else
                   f"RPE[{member}]: reducer is {fam} on block "
                   f"{red['block']}"
                   f"{' degrees=' + str(red['degrees']) if fam == 'angle' else ''}"
                   f" — the property defines {want}",
                   key=f"C02.6:{member}:reducer", element=fmt(elt))
        u = mm.init_unit(prog, "RPE", member)
        want_u = tm.enum(prog.cls(mm.UNIT).qualname, unit_rpe)
        ctx.ob("C02.6", prog.func(f"{RPE}.__init__"), u is want_u,
               f"RPE[{member}]: unit is {unit_rpe}" if u is want_u else
               f"RPE[{member}]: unit is {fmt(u)}, the reduction yields "
               f"{unit_rpe}", key=f"C02.6:{member}:unit",
               # (a unit that is not resolved to a member of Unit — a call, a
               # lookup that does not fold — is not evidence)
               evidence=u is not None and u.op == "enum")

    r = _pipeline(ctx, "evo.main_rpe.rpe", "RPE", "C02")
    ctx.section(_rpe_core, ctx, r)
    ctx.section(_run_wiring, ctx, "evo.main_rpe", "rpe", "C02")
    ctx.section(_delta_unit, ctx)
    from .c01 import _pipeline_views
    ctx.section(_pipeline_views, ctx, "C02.8")
    ctx.section(_pipeline_inputs, ctx, "C02.9")
    from .c01 import _helpers
    ctx.section(_helpers, ctx, "C02.10")
    from .c01 import _alignment
    ctx.section(_alignment, ctx, "C02.11")
    ctx.section(_reduction, ctx, "C02.12")
    ctx.section(_pair_dispatch, ctx, "C02.13")


def _pair_dispatch(ctx, rule: str):
    """'relative errors over the pose pairs that are delta apart in the
    delta unit': RPE takes its pairs from id_pairs_from_delta, which must hand
    delta, tolerance, the angle unit and the all-pairs switch to the filter
    of the unit — each to the parameter of that meaning (instances of C10.6,
    the dispatch table)"""
    from ..core import import_rules
    n = import_rules(ctx, "c10", ("C10.6",), rule)
    ctx.require(n >= 12, f"{rule}: pair-filter dispatch instances not found")


def _reduction(ctx, rule: str):
    """'evo_rpe stores these values for the pairs chosen on the processed
    trajectories' and 'the reported pair end indices are co-indexed with the
    values': association, filtering and the final restriction to the pair
    ends all go through reduce_to_ids, which must select every view by the
    given ids on every path — also for id lists that repeat poses or have as
    many entries as there are poses (instances of C08.3)"""
    from ..core import import_rules
    n = import_rules(ctx, "c08", ("C08.3",), rule)
    ctx.require(n >= 6, f"{rule}: reduce_to_ids instances not found")


def coindexing(ctx, res, member, err, dids, IDPAIRS, rule, raw_dids=None):
    """values and pair-end indices stay parallel (shared with C12.4)"""
    # ---------------------------------------------------------- C02.2
    from ..lib import split_comp_ite

    def nd(a: T) -> bool:
        # an ndarray-valued alternative (not converted back with .tolist())
        if is_call_to(a, "numpy.array", "numpy.asarray", "numpy.flatnonzero"):
            return True
        if a.op == "attr" and a.args[1] == "T":
            return nd(a.args[0])
        if a.op == "sub" and a.args[0].op == "attr" and \
                a.args[0].args[1] == "T" and tm.is_const(a.args[1]):
            return nd(a.args[0])          # a column of a 2-D array
        return a.op == "sub" and not tm.is_const(a.args[1]) and nd(a.args[0])
    raw_alts = tm.strip_ite(raw_dids if raw_dids is not None else dids)
    arr_alts = [a for a in raw_alts if nd(a)]
    if arr_alts and len(arr_alts) < len(raw_alts):
        # evo_rpe builds the companion arrays with `[0] + delta_ids`: with a
        # list that prepends an index, with an ndarray it adds 0 to every
        # entry — one entry short, shifted by one pair
        ctx.ob(rule, res.func, False,
               f"RPE[{member}]: delta_ids is a list on some paths and a "
               f"numpy array ({fmt(arr_alts[0])[:70]}) on another: the "
               f"callers concatenate lists (`[0] + delta_ids`), which adds "
               f"element-wise for an array — the stored timestamps / "
               f"distances are one short and shifted",
               key=f"{rule}:{member}:delta-ids-type")
    # (a list round trip through numpy keeps entries and order)
    dids = dids.map(lambda x: tm.method_recv(x) if (
        is_call_to(x, ".tolist") and not x.args[1]) else None)
    dids = fuse_elems(split_comp_ite(dids))
    sel_e, sel_d = _index_sets(err), _index_sets(dids)
    ok = set(sel_e) == set(sel_d)
    if not ok and sel_e and sel_d:
        # both are filtered, by selectors this rule cannot identify with
        # each other (a boolean mask here, itertools.compress there ...)
        ctx.undecidable(rule, res.func, f"RPE[{member}]: error values and "
                        f"delta_ids are both re-indexed, by selectors not "
                        f"recognised as the same: "
                        f"{[fmt(x)[:50] for x in sel_e]} / "
                        f"{[fmt(x)[:50] for x in sel_d]}")
        return
    ctx.ob(rule, res.func, ok,
           f"RPE[{member}]: error values and delta_ids are re-indexed "
           f"by the same index sets "
           f"({[fmt(x)[:40] for x in sel_e] or 'none'})" if ok else
           f"RPE[{member}]: the error values are filtered by "
           f"{[fmt(x)[:60] for x in sel_e]} but delta_ids by "
           f"{[fmt(x)[:60] for x in sel_d]} — values and pair end "
           f"indices no longer line up",
           key=f"{rule}:{member}:co-indexing")
    base_d = dids
    cond_d = None
    alts = tm.strip_ite(dids)
    if dids.op == "ite":
        cond_d = dids.args[0]
    plain = [a for a in alts if not _index_sets(a)]
    if not plain:
        # always re-indexed ([base[i] for i in selector], base[mask]): the
        # list that is re-indexed is what has to be the plain pair-end list
        for a in alts:
            pe_ = per_element(a)
            if pe_ is not None and not pe_[3] and pe_[0].op == "sub" and \
                    pe_[0].args[1] is T("elem", pe_[2], pe_[1]) and \
                    not _index_sets(pe_[0].args[0]):
                plain.append(pe_[0].args[0])
            elif a.op == "sub" and _index_sets(a) and \
                    not _index_sets(a.args[0]):
                plain.append(a.args[0])
    ok = bool(plain)
    pd_ = per_element(plain[0]) if plain else None
    ok = ok and pd_ is not None and not pd_[3] and pd_[2] is IDPAIRS \
        and pd_[0] is tm.sub(T("elem", IDPAIRS, pd_[1]), const(1))
    d0 = Interp.unname(dids)
    if not ok and is_call_to(d0, "builtins.sorted", "builtins.reversed",
                             "numpy.sort", "numpy.unique", "builtins.set") \
            and d0.args[1]:
        inner = per_element(Interp.unname(d0.args[1][0]))
        if inner is not None and inner[2] is IDPAIRS:
            ctx.ob(rule, res.func, False,
                   f"RPE[{member}]: delta_ids is "
                   f"{tm.callee_name(d0).split('.')[-1]}(...) of the pair "
                   f"end indices: re-ordered (or de-duplicated) on its own, "
                   f"while the error values stay in pair order — value k no "
                   f"longer belongs to delta_ids[k]",
                   key=f"{rule}:{member}:delta-ids", value=fmt(dids))
            return
    if not ok and not (pd_ is not None and pd_[2] is IDPAIRS):
        # not a comprehension over id_pairs at all (zip(*id_pairs), an array
        # column ...): no evidence either way
        ctx.undecidable(rule, res.func, f"RPE[{member}]: delta_ids is not "
                        f"built by a comprehension over id_pairs: "
                        f"{fmt(dids)[:120]}")
        return
    ctx.ob(rule, res.func, ok,
           f"RPE[{member}]: delta_ids = [j for (i, j) in id_pairs], "
           f"unfiltered, in order" if ok else
           f"RPE[{member}]: delta_ids is not the list of pair end "
           f"indices of id_pairs: {fmt(dids)}",
           key=f"{rule}:{member}:delta-ids", value=fmt(dids))
    if cond_d is not None:
        # conditional re-index: the guard may only compare the selector
        # size with the size of the array it was computed from
        sel = sel_d[0] if sel_d else None
        if sel is None:
            src = None
        elif sel.op == "cmp":
            src = _nonzero_of(sel)           # boolean mask d != 0 / d > 0
        elif tm.callee_name(sel) == ".nonzero":
            src = tm.method_recv(sel)
        else:
            src = sel.args[1][0] if sel.op == "call" and sel.args[1] \
                else None
        okc = False
        # `a.size != b.size`, or the truth value of their difference
        sides = None
        cd_ = cond_d
        if cd_.op == "cmp" and cd_.args[0] in ("NotEq", "Lt", "Gt") and any(
                tm.is_const(z) and tm.const_val(z) == 0
                for z in cd_.args[1:]):
            cd_ = [z for z in cd_.args[1:] if not tm.is_const(z)][0]
        if cd_.op == "cmp" and cd_.args[0] in ("NotEq", "Lt", "Gt"):
            sides = (cd_.args[1], cd_.args[2])
        elif cd_.op == "binop" and cd_.args[0] == "Sub":
            sides = (cd_.args[1], cd_.args[2])
        if sides is not None and src is not None:
            sizes = set()
            for side in sides:
                if side.op == "attr" and side.args[1] == "size":
                    sizes.add(side.args[0])
                elif is_call_to(side, "builtins.len") and side.args[1]:
                    sizes.add(side.args[1][0])
            okc = src in sizes and any(
                any(x is sel for x in s_.walk()) for s_ in sizes
                if s_ is not src)
        cu = Interp.unname(cond_d)
        if not okc and is_call_to(cu, ".any") and not cu.args[1] and any(
                is_call_to(y, "numpy.where", "numpy.nonzero", ".nonzero",
                           "numpy.flatnonzero", "numpy.argwhere")
                for y in (tm.method_recv(cu) or tm.NONE).walk()):
            ctx.ob(rule, res.func, False,
                   f"RPE[{member}]: the re-indexing of delta_ids is guarded "
                   f"by the truth value of an *index* array "
                   f"({fmt(cond_d)[:80]}): .any() is False when the only "
                   f"index is 0, so a zero-distance first pair is dropped "
                   f"from the values but kept in delta_ids",
                   key=f"{rule}:{member}:reindex-guard", guard=fmt(cond_d))
            return
        if not okc and (sides is None or src is None):
            ctx.undecidable(rule, res.func, f"RPE[{member}]: the guard of "
                            f"the delta_ids re-indexing is not a size "
                            f"comparison this rule reads: "
                            f"{fmt(cond_d)[:120]}")
            return
        ctx.ob(rule, res.func, okc,
               f"RPE[{member}]: delta_ids is re-indexed exactly when "
               f"the filter removed something (selector size vs size of "
               f"its source array)" if okc else
               f"RPE[{member}]: the re-indexing of delta_ids is guarded "
               f"by {fmt(cond_d)}, which does not compare the selector "
               f"with the array it was computed from — delta_ids can "
               f"stay unfiltered while the values are filtered",
               key=f"{rule}:{member}:reindex-guard", guard=fmt(cond_d),
               evidence=not opaque(dids, (IDPAIRS,)))



def _pair_source(ctx, prog, res):
    idps = res.calls(IDP)
    ctx.require(len(idps) == 1, "id_pairs_from_delta call not found")
    b = idps[0].data["bound"] or {}
    poses = b.get("poses")
    flag = tm.attr(mm.SELF, "pairs_from_reference")
    refp = tm.attr(mm.REF, "poses_se3")
    estp = tm.attr(mm.EST, "poses_se3")
    ok = poses is tm.ite(flag, refp, estp)
    ctx.ob("C02.5", idps[0], ok,
           "pairs are selected on the reference iff pairs_from_reference, "
           "else on the estimate" if ok else
           f"pair selection uses {fmt(poses)} — expected reference poses "
           f"iff self.pairs_from_reference",
           key="C02.5:pair-source", poses=fmt(poses))
    for pname, attr in (("delta", "delta"), ("delta_unit", "delta_unit"),
                        ("rel_tol", "rel_delta_tol"),
                        ("all_pairs", "all_pairs")):
        ok = b.get(pname) is tm.attr(mm.SELF, attr)
        ctx.ob("C02.5", idps[0], ok,
               f"id_pairs_from_delta({pname} <- self.{attr})" if ok else
               f"id_pairs_from_delta parameter `{pname}` receives "
               f"{fmt(b.get(pname))}, expected self.{attr}",
               key=f"C02.5:{pname}")
    # __init__ stores its arguments under the like-named attributes
    f = prog.func(f"{RPE}.__init__")
    ri = Interp(prog).run(f)
    for p in ("pose_relation", "delta_unit", "rel_delta_tol", "all_pairs",
              "pairs_from_reference"):
        v = ri.attrs.get((mm.SELF, p))
        ok = v is tm.param(p)
        ctx.ob("C02.5", f, ok, f"RPE.__init__: self.{p} <- {p}" if ok else
               f"RPE.__init__ stores {fmt(v)} in self.{p}",
               key=f"C02.5:init:{p}")
    v = ri.attrs.get((mm.SELF, "delta"))
    ok = v is not None and all(tm.mentions_param(a, "delta") and
                               not tm.mentions_param(a, "rel_delta_tol")
                               for a in tm.strip_ite(v))
    ctx.ob("C02.5", f, ok, "RPE.__init__: self.delta <- delta (int for "
           "frames)", key="C02.5:init:delta", value=fmt(v))


def _pair_distance(n: T, el: T) -> Optional[str]:
    """'ref'/'est' if n = norm(X.pos[i] - X.pos[j]) with {i, j} the two ends
    of the pair element `el`"""
    red = mm.match_reducer(n)
    if red is None or red["family"] != "norm" or red["block"] != "vector":
        return None
    d = red["arg"]
    if d.op != "binop" or d.args[0] != "Sub":
        return None
    pa, pb = mm.pose_at(d.args[1]), mm.pose_at(d.args[2])
    if not pa or not pb:
        return None
    idx = {pa[2], pb[2]}
    if pa[0] == pb[0] and pa[1] == pb[1] == "positions_xyz" and \
            idx == {tm.sub(el, const(0)), tm.sub(el, const(1))}:
        return pa[0]
    return None


def _pair_pathlength(n: T, el: T) -> bool:
    """n = X.distances[j] - X.distances[i] for the pair element `el`: the
    path length travelled between the two poses, not the distance of their
    positions"""
    n = Interp.unname(n)
    if n.op != "binop" or n.args[0] != "Sub":
        return False
    out = []
    for side in (n.args[1], n.args[2]):
        side = Interp.unname(side)
        if side.op == "sub" and side.args[0].op == "attr" and \
                side.args[0].args[1] == "distances" and \
                side.args[1] in (tm.sub(el, const(0)), tm.sub(el, const(1))):
            out.append(side.args[1])
        else:
            return False
    return out[0] is not out[1]


def _pathlength_evidence(t: T, IDPAIRS: T) -> bool:
    pe = per_element(t)
    if pe is None or pe[3] or pe[2] is not IDPAIRS:
        return False
    el = T("elem", IDPAIRS, pe[1])
    return any(_pair_pathlength(x, el) for x in pe[0].walk())


def _dist_array(t: T, IDPAIRS: T) -> Optional[str]:
    """'ref'/'est' if t = array([norm(X.pos[i] - X.pos[j]) for i,j in pairs])
    (or its vectorised spelling)"""
    pe = per_element(t)
    if pe is None:
        return None
    elt, lid, it, conds = pe
    if conds or it is not IDPAIRS:
        return None
    return _pair_distance(elt, T("elem", IDPAIRS, lid))


def _nonzero_of(sel: T) -> Optional[T]:
    """the array whose non-zero positions the selector enumerates"""
    if sel.op == "sub" and tm.is_const(sel.args[1], 0):
        inner = sel.args[0]
        if is_call_to(inner, ".nonzero"):
            return tm.method_recv(inner)
        if is_call_to(inner, "numpy.nonzero", "numpy.where") and \
                len(inner.args[1]) == 1:
            return inner.args[1][0]
    if is_call_to(sel, "numpy.flatnonzero") and len(sel.args[1]) == 1:
        return sel.args[1][0]
    # boolean masks: d != 0, d > 0 (distances are norms, never negative),
    # and the spellings with the operands swapped
    if sel.op == "cmp":
        a, b = sel.args[1], sel.args[2]
        zero = lambda z: tm.is_const(z) and not isinstance(
            z.args[1], bool) and z.args[1] == 0
        if sel.args[0] in ("NotEq", "Gt") and zero(b):
            return a
        if sel.args[0] in ("NotEq", "Lt") and zero(a):
            return b
    if is_call_to(sel, ".astype") and sel.args[1] and \
            sel.args[1][0] is tm.glob("builtins.bool"):
        return tm.method_recv(sel)
    return None


def _point_distance(ctx, res, member, err, IDPAIRS, family):
    core = err
    ratio_ok = True
    why = ""
    if family == "ratio":
        # np.divide(abs(..)[nz], ref_d[nz]) * 100
        hundred = None
        if core.op == "binop" and core.args[0] == "Mult":
            for a, b in ((core.args[1], core.args[2]),
                         (core.args[2], core.args[1])):
                if tm.is_const(b) and b.args[1] == 100:
                    core, hundred = a, b
        num = den = None
        if is_call_to(core, "numpy.divide", "numpy.true_divide") and \
                len(core.args[1]) == 2:
            num, den = core.args[1]
        elif core.op == "binop" and core.args[0] == "Div":
            num, den = core.args[1], core.args[2]
        ratio_ok = hundred is not None and num is not None
        if not ratio_ok:
            ctx.undecidable("C02.4", res.func, f"RPE[{member}]: ratio is not "
                            f"of the form (a / b) * 100: {fmt(err)}")
            return
        if ratio_ok:
            nsel = num.args[1] if num.op == "sub" else None
            dsel = den.args[1] if den.op == "sub" else None
            dbase = den.args[0] if den.op == "sub" else den
            nbase = num.args[0] if num.op == "sub" else num
            which = _dist_array(dbase, IDPAIRS)
            if which is None and _pathlength_evidence(dbase, IDPAIRS):
                ctx.ob("C02.4", res.func, False,
                       f"RPE[{member}]: the per-pair 'distance' is "
                       f"distances[j] - distances[i], the path length "
                       f"travelled between the two poses — the property "
                       f"compares the Euclidean distances of the pair's "
                       f"positions (they differ on every path that is not a "
                       f"straight line)", key=f"C02.4:{member}:ratio")
                return
            if which is None:
                ctx.undecidable("C02.4", res.func, f"RPE[{member}]: divisor "
                                f"is not a per-pair distance array over "
                                f"id_pairs: {fmt(dbase)}")
                return
            sel_src = _nonzero_of(nsel) if nsel is not None else None
            ratio_ok = nsel is dsel and nsel is not None and \
                which == "ref" and sel_src is not None and \
                devectorise(sel_src) is devectorise(dbase)
            why = (f"divides by the {which} distances, selector computed "
                   f"from {fmt(sel_src)[:50] if sel_src is not None else None}")
            core = nbase
        ctx.ob("C02.4", res.func, ratio_ok,
               f"RPE[{member}]: |d_ref - d_est| / d_ref * 100 over the "
               f"pairs with non-zero reference distance" if ratio_ok else
               f"RPE[{member}]: ratio is not (abs diff / reference "
               f"distance) * 100 with one common non-zero selector taken "
               f"from the reference distances ({why}): {fmt(err)}",
               key=f"C02.4:{member}:ratio", value=fmt(err))
    ok = False
    parsed = False
    # element form: | norm(X_j - X_i) - norm(Y_j - Y_i) | per id pair (the
    # array-level spellings np.abs(D_a - D_b) normalise to the same term)
    pe = per_element(core)
    if pe is not None and not pe[3] and pe[2] is IDPAIRS:
        elt, lid = pe[0], pe[1]
        if is_call_to(elt, "numpy.abs", "numpy.absolute", "numpy.fabs",
                      "builtins.abs") and elt.args[1]:
            d = elt.args[1][0]
            if d.op == "binop" and d.args[0] == "Sub":
                el = T("elem", IDPAIRS, lid)
                wa = _pair_distance(d.args[1], el)
                wb = _pair_distance(d.args[2], el)
                parsed = wa is not None and wb is not None
                ok = {wa, wb} == {"ref", "est"}
    if not parsed and _pathlength_evidence(core, IDPAIRS):
        ctx.ob("C02.4", res.func, False,
               f"RPE[{member}]: the per-pair 'distance' is distances[j] - "
               f"distances[i], the path length travelled between the two "
               f"poses — the property compares the Euclidean distances of "
               f"the pair's positions (they differ on every path that is "
               f"not a straight line)", key=f"C02.4:{member}:pointdist")
        return
    if not parsed:
        ctx.undecidable("C02.4", res.func, f"RPE[{member}]: point-distance "
                        f"error is not |D_a - D_b| over per-pair distance "
                        f"arrays: {fmt(core)}")
        return
    ctx.ob("C02.4", res.func, ok,
           f"RPE[{member}]: | |p_ref_j - p_ref_i| - |p_est_j - p_est_i| | "
           f"with both distances taken within one trajectory at the same "
           f"pair" if ok else
           f"RPE[{member}]: point-distance error is not the absolute "
           f"difference of the two per-trajectory pair distances: "
           f"{fmt(core)}", key=f"C02.4:{member}:pointdist", value=fmt(core))
    ctx.ob("C02.6", res.func, ok and ratio_ok,
           f"RPE[{member}]: reducer as defined", key=f"C02.6:{member}:reducer")


def _rpe_core(ctx, r):
    """rpe(): metric construction and the [0] + delta_ids reduction"""
    prog = ctx.prog
    f = r.func
    est, ref = tm.param("traj_est"), tm.param("traj_ref")
    ctor = [e for e in r.of_kind("call")
            if e.data.get("name") == "evo.core.metrics.RPE"]
    ctx.require(len(ctor) == 1, "rpe(): RPE(...) construction not found")
    init = prog.func(f"{RPE}.__init__")
    b = Interp(prog).bind(init, list(ctor[0].data["args"]),
                          list(ctor[0].data["kwargs"]), tm.param("<obj>"),
                          False)
    for p in ("pose_relation", "delta", "delta_unit", "rel_delta_tol",
              "all_pairs", "pairs_from_reference"):
        got = b.get(p)
        if got is not None:
            # a *given* value: `p is None` fall-backs do not apply (None is
            # not a value of the option; 0 / 0.0 / False are)
            pp = tm.param(p)
            got = tm.select(got, lambda a, pp=pp: (a.args[0] == "IsNot")
                            if a.op == "cmp" and a.args[0] in ("Is", "IsNot")
                            and a.args[1] is pp and a.args[2] is tm.NONE
                            else None)
        ok = got is tm.param(p)
        ctx.ob("C02.7", ctor[0], ok,
               f"rpe(): RPE({p} <- {p})" if ok else
               f"rpe(): RPE() parameter `{p}` receives {fmt(b.get(p))} — "
               f"the option of that name is ignored or crossed",
               key=f"C02.7:rpe:ctor:{p}")
    reds = [e for e in r.of_kind("call")
            if (e.data.get("name") or "").endswith("reduce_to_ids")]
    ctx.require(len(reds) >= 2, "rpe(): reduce_to_ids calls not found")
    pd = [e for e in r.of_kind("call")
          if (e.data.get("name") or "").endswith("RPE.process_data")]
    ids = {(e.data["bound"] or {}).get("ids") for e in reds}
    metric = ctor[0].data["result"]
    want = T("list", const(0), T("star", tm.attr(metric, "delta_ids")))
    one = list(ids)[0] if len(ids) == 1 else None
    if one is not None:
        # list(x) of the id list is a copy of it
        one = one.map(lambda x: x.args[1][0] if (
            is_call_to(x, "builtins.list") and len(x.args[1]) == 1 and
            not x.args[2] and x.args[1][0] is tm.attr(metric, "delta_ids"))
            else None)
    shape_ok = one is not None and (
        (one.op == "binop" and one.args[0] == "Add" and
         one.args[1] is T("list", const(0)) and
         one.args[2] is tm.attr(metric, "delta_ids")) or one is want)
    recvs = [tm.strip_ite(e.data.get("recv")) for e in reds]
    both = any(any(x is ref or (x.op == "call" and x.args[1] and
                                x.args[1][0] is ref) for x in a)
               for a in recvs) and \
        any(any(x is est or (x.op == "call" and x.args[1] and
                             x.args[1][0] is est) for x in a)
            for a in recvs)
    ok = shape_ok and both and all(e.idx > pd[0].idx for e in reds)
    ctx.ob("C02.7", reds[0], ok,
           "rpe(): after the metric, reference and estimate are reduced "
           "with the identical [0] + delta_ids" if ok else
           f"rpe(): trajectories are reduced with {[fmt(x) for x in ids]} "
           f"(receivers {[fmt(e.data.get('recv')) for e in reds]}) — "
           f"expected the same [0] + delta_ids for both, after process_data",
           key="C02.7:rpe:reduce",
           evidence=_reduce_evidence(ids, metric, shape_ok, both, reds, pd))


def _reduce_evidence(ids, metric, shape_ok, both, reds, pd) -> bool:
    """what makes a reduction that is not `[0] + delta_ids` a deviation one
    can point at (ids computed in another way — from the id pairs, by a
    helper — may be the same list: no evidence)"""
    if shape_ok:
        return True        # one trajectory not reduced / reduced too early
    DI = tm.attr(metric, "delta_ids")
    if len(ids) != 1:
        # different id lists for the two trajectories, each read completely
        return not any(opaque(x, (metric,)) for x in ids if x is not None)
    one = Interp.unname(list(ids)[0])
    if one is None:
        return False
    if one is DI:
        return True        # the first pose is not kept
    for x in one.walk():
        if is_call_to(x, "builtins.sorted", "builtins.reversed",
                      "builtins.set", "numpy.sort", "numpy.unique",
                      "numpy.flip") and any(y is DI for y in x.walk()):
            return True    # reordered / de-duplicated: no longer index-wise
        if x.op == "sub" and x.args[0] is DI and x.args[1].op == "slice":
            return True    # a part of the ids
    if one.op == "binop" and one.args[0] == "Add" and one.args[2] is DI and \
            one.args[1].op == "list":
        return True        # another head than [0]
    return False


def _delta_unit(ctx):
    prog = ctx.prog
    f = prog.func("evo.common_ape_rpe.get_delta_unit")
    uq = prog.cls(mm.UNIT).qualname
    for s, member in (("f", "frames"), ("d", "degrees"), ("r", "radians"),
                      ("m", "meters")):
        r = Interp(prog).run(f, {}, None, preset_attrs={
            (tm.param("args"), "delta_unit"): const(s)})
        ok = r.ret is tm.enum(uq, member)
        ctx.ob("C02.7", f, ok,
               f"--delta_unit {s} -> Unit.{member}" if ok else
               f"--delta_unit {s} selects {fmt(r.ret)}, documented is "
               f"{member}", key=f"C02.7:delta-unit:{s}")
    fr = prog.func("evo.main_rpe.run")
    r = Interp(prog).run(fr)
    core = [e for e in r.of_kind("call")
            if e.data.get("name") == "evo.main_rpe.rpe"]
    du = (core[0].data["bound"] or {}).get("delta_unit") if core else None
    ok = du is not None and is_call_to(du, "evo.common_ape_rpe."
                                           "get_delta_unit")
    ctx.ob("C02.7", core[0] if core else fr, ok,
           "run(): delta_unit <- get_delta_unit(args)",
           key="C02.7:run:delta_unit")


VARIANTS = [
    dict(name="delta-ids-not-cofiltered", file="evo/core/metrics.py",
         find="                    self.delta_ids = [self.delta_ids[i] for i in nonzero]\n",
         replace="                    pass\n", expect="fire", rule="C02.2"),
    dict(name="guard-compares-filtered", file="evo/core/metrics.py",
         find="                if nonzero.size != ref_distances.size:",
         replace="                if nonzero.size != ref_distances[nonzero].size:",
         expect="fire", rule="C02.2"),
    dict(name="i-j-crossed", file="evo/core/metrics.py",
         find="                              traj_est.poses_se3[i], traj_est.poses_se3[j])",
         replace="                              traj_est.poses_se3[j], traj_est.poses_se3[i])",
         expect="fire", rule="C02.3"),
    dict(name="mixed-trajectories", file="evo/core/metrics.py",
         find="                self.rpe_base(traj_ref.poses_se3[i], traj_ref.poses_se3[j],",
         replace="                self.rpe_base(traj_ref.poses_se3[i], traj_est.poses_se3[j],",
         expect="fire", rule="C02.3"),
    dict(name="ratio-by-estimate", file="evo/core/metrics.py",
         find="                                       ref_distances[nonzero]) * 100",
         replace="                                       est_distances[nonzero]) * 100",
         expect="fire", rule="C02.4"),
    dict(name="pairs-source-inverted", file="evo/core/metrics.py",
         find="             if self.pairs_from_reference else traj_est.poses_se3), self.delta,",
         replace="             if not self.pairs_from_reference else traj_est.poses_se3), self.delta,",
         expect="fire", rule="C02.5"),
    dict(name="ctor-flag-crossed", file="evo/main_rpe.py",
         find="                             all_pairs, pairs_from_reference)",
         replace="                             all_pairs, all_pairs)",
         expect="fire", rule="C02.7"),
    dict(name="reduce-only-est", file="evo/main_rpe.py",
         find="    traj_ref.reduce_to_ids(delta_ids_with_first_pose)\n",
         replace="", expect="fire", allow_error=True),
    dict(name="rpe-base-consistent-swap", file="evo/core/metrics.py",
         find="        E_i = lie.relative_se3(Q_rel, P_rel)",
         replace="        E_i = lie.relative_se3(P_rel, Q_rel)", expect="silent"),
    dict(name="unit-percent-dropped", file="evo/core/metrics.py",
         find="        elif pose_relation == PoseRelation.point_distance_error_ratio:\n"
              "            self.unit = Unit.percent",
         replace="        elif pose_relation == PoseRelation.point_distance_error_ratio:\n"
                 "            self.unit = Unit.none",
         expect="fire", rule="C02.6"),
]
