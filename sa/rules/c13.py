"""C13 — merging and tabulating results."""
from __future__ import annotations

import ast

from typing import List, Optional

from .. import terms as tm
from ..effects import direct_effects, roots
from ..interp import Interp
from ..lib import comparisons, const_eval, fmt, is_call_to, per_element
from ..terms import T, const

EXPLANATION = """
Structure of result.merge_results, pandas_bridge.result_to_df /
load_results_as_dataframe and main_res.run. C13.1: every store in
merge_results targets the deep copy of results[0] or fresh objects (effect
analysis). C13.2: a single input is returned as is; empty / non-Result input
raises. C13.3: a raise ResultException dependent on the pairwise *equality* of
the key sets (consecutive pairs, both directions) of both `np_arrays` and
`stats` precedes the merge. C13.4: every statistic is summed over results[1:]
onto the copy of results[0] and divided by len(results); arrays are added and
divided likewise when all per-result array-size lists are equal, else
appended with np.append(accumulated, next) in input order. C13.5: the info of
the first result is kept (no store to info after the copy). C13.6: result_to_df
labels by basename of est_name unless a label is given;
load_results_as_dataframe loads every file in order, one column per file (no
keyed container that could collapse equal labels), passes the file name iff
use_filenames, and with merge tabulates merge_results of exactly the loaded
list; main_res.run exits on duplicate labels before any table is written and
hands save_df_as_table the frame selected by table_export_data.
"""
UNDECIDED = [
    "arithmetic exactness of the mean; pandas' internal alignment / stack() "
    "behaviour",
]
TRUSTED = ["pandas.concat keeps one column per concatenated frame",
           "copy.deepcopy", "numpy.add / divide / append"]
ASSUMPTIONS = []
MANIFEST = dict(
    text="Decides the merge algorithm's structure (what is summed onto "
         "what, divisor = number of inputs, append operand order, strategy "
         "choice), the refusal of differing key sets in both directions for "
         "both dictionaries, that inputs are untouched and the first info is "
         "kept, and the evo_res table wiring including that no input file "
         "can be silently dropped before the duplicate-label check.",
    note="pandas / numpy semantics are trusted; numerical exactness of the "
         "mean is not decided.",
    technique="provenance term matching + effect analysis + must-precede on "
              "the event log",
)
FLOORS = {"C13.1": 1, "C13.2": 3, "C13.3": 2, "C13.4": 6, "C13.5": 1,
          "C13.6": 8, "C13.7": 3, "C13.8": 2}

MR = "evo.core.result.merge_results"
RES = tm.param("results")
LEN = tm.call(tm.glob("builtins.len"), (RES,))
REST = tm.sub(RES, T("slice", const(1), tm.NONE, tm.NONE))


def _seq_of(t: T):
    """(attribute path term with the result as hole, source sequence) of a
    list built per result: [f(r) for r in results] -> (f(HOLE), results)"""
    pe = per_element(t)
    if pe is None or pe[3]:
        return None
    elt, lid, it, _ = pe
    hole = T("elem", it, lid)
    return elt.map(lambda x: HOLE if x is hole else None), it


HOLE = T("hole")
FIRST = tm.sub(RES, const(0))


def _all_equal(c: T):
    """c == all(<neighbours or everything-against-the-first are equal>) over
    a per-result list: returns (f(HOLE), compared through) or None.
    Forms: all(a == b for a, b in zip(L, L[1:])),
           all(x == L[0] for x in L[1:]) / all(L[0] == x for x in L),
           with L = [f(r) for r in results] or f applied in place."""
    if not (is_call_to(c, "builtins.all") and c.args[1] and
            c.args[1][0].op == "comp"):
        return None
    comp = c.args[1][0]
    if comp.args[3] or len(comp.args[2]) != 1:
        return None
    it, lid = comp.args[2][0]
    elt = comp.args[1]
    if not (elt.op == "cmp" and elt.args[0] == "Eq"):
        return None
    sides = [elt.args[1], elt.args[2]]
    S1 = T("slice", const(1), tm.NONE, tm.NONE)
    if is_call_to(it, "builtins.zip") and len(it.args[1]) == 2 and \
            it.args[1][1] is tm.sub(it.args[1][0], S1):
        A, B = it.args[1]
        # the compared values: the elements themselves or a function of them
        ea, eb = T("elem", A, lid), T("elem", B, lid)
        fa = sides[0].map(lambda x: HOLE if x is ea else None)
        fb = sides[1].map(lambda x: HOLE if x is eb else None)
        if fa is not fb:
            fa = sides[1].map(lambda x: HOLE if x is ea else None)
            fb = sides[0].map(lambda x: HOLE if x is eb else None)
        if fa is not fb or not any(x is HOLE for x in fa.walk()):
            return None
        so = _seq_of(A)
        if so is None and A is RES:
            so = (HOLE, RES)
        if so is None or so[1] is not RES:
            return None
        return fa.map(lambda x: so[0] if x is HOLE else None)
    # star: every other one against the first
    el = T("elem", it, lid)
    for x_side, f_side in (sides, sides[::-1]):
        if not any(x is el for x in x_side.walk()):
            continue
        fx = x_side.map(lambda x: HOLE if x is el else None)
        seq = it
        skip_first = False
        if seq.op == "sub" and seq.args[1] is S1:
            seq, skip_first = seq.args[0], True
        so = _seq_of(seq) if seq is not RES else (HOLE, RES)
        if so is None or so[1] is not RES:
            continue
        f = fx.map(lambda x: so[0] if x is HOLE else None)
        first = f.map(lambda x: FIRST if x is HOLE else None)
        # the first one, as L[0] or f(results[0])
        f0 = f_side
        if f0.op == "sub" and tm.is_const(f0.args[1], 0):
            so0 = _seq_of(f0.args[0])
            if so0 is not None and so0[1] is RES:
                f0 = so0[0].map(lambda x: FIRST if x is HOLE else None)
                f0 = fx.map(lambda x: f0 if x is HOLE else None) \
                    if fx is not HOLE else f0
        if f0 is first:
            return f
    return None


def _equal_form(c: T):
    """(f(HOLE), polarity): the atom c is true (polarity True) / false
    (polarity False) exactly when f(r) is the same for all results:
    all(a == b ...) or any(a != b ...) over neighbours / against the first"""
    f = _all_equal(c)
    if f is not None:
        return f, True
    if is_call_to(c, "builtins.any") and c.args[1] and \
            c.args[1][0].op == "comp":
        comp = c.args[1][0]
        elt = comp.args[1]
        if elt.op == "cmp" and elt.args[0] == "NotEq":
            flipped = T("call", tm.glob("builtins.all"), (T(
                "comp", comp.args[0], T("cmp", "Eq", elt.args[1],
                                        elt.args[2]),
                comp.args[2], comp.args[3]),), ())
            f = _all_equal(flipped)
            if f is not None:
                return f, False
    return None


def _keys_of(f: T) -> Optional[str]:
    """'np_arrays' / 'stats' if f(HOLE) is the key set of that dictionary of
    the result: HOLE.attr.keys(), set(HOLE.attr), HOLE.attr.keys() of a
    per-result list of the dictionaries"""
    g = f
    if is_call_to(g, ".keys") and not g.args[1]:
        g = tm.method_recv(g)
    elif is_call_to(g, "builtins.set", "builtins.frozenset",
                    "builtins.sorted") and len(g.args[1]) == 1:
        g = g.args[1][0]
        if is_call_to(g, ".keys") and not g.args[1]:
            g = tm.method_recv(g)
    else:
        return None
    if g.op == "attr" and g.args[0] is HOLE and g.args[1] in ("np_arrays",
                                                               "stats"):
        return g.args[1]
    return None


def _key_mismatch_atoms(live: T):
    """atoms of a path condition that compare key sets of results:
    yields (atom, attr, value of the atom that means 'the key sets differ',
    two_sided)"""
    out = []
    for a in tm.atoms(live):
        ef = _equal_form(a)
        if ef is not None and _keys_of(ef[0]):
            out.append((a, _keys_of(ef[0]), not ef[1], True))
            continue
        if a.op == "cmp" and a.args[0] in ("Eq", "NotEq"):
            # other.attr.keys() != first.attr.keys() inside a loop over the
            # other results
            for x, y in ((a.args[1], a.args[2]), (a.args[2], a.args[1])):
                els = [e for e in x.walk() if e.op == "elem" and
                       e.args[0] in (REST, RES)]
                if len(set(map(id, els))) != 1:
                    continue
                fx = x.map(lambda t: HOLE if t is els[0] else None)
                if _keys_of(fx) and \
                        y is fx.map(lambda t: FIRST if t is HOLE else None):
                    out.append((a, _keys_of(fx), a.args[0] == "NotEq", True))
                    break
    return out


def _one_sided_key_tests(live: T):
    """key-set relations that are not an equality: differences, subset
    tests, per-key membership loops"""
    hits = []
    for a in tm.atoms(live):
        for x in a.walk():
            keyish = is_call_to(x, ".keys") or (
                x.op == "attr" and x.args[1] in ("np_arrays", "stats"))
            if not keyish:
                continue
        txt_ops = [x for x in a.walk() if
                   (x.op == "binop" and x.args[0] in ("Sub", "BitXor") and
                    any(is_call_to(y, ".keys") for y in x.walk())) or
                   (x.op == "cmp" and x.args[0] in ("LtE", "GtE", "Lt", "Gt",
                                                    "In", "NotIn") and
                    any(y.op == "attr" and y.args[1] in ("np_arrays",
                                                         "stats")
                        for y in x.walk())) or
                   is_call_to(x, ".issubset", ".issuperset")]
        for x in txt_ops:
            attrs = {y.args[1] for y in x.walk() if y.op == "attr" and
                     y.args[1] in ("np_arrays", "stats")}
            for at in attrs:
                hits.append((a, at, x))
    return hits


def _length_case(live: T, n: int) -> Optional[bool]:
    """truth of a path condition of merge_results for a list of n Results"""
    env = {RES: tuple(range(n)), LEN: n, REST: tuple(range(1, n))}

    def assign(a: T):
        if is_call_to(a, "builtins.all") and any(
                is_call_to(x, "builtins.isinstance") for x in a.walk()):
            return True
        try:
            return bool(const_eval(a, env))
        except Exception:
            return None
    return tm.fold(live, assign)


def check(ctx):
    prog = ctx.prog
    f = prog.func(MR)
    ctx.analysed_fn(MR)
    r = Interp(prog).run(f)
    deep = [e for e in r.calls("copy.deepcopy")
            if e.data["args"] and e.data["args"][0] is tm.sub(RES, const(0))]
    if len(deep) == 1:
        MERGED = deep[0].data["result"]
    else:
        # another way of making the accumulator: the object that is returned
        # in the general case; whether it shares storage with the inputs is
        # judged by the effect rule C13.1 below
        cands = [v for v, l in r.returns if v is not tm.sub(RES, const(0))
                 and not tm.is_const(l, False)]
        ctx.require(len(cands) == 1, "merge_results: accumulator object not "
                    "found (neither deepcopy(results[0]) nor a single "
                    "returned object)")
        MERGED = cands[0]
        deep = [e for e in r.of_kind("call", "setattr")
                if e.data.get("result") is MERGED or
                e.data.get("base") is MERGED][:1]
        ctx.require(bool(deep), "merge_results: creation of the accumulator "
                    "not found")

    # --------------------------------------------------------------- C13.1
    effs = direct_effects(r)
    bad = [e for e in effs if any(k == "param" for k, _ in e.roots)]
    ctx.ob("C13.1", f, not bad,
           "merge_results: every store targets the deep copy of results[0] "
           "or fresh objects — no input result is modified" if not bad else
           f"merge_results modifies an input result: {bad[0]!r}",
           key="C13.1:inputs-untouched",
           effects=[repr(e) for e in bad[:3]])
    # --------------------------------------------------------------- C13.2
    raises = r.of_kind("raise")
    v = [e for e in raises if "ValueError" in (e.data.get("exc_name") or "")]
    ok = bool(v) and any(a is RES for a in tm.atoms(v[0].live)) and any(
        is_call_to(a, "builtins.all") for a in tm.atoms(v[0].live))
    if not ok and v:
        # the two refusals written as separate statements / a loop over the
        # elements: some ValueError depends on the emptiness of the input
        # and some on the type of its elements
        ln = tm.call(tm.glob("builtins.len"), (RES,), ())
        empt = any(a is RES or (a.op == "cmp" and ln in (a.args[1],
                                                          a.args[2]))
                   for e in v for a in tm.atoms(e.live))
        typ = any(is_call_to(x, "builtins.isinstance")
                  for e in v for x in e.live.walk())
        ok = empt and typ
    ctx.ob("C13.2", f, ok,
           "empty input or non-Result elements raise" if ok else
           "empty / non-Result input is not refused", key="C13.2:refuse")
    # one result: returned as it is; decided on the path conditions of the
    # returns for lists of 1..8 results (whatever the test is spelled like)
    single = [(val, live) for val, live in r.returns if val is FIRST]
    others = [(val, live) for val, live in r.returns if val is not FIRST]
    verdict = None
    if len(single) == 1:
        one = _length_case(single[0][1], 1)
        more = [_length_case(single[0][1], n) for n in range(2, 9)]
        rest1 = [_length_case(l, 1) for _, l in others]
        if one is True and all(m is False for m in more) and \
                all(x is False for x in rest1):
            verdict = True
        elif one is False or any(m is True for m in more):
            verdict = False
    elif not single and all(_length_case(l, 1) is not False
                            for _, l in others) and others:
        verdict = False
    if verdict is None:
        ctx.undecidable("C13.2", f, "merge_results: the condition under "
                        "which results[0] itself is returned is not "
                        "understood (unknown idiom)")
    else:
        ctx.ob("C13.2", f, verdict,
               "a single result is returned as is (and only then)"
               if verdict else
               "a single input result is not returned unchanged / the first "
               "result itself is returned for longer lists",
               key="C13.2:single")
    ok = any(val is MERGED for val, _ in r.returns)
    ctx.ob("C13.2", f, ok, "otherwise the merged copy is returned",
           key="C13.2:returns-copy", nontrivial=False)
    # --------------------------------------------------------------- C13.3
    rex = [e for e in raises
           if "ResultException" in (e.data.get("exc_name") or "")]
    covered = {}
    for e in rex:
        facts = _key_mismatch_atoms(e.live)
        for a, attr, differs, _ in facts:
            # all key sets equal: no refusal; this one differs: refusal
            # unless an unrelated guard prevents it
            def all_equal(t):
                for a2, _, d2, _ in facts:
                    if t is a2:
                        return not d2
                return None
            quiet = tm.fold(e.live, all_equal) is False
            fires = tm.fold(e.live, lambda t: differs if t is a else None) \
                is not False
            if quiet and fires and e.idx < deep[0].idx:
                covered[attr] = e
    one_sided = [h for e in rex for h in _one_sided_key_tests(e.live)]
    for a in ("np_arrays", "stats"):
        if a in covered:
            ctx.ob("C13.3", covered[a], True,
                   f"differing `{a}` key sets raise ResultException before "
                   f"anything is merged (equality of the key sets of all "
                   f"results)", key=f"C13.3:{a}")
            continue
        os_ = [h for h in one_sided if h[1] == a]
        if os_:
            ctx.ob("C13.3", f, False,
                   f"the `{a}` key sets are only compared one-sidedly "
                   f"({fmt(os_[0][2])[:80]}): a result with an extra key is "
                   f"merged silently", key=f"C13.3:{a}")
        elif rex and all(any(x.op == "exc" and "KeyError" in str(x.args[0])
                             for x in tm.atoms(e.live)) for e in rex):
            ctx.ob("C13.3", rex[0], False,
                   f"differing `{a}` key sets are only noticed through a "
                   f"KeyError of the look-ups while merging: a result that "
                   f"has an *extra* key (or a first result with fewer keys) "
                   f"is merged silently", key=f"C13.3:{a}")
        elif covered or not rex:
            ctx.ob("C13.3", f, False,
                   f"no ResultException depends on the equality of the "
                   f"`{a}` key sets of the results: inputs whose {a} keys "
                   f"differ (e.g. a later result with an extra key) are "
                   f"merged silently", key=f"C13.3:{a}")
        else:
            ctx.undecidable("C13.3", f, f"refusal of differing `{a}` key "
                            f"sets: the test guarding the ResultException "
                            f"is not understood (unknown idiom)")
    # --------------------------------------------------------------- C13.4
    from ..reduce import NotUnderstood, KEY, hoist, reduction, value_at
    from ..lib import linear
    loops = {e.data["lid"]: e.data["iter"] for e in r.of_kind("loop")}

    def judge(what, scalar, want_kind, name, site, key_sum, key_div):
        """scalar = value under a generic key; want_kind 'sum' (divided by
        N) or 'cat' (not divided)"""
        alts = [scalar]
        for _ in range(4):
            alts = [b_ for a_ in alts for b_ in tm.strip_ite(hoist(a_))]
        verdicts = []
        for alt in alts:
            red = reduction(alt)
            if red is None:
                verdicts.append((None, f"{what}: value under a key is "
                                 f"{fmt(alt)[:120]}"))
                continue
            it = loops.get(red["lid"])
            other = T("elem", it, red["lid"]) if it is not None else None
            first_v = tm.sub(tm.attr(MERGED, name), KEY)
            raw_first = tm.sub(tm.attr(FIRST, name), KEY)
            want_add = tm.sub(tm.attr(other, name), KEY) if other is not \
                None else None
            if red["kind"] != want_kind:
                verdicts.append((False, f"{what}: the values are "
                                 f"{'appended' if red['kind'] == 'cat' else 'added up'}"
                                 f" — expected "
                                 f"{'np.append' if want_kind == 'cat' else 'a sum'}"))
                continue
            if it is not REST:
                verdicts.append((False if it is RES else None,
                                 f"{what}: accumulated over {fmt(it)[:60]}, "
                                 f"not over results[1:] onto the first"))
                continue
            if red["init"] not in (first_v, raw_first):
                verdicts.append((None, f"{what}: accumulation starts at "
                                 f"{fmt(red['init'])[:80]}"))
                continue
            if red["addend"] is not want_add:
                verdicts.append((None, f"{what}: each step adds "
                                 f"{fmt(red['addend'])[:80]}"))
                continue
            if want_kind == "cat" and red["reversed"]:
                verdicts.append((False, f"{what}: np.append(next, "
                                 f"accumulated) — the arrays are "
                                 f"concatenated in reverse input order"))
                continue
            verdicts.append((True, red))
        if any(v is None for v, _ in verdicts) and \
                not any(v is False for v, _ in verdicts):
            ctx.undecidable("C13.4", site,
                            [w for v, w in verdicts if v is None][0] +
                            " (unknown idiom)")
            return
        bad_ = [w for v, w in verdicts if v is False]
        ctx.ob("C13.4", site, not bad_,
               f"{what}: value[k] = first[k] "
               f"{'+' if want_kind == 'sum' else '++'} next[k] ... over "
               f"results[1:] in input order" if not bad_ else bad_[0],
               key=key_sum)
        if bad_:
            return
        divs = [red["divisor"] for _, red in verdicts]
        if want_kind == "cat":
            ok_ = all(d is None for d in divs)
            ctx.ob("C13.4", site, ok_,
                   f"{what}: appended arrays are not divided" if ok_ else
                   f"{what}: appended arrays are rescaled by "
                   f"{fmt([d for d in divs if d is not None][0])}",
                   key=key_div)
            return
        lin = [linear(d) if d is not None else None for d in divs]
        n_forms = ({LEN: 1}, {tm.call(tm.glob("builtins.len"), (REST,), ()):
                              1, 1: 1})
        ok_ = all(l in n_forms for l in lin)
        ctx.ob("C13.4", site, ok_,
               f"{what}: the sum is divided by len(results) (arithmetic "
               f"mean of all N inputs)" if ok_ else
               f"{what}: the sum is divided by "
               f"{fmt(divs[0]) if divs[0] is not None else 'nothing'} — the "
               f"divisor must be the number of input results",
               key=key_div)

    stats_v = r.attrs.get((MERGED, "stats"))
    ctx.require(stats_v is not None, "merge_results: the merged statistics "
                "are never stored (unknown idiom)")
    try:
        sc = value_at(stats_v)
    except NotUnderstood as ex:
        sc = None
        ctx.undecidable("C13.4", f, f"statistics: construction not "
                        f"understood: {ex} (unknown idiom)")
    if sc is not None:
        judge("statistics", sc, "sum", "stats", f, "C13.4:stats-sum",
              "C13.4:stats-divisor")
    # the strategy decision: all per-result array-size lists are equal
    eqs = []
    seen = set()
    for e in r.events:
        pool = list(tm.atoms(e.live))
        for k in ("value", "result"):
            v = e.data.get(k)
            if isinstance(v, T):
                pool.extend(a_ for x in v.walk() if x.op == "ite"
                            for a_ in tm.atoms(x.args[0]))
        for a_ in pool:
            if id(a_) in seen:
                continue
            seen.add(id(a_))
            ef = _equal_form(a_)
            fe = ef[0] if ef else None
            if fe is not None and any(
                    t.op == "attr" and t.args[1] == "size"
                    for t in fe.walk()) and any(
                    t.op == "attr" and t.args[1] == "np_arrays"
                    for t in fe.walk()):
                eqs.append((a_, ef[1]))
    ctx.require(len(eqs) >= 1, "merge_results: no decision on whether all "
                "per-result lists of array sizes are equal found (unknown "
                "merge-strategy idiom)")
    EQ, EQ_POL = eqs[0]
    ctx.ob("C13.4", f, True,
           "the merge strategy is decided by whether all per-result "
           "array-size lists are equal", key="C13.4:strategy")
    for equal in (True, False):
        rc = Interp(prog, assume=lambda t, v=(equal == EQ_POL): v
                    if t is EQ else None).run(f)
        ctx.analysed["configs"] += 1
        mode = "equal sizes" if equal else "different sizes"
        loops = {e.data["lid"]: e.data["iter"] for e in rc.of_kind("loop")}
        arr_v = rc.attrs.get((MERGED, "np_arrays"))
        nm = "add" if equal else "append"
        if arr_v is None:
            ctx.ob("C13.4", f, False, f"[{mode}] the arrays of the merged "
                   f"result are never written: they stay the first "
                   f"result's", key=f"C13.4:array-{nm}")
            continue
        try:
            sc = value_at(arr_v)
        except NotUnderstood as ex:
            ctx.undecidable("C13.4", f, f"[{mode}] arrays: construction "
                            f"not understood: {ex} (unknown idiom)")
            continue
        judge(f"[{mode}] arrays", sc, "sum" if equal else "cat", "np_arrays",
              f, f"C13.4:array-{nm}",
              "C13.4:array-divisor" if equal else
              "C13.4:append-not-divided")
    loop_res = None
    for e in r.of_kind("loop"):
        if e.data["iter"] is REST:
            loop_res = e
    # --------------------------------------------------------------- C13.5
    first_info = tm.attr(tm.sub(RES, const(0)), "info")

    def info_copy(e):
        """merged.info = (deep)copy of results[0].info, before merging"""
        if e.kind != "setattr" or e.data["name"] != "info":
            return False
        v = e.data["value"]
        return is_call_to(v, "copy.deepcopy", "copy.copy", "builtins.dict",
                          ".copy") and any(x is first_info
                                           for x in v.walk()) and \
            (loop_res is None or e.idx < loop_res.idx)
    info_w = [e for e in r.events if not info_copy(e) and (
              (e.kind == "setattr" and e.data["name"] == "info") or
              (e.kind in ("setitem", "call") and any(
                  x.op == "attr" and x.args[1] == "info" and
                  x.args[0] is MERGED for x in (
                      e.data.get("base") or e.data.get("recv") or
                      tm.NONE).walk()) and
               (e.kind == "setitem" or e.data.get("mutates_recv"))))]
    ctx.ob("C13.5", f, not info_w,
           "the info of the first result is kept (never written after the "
           "copy)" if not info_w else
           f"info is modified at {info_w[0].where}", key="C13.5:info")

    ctx.section(_tables, ctx, prog)
    ctx.section(_res_parser, ctx, prog)
    # "exactly the statistics stored in that file": the loader hands back
    # the stored dictionaries as they are — no entry filtered out, e.g. a
    # statistic that is exactly 0.0 (instances of C06.3, load side)
    from ..core import import_rules
    n = import_rules(ctx, "c06", ("C06.3",), "C13.8",
                     pred=lambda o: ":load:" in o.key)
    ctx.require(n >= 2, "C13.8: result loader instances not found")


_E2E = {}


def _labels_end_to_end(prog):
    """Which label does the table column of result file i get, for the
    command lines without and with --use_filenames?  evo_res is interpreted
    from the parsed namespace (lib.cli_namespace) through the loader, however
    the option travels (a flag, a dest shared with another option, explicit
    labels computed by a helper).  {given flags: (verdict, message)} with
    verdict True (file name iff --use_filenames), False (a definite other
    label), None (not decided)."""
    key = id(prog)
    if key in _E2E:
        return _E2E[key]
    from ..lib import cli_namespace
    PB = "evo.tools.pandas_bridge."
    out = {}
    args_p = tm.param("args")
    RF = tm.attr(args_p, "result_files")
    h = prog.func("evo.main_res.run")

    def plain(t: T) -> T:
        # list(X) / tuple(X) of the file list keep order and entries
        return t.map(lambda x: x.args[1][0] if is_call_to(
            x, "builtins.list", "builtins.tuple") and len(x.args[1]) == 1
            and not x.args[2] else None)
    for given in ((), ("--use_filenames",)):
        try:
            ns = cli_namespace(prog, "evo.main_res_parser", given)
            if ns is None:
                out[given] = (None, "option action not modelled")
                continue
            preset = {(args_p, d): v for d, v in ns.items() if v is not None}
            it = Interp(prog, inline=lambda fn: fn.qualname ==
                        PB + "load_results_as_dataframe", max_depth=4)
            it.attr_absent = lambda b, n, ns=ns: b is args_p and n not in ns
            rh = it.run(h, preset_attrs=preset)
        except Exception as ex:           # noqa: BLE001 - any analysis gap
            out[given] = (None, f"interpretation failed: {ex}")
            continue
        live = lambda e: not tm.is_const(e.live, False)
        loads = [e for e in rh.calls(
            "evo.tools.file_interface.load_res_file") if live(e)]
        rts = [e for e in rh.calls(PB + "result_to_df") if live(e)]
        if len(loads) != 1 or len(rts) != 1:
            out[given] = (None, f"{len(loads)} load / {len(rts)} tabulate "
                                f"calls remain")
            continue
        fa = plain(loads[0].data["args"][0])
        lab = (rts[0].data["bound"] or {}).get("label")
        lab = plain(lab) if lab is not None else tm.NONE
        ro = (rts[0].data["bound"] or {}).get("result_obj")
        if not (fa.op == "elem" and fa.args[0] is RF and
                ro is loads[0].data["result"]):
            out[given] = (None, f"file {fmt(fa)} / object {fmt(ro)}")
            continue
        want = fa if given else tm.NONE
        if lab is want:
            out[given] = (True, "")
        elif lab is tm.NONE or lab is fa or tm.is_const(lab):
            out[given] = (False, f"with {' '.join(given) or 'no option'} "
                          f"the column of a file is labelled {fmt(lab)}, "
                          f"expected {'the file name' if given else 'the est_name of the result (label None)'}")
        else:
            out[given] = (None, f"label {fmt(lab)[:100]}")
    _E2E[key] = out
    return out


def _e2e_verdict(prog):
    e = _labels_end_to_end(prog)
    if all(v[0] is True for v in e.values()):
        return True, ""
    bad = [v[1] for v in e.values() if v[0] is False]
    if bad:
        return False, bad[0]
    return None, "; ".join(v[1] for v in e.values() if v[0] is None)


def _res_parser(ctx, prog):
    """C13.7: 'for every input result file ... in input order': the list the
    user typed must reach run() as typed — a parse-time transformation of
    the positional file list (custom action / converting type that sorts,
    de-duplicates or filters) changes which result is 'the first' and the
    weights of the mean."""
    from ..lib import parse_time_transform, parser_arguments
    args_ = [(m, n, o, k) for m, n, o, k in parser_arguments(prog)
             if m == "evo.main_res_parser"]
    files = [(m, n, o, k) for m, n, o, k in args_ if "result_files" in o]
    ctx.require(len(files) == 1, "evo_res: positional `result_files` "
                "argument not found")
    m, n, o, k = files[0]
    why = parse_time_transform(k)
    site = f"{m}:{n.lineno}"
    ctx.ob("C13.7", site, why is None,
           "evo_res: the given result files reach run() as typed (order and "
           "multiplicity)" if why is None else
           f"evo_res: the file list is transformed while parsing ({why}): "
           f"merge / table no longer see the files in the order and "
           f"multiplicity the user gave", key="C13.7:result_files")
    for name in ("--merge", "--use_filenames"):
        hit = [(kk, nn) for _, nn, oo, kk in args_ if name in oo]
        ok = len(hit) == 1 and isinstance(hit[0][0].get("action"),
                                          ast.Constant) and \
            hit[0][0]["action"].value == "store_true"
        if not ok and name == "--use_filenames":
            # the option may travel differently (a dest it shares with a
            # newer option ...): what counts is the label that arrives
            v, why = _e2e_verdict(prog)
            if v is None:
                ctx.undecidable("C13.7", site, f"evo_res: --use_filenames "
                                f"is not a plain flag and its effect on the "
                                f"labels is not decided ({why})")
                continue
            ctx.ob("C13.7", site, v,
                   "evo_res: --use_filenames (not a plain flag) labels the "
                   "columns with the file names, its absence with est_name "
                   "(end to end)" if v else f"evo_res: {why}",
                   key=f"C13.7:{name}")
            continue
        ctx.ob("C13.7", site, ok,
               f"evo_res: {name} is a plain store_true flag",
               key=f"C13.7:{name}")


def _tables(ctx, prog):
    PB = "evo.tools.pandas_bridge."
    f = prog.func(PB + "result_to_df")
    ctx.analysed_fn(f.qualname, PB + "load_results_as_dataframe",
                    "evo.main_res.run")
    r = Interp(prog).run(f)
    ret = r.ret
    lab = None
    for x in ret.walk():
        if x.op == "call" and tm.callee_name(x) == ".to_frame":
            for k, v in x.args[2]:
                if k == "name":
                    lab = v
    ok = False
    if lab is not None:
        alts = tm.strip_ite(lab)
        has_given = any(a is tm.param("label") for a in alts)
        has_base = any(is_call_to(a, "os.path.basename") and any(
            tm.is_const(x, "est_name") for x in a.walk()) for a in alts)
        # the given label wins whenever it is not None
        c = lab.args[0] if lab.op == "ite" else None
        given_first = c is not None and any(
            a.op == "cmp" and a.args[1] is tm.param("label") and
            tm.is_const(a.args[2], None) for a in tm.atoms(c))
        ok = has_given and has_base and given_first
        if ok:
            # decision table over (label given?, est_name present?)
            lp = tm.param("label")

            def pick(t: T, given: bool, has_name: bool):
                while t.op == "ite":
                    def env(a):
                        if a.op == "cmp" and a.args[0] in ("Is", "IsNot") \
                                and a.args[1] is lp:
                            return (not given) == (a.args[0] == "Is")
                        if a.op == "cmp" and a.args[0] in ("In", "NotIn") \
                                and tm.is_const(a.args[1], "est_name"):
                            return has_name == (a.args[0] == "In")
                        return None
                    v = tm.fold(t.args[0], env)
                    if v is None:
                        return None
                    t = t.args[1] if v else t.args[2]
                return t
            t_gn, t_g = pick(lab, True, True), pick(lab, True, False)
            t_n, t_0 = pick(lab, False, True), pick(lab, False, False)
            ok = t_gn is lp and t_g is lp and t_n is not None and \
                is_call_to(t_n, "os.path.basename") and any(
                    tm.is_const(x, "est_name") for x in t_n.walk()) and \
                t_0 is not None and tm.is_const(t_0) and \
                isinstance(t_0.args[1], str)
    ctx.ob("C13.6", f, ok,
           "result_to_df: column label = given label, else basename of the "
           "result's est_name" if ok else
           f"result_to_df labels the column {fmt(lab)}",
           key="C13.6:label", label=fmt(lab))
    d = [x for x in ret.walk() if is_call_to(x, "pandas.DataFrame")]
    ok = False
    if d:
        kw = dict(d[0].args[2])
        data = kw.get("data") or (d[0].args[1][0] if d[0].args[1] else None)
        if data is not None:
            base = data
            while base.op == "upd":
                base = base.args[0]
            if base.op == "dict":
                dd = {k.args[1]: v for k, v in base.args if tm.is_const(k)}
                ro = tm.param("result_obj")
                ok = dd.get("stats") is tm.attr(ro, "stats") and \
                    dd.get("info") is tm.attr(ro, "info")
    ctx.ob("C13.6", f, ok,
           "result_to_df tabulates the result's own stats and info "
           "dictionaries" if ok else
           "result_to_df does not tabulate result_obj.stats / .info as they "
           "are", key="C13.6:stats-source")

    g = prog.func(PB + "load_results_as_dataframe")
    files = tm.param("result_files")
    for merge in (False, True):
        rg = Interp(prog).run(g, {"merge": const(merge)})
        loads = rg.calls("evo.tools.file_interface.load_res_file")
        ctx.require(len(loads) == 1, "load_res_file call not found")
        fa = loads[0].data["args"][0]
        # (list(files) / tuple(files) keep entries and order)
        src = fa.args[0] if fa.op == "elem" else None
        while src is not None and is_call_to(
                src, "builtins.list", "builtins.tuple") and \
                len(src.args[1]) == 1 and not src.args[2]:
            src = src.args[1][0]
        ok = fa.op == "elem" and src is files
        ctx.ob("C13.6", loads[0], ok,
               f"[merge={merge}] every given result file is loaded, in "
               f"order" if ok else
               f"[merge={merge}] load_res_file receives {fmt(fa)}",
               key=f"C13.6:load-all:{merge}")
        if merge:
            m = rg.calls(MR)
            ok = len(m) == 1 and per_element(m[0].data["args"][0]) is not \
                None and not per_element(m[0].data["args"][0])[3] and \
                is_call_to(rg.ret, PB + "result_to_df") and \
                rg.ret.args[1][0] is m[0].data["result"]
            ctx.ob("C13.6", g, ok,
                   "[merge=True] the table shows merge_results of exactly "
                   "the loaded list" if ok else
                   f"[merge=True] table is {fmt(rg.ret)}",
                   key="C13.6:merge-table")
            continue
        rt = rg.calls(PB + "result_to_df")
        ctx.require(len(rt) == 1, "result_to_df call not found")
        b = rt[0].data["bound"]
        want = tm.ite(tm.param("use_filenames"), fa, tm.NONE)
        ok = b.get("result_obj") is loads[0].data["result"] and \
            b.get("label") is want
        if not ok and g.params != ["result_files", "use_filenames", "merge"]:
            # the loader's interface changed: judged from the command line
            v, why = _e2e_verdict(prog)
            if v is None:
                ctx.undecidable("C13.6", rt[0], f"label source behind the "
                                f"changed loader interface not decided "
                                f"({why})")
            else:
                ctx.ob("C13.6", rt[0], v,
                       "each file's result is tabulated under the file name "
                       "iff --use_filenames (end to end through the changed "
                       "loader interface)" if v else why,
                       key="C13.6:label-source")
            ok = None
        if ok is not None:
            ctx.ob("C13.6", rt[0], ok,
                   "each file's result is tabulated under the file name iff "
                   "use_filenames" if ok else
                   f"result_to_df receives label {fmt(b.get('label'))}",
                   key="C13.6:label-source")
        # one column per file: no keyed container of per-file frames
        keyed = [e for e in rg.of_kind("setitem")
                 if any(x is rt[0].data["result"]
                        for x in e.data["value"].walk())]
        # (dict.update with entries taken from the frame is the same store)
        keyed_u = [e for e in rg.of_kind("call")
                   if e.data.get("name") == ".update" and
                   e.data.get("mutates_recv") and e.data["args"] and
                   any(x is rt[0].data["result"]
                       for x in e.data["args"][0].walk())]
        kby = fmt(keyed[0].data['index']) if keyed else (
            "the frame's own column labels (dict.update)" if keyed_u else "")
        keyed = keyed + keyed_u
        ctx.ob("C13.6", keyed[0] if keyed else g, not keyed,
               "per-file frames are not collected in a keyed container"
               if not keyed else
               f"per-file frames are stored in a container keyed by "
               f"{kby}: two files with the same "
               f"label collapse into one column, so a file is dropped and "
               f"the duplicate-label check of evo_res can never fire",
               key="C13.6:keyed-collection")
        cc = [e for e in rg.calls("pandas.concat")]
        ok = bool(cc) and any(
            any(x is rt[0].data["result"] for x in e.data["args"][0].walk())
            for e in cc) and not keyed
        if ok:
            e = [e for e in cc if any(x is rt[0].data["result"]
                                      for x in e.data["args"][0].walk())][0]
            kw = dict(e.data["kwargs"])
            in_loop = bool(e.loops)
            # ... or once, on the list that collected one frame per file
            arg0 = Interp.unname(e.data["args"][0])
            pe_ = per_element(arg0) if arg0.op == "comp" else None
            collected = pe_ is not None and not pe_[3] and \
                pe_[0] is rt[0].data["result"] and \
                rt[0].loops and pe_[1] == rt[0].loops[-1]
            axis_ok = tm.is_const(kw.get("axis", const(0)), "columns") or \
                tm.is_const(kw.get("axis", const(0)), 1)
            ok = (in_loop or collected) and axis_ok
            if axis_ok and not ok:
                ok = None       # concatenated column-wise, in a form this
                #                 rule does not read as one frame per file
        if not keyed:
            if not cc:
                ctx.undecidable("C13.6", g, "per-file frames are not "
                                "combined with pandas.concat")
            elif ok is None:
                ctx.undecidable("C13.6", g, "per-file frames reach "
                                "pandas.concat(axis='columns') through a "
                                "collection this rule does not read as one "
                                "frame per file in input order")
            else:
                ctx.ob("C13.6", g, ok,
                       "one column per loaded file is concatenated in "
                       "input order" if ok else
                       "per-file frames are not concatenated column-wise, "
                       "one per file", key="C13.6:concat")

    h = prog.func("evo.main_res.run")
    rh = Interp(prog).run(h)
    A = lambda n: tm.attr(tm.param("args"), n)
    ld = rh.calls(PB + "load_results_as_dataframe")
    ctx.require(len(ld) == 1, "evo_res: load_results_as_dataframe call not "
                "found")
    b = ld[0].data["bound"]
    # parameters the loader gained later are analysed at their defaults: a
    # value evo_res itself passes for one of them (a filter on the arrays
    # that are loaded ...) takes the run outside that analysis
    tgt_ = ld[0].data.get("target")
    if tgt_ is not None:
        import ast as _ast
        dfl = tgt_.defaults()
        for k_, v_ in b.items():
            if k_ in ("result_files", "use_filenames", "merge", "labels"):
                continue
            d_ = dfl.get(k_)
            same = isinstance(d_, _ast.Constant) and tm.is_const(v_) and \
                tm.const_val(v_) == d_.value
            if not same:
                ctx.undecidable("C13.6", ld[0], f"evo_res passes "
                                f"{k_}={fmt(v_)[:60]} to a parameter the "
                                f"loader gained later: the merge / table "
                                f"rules were decided for its default")
    rf = b.get("result_files")
    RF = A("result_files")
    # the file list itself, or one computed from it by a helper (expanding
    # directories, ...) — but not a re-ordered / truncated / set-ified list
    direct = rf is RF
    def whole_list(a: T) -> bool:
        # the given list itself or a list accumulated from it (not one of
        # its entries, e.g. the files found in one directory)
        while is_call_to(a, "builtins.list", "builtins.tuple",
                         "builtins.set", "builtins.frozenset") and \
                len(a.args[1]) == 1:
            a = a.args[1][0]
        return a is RF or (a.op in ("loopout", "loopvar", "mut") and any(
            x is RF for x in a.walk()))
    derived = rf is not None and not direct and any(
        x is RF for x in rf.walk()) and not any(
        (x.op == "sub" and x.args[0] is RF and x.args[1].op == "slice") or
        (is_call_to(x, "builtins.sorted", "builtins.reversed",
                    "builtins.set", "builtins.frozenset") and x.args[1] and
         whole_list(x.args[1][0])) for x in rf.walk())
    ok = (direct or derived) and \
        b.get("use_filenames") is A("use_filenames") and \
        b.get("merge") is A("merge")
    if not ok and (direct or derived) and b.get("merge") is A("merge") and \
            set(b) - {"result_files", "use_filenames", "merge"}:
        # the label option reaches the loader through an added parameter
        v, why = _e2e_verdict(prog)
        if v is None:
            ctx.undecidable("C13.6", ld[0], f"evo_res loader wiring through "
                            f"the changed interface not decided ({why})")
            ok = None
        else:
            ok = v
    if ok is not None:
        ctx.ob("C13.6", ld[0], ok,
               "evo_res: files / --use_filenames / --merge reach the loader"
               + ("" if direct else " (file list computed from the given paths "
                  "by a helper; its expansion rules are not decided here)")
               if ok else f"evo_res loader wiring: "
                          f"{ {k: fmt(v) for k, v in b.items()} }",
               key="C13.6:res:loader")
    exits = [e for e in rh.calls("sys.exit")]
    sv = rh.calls(PB + "save_df_as_table")
    ctx.require(bool(sv), "evo_res: save_df_as_table call not found")
    def counts_labels(x: T) -> bool:
        # how often a label occurs among all labels: keys.count(k), or
        # collections.Counter(keys)[k]
        return is_call_to(x, ".count") or (
            x.op == "sub" and is_call_to(Interp.unname(x.args[0]),
                                         "collections.Counter"))
    dup = [e for e in exits if e.idx < sv[0].idx and any(
        counts_labels(x) for x in e.live.walk())]
    ok = bool(dup)
    if ok:
        cond = [a for a in tm.atoms(dup[0].live)
                if any(counts_labels(x) for x in a.walk())][0]
        ok = all(tm.fold(s.live, lambda t: True if t is cond else None)
                 is False for s in sv)
    ctx.ob("C13.6", sv[0], ok,
           "evo_res: duplicate labels terminate before any table is "
           "written" if ok else
           "evo_res: the duplicate-label exit does not precede / guard the "
           "table export", key="C13.6:res:duplicates")
    DF = ld[0].data["result"]
    datas = {(s.data["bound"] or {}).get("df") for s in sv}
    ok = all(d is not None and any(x is DF for x in d.walk()) for d in datas)
    ok = ok and all((s.data["bound"] or {}).get("path") is A("save_table")
                    for s in sv)
    ctx.ob("C13.6", sv[0], ok,
           "evo_res: the exported table derives from the loaded frame and "
           "goes to --save_table" if ok else
           "evo_res: exported table wiring deviates", key="C13.6:res:export")


VARIANTS = [
    dict(name="divisor-n-minus-1", file="evo/core/result.py",
         find="        key: summed_value / len(results)",
         replace="        key: summed_value / (len(results) - 1)",
         expect="fire", rule="C13.4"),
    dict(name="deepcopy-removed", file="evo/core/result.py",
         find="    merged_result = copy.deepcopy(results[0])",
         replace="    merged_result = results[0]",
         expect="fire", allow_error=True),
    dict(name="append-operands-swapped", file="evo/core/result.py",
         find="                merged_result.np_arrays[key] = np.append(\n"
              "                    array, result.np_arrays[key])",
         replace="                merged_result.np_arrays[key] = np.append(\n"
                 "                    result.np_arrays[key], array)",
         expect="fire", rule="C13.4"),
    dict(name="one-sided-key-check", file="evo/core/result.py",
         find="        if not all(a.keys() == b.keys() for a, b in zip(dicts, dicts[1:])):",
         replace="        if any(a.keys() - b.keys() for a, b in zip(dicts, dicts[1:])):",
         expect="fire", rule="C13.3"),
    dict(name="stats-keys-unchecked", file="evo/core/result.py",
         find="    dict_lists = [[r.np_arrays for r in results], [r.stats for r in results]]",
         replace="    dict_lists = [[r.np_arrays for r in results]]",
         expect="fire", rule="C13.3"),
    dict(name="info-overwritten", file="evo/core/result.py",
         find="    logger.warning(\"Using info dict of first result.\")",
         replace="    merged_result.info = dict(results[-1].info)",
         expect="fire", rule="C13.5"),
    dict(name="label-always-est-name", file="evo/tools/pandas_bridge.py",
         find="        name = result_file if use_filenames else None",
         replace="        name = None", expect="fire", rule="C13.6"),
    dict(name="dict-collection", file="evo/tools/pandas_bridge.py",
         find="    df = pd.DataFrame()\n    for result_file in result_files:\n"
              "        result_obj = file_interface.load_res_file(result_file)\n"
              "        name = result_file if use_filenames else None\n"
              "        df = pd.concat([df, result_to_df(result_obj, name)], axis=\"columns\")\n"
              "    return df",
         replace="    frames = {}\n    for result_file in result_files:\n"
                 "        result_obj = file_interface.load_res_file(result_file)\n"
                 "        name = result_file if use_filenames else None\n"
                 "        frame = result_to_df(result_obj, name)\n"
                 "        frames[frame.columns[0]] = frame\n"
                 "    return pd.concat(list(frames.values()), axis=\"columns\")",
         expect="fire", rule="C13.6"),
    dict(name="strategy-inverted", file="evo/core/result.py",
         find="    if not all(a == b for a, b in zip(length_lists, length_lists[1:])):",
         replace="    if all(a == b for a, b in zip(length_lists, length_lists[1:])):",
         expect="fire", rule="C13.4"),
]
