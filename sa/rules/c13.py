"""C13 — merging and tabulating results."""
from __future__ import annotations

import ast

from typing import List, Optional

from .. import terms as tm
from ..effects import direct_effects, roots
from ..interp import Interp
from ..lib import comparisons, fmt, is_call_to, per_element
from ..terms import T, const

EXPLANATION = """
Structure of result.merge_results, pandas_bridge.result_to_df /
load_results_as_dataframe and main_res.run. C13.1: every store in
merge_results targets the deep copy of results[0] or fresh objects (effect
analysis). C13.2: a single input is returned as is; empty / non-Result input
raises. C13.3: a raise ResultException dependent on the pairwise *equality* of
the key sets (consecutive pairs, both directions) of both `np_arrays` and
`stats` precedes the merge. C13.4: every statistic is summed over results[1:]
onto the copy of results[0] and divided by len(results); arrays are added and
divided likewise when all per-result array-size lists are equal, else
appended with np.append(accumulated, next) in input order. C13.5: the info of
the first result is kept (no store to info after the copy). C13.6: result_to_df
labels by basename of est_name unless a label is given;
load_results_as_dataframe loads every file in order, one column per file (no
keyed container that could collapse equal labels), passes the file name iff
use_filenames, and with merge tabulates merge_results of exactly the loaded
list; main_res.run exits on duplicate labels before any table is written and
hands save_df_as_table the frame selected by table_export_data.
"""
UNDECIDED = [
    "arithmetic exactness of the mean; pandas' internal alignment / stack() "
    "behaviour",
]
TRUSTED = ["pandas.concat keeps one column per concatenated frame",
           "copy.deepcopy", "numpy.add / divide / append"]
ASSUMPTIONS = []
MANIFEST = dict(
    text="Decides the merge algorithm's structure (what is summed onto "
         "what, divisor = number of inputs, append operand order, strategy "
         "choice), the refusal of differing key sets in both directions for "
         "both dictionaries, that inputs are untouched and the first info is "
         "kept, and the evo_res table wiring including that no input file "
         "can be silently dropped before the duplicate-label check.",
    note="pandas / numpy semantics are trusted; numerical exactness of the "
         "mean is not decided.",
    technique="provenance term matching + effect analysis + must-precede on "
              "the event log",
)
FLOORS = {"C13.1": 1, "C13.2": 3, "C13.3": 2, "C13.4": 6, "C13.5": 1,
          "C13.6": 8, "C13.7": 3}

MR = "evo.core.result.merge_results"
RES = tm.param("results")
LEN = tm.call(tm.glob("builtins.len"), (RES,))
REST = tm.sub(RES, T("slice", const(1), tm.NONE, tm.NONE))


def _pairwise_eq_keys(lit: T) -> Optional[str]:
    """'np_arrays'/'stats' if lit == not all(a.keys() == b.keys() for a, b in
    zip(L, L[1:])) with L = [r.<attr> for r in results]"""
    if lit.op != "not":
        return None
    c = lit.args[0]
    if not (is_call_to(c, "builtins.all") and c.args[1] and
            c.args[1][0].op == "comp"):
        return None
    comp = c.args[1][0]
    if comp.args[3] or len(comp.args[2]) != 1:
        return None
    it, lid = comp.args[2][0]
    if not (is_call_to(it, "builtins.zip") and len(it.args[1]) == 2):
        return None
    A, B = it.args[1]
    if B is not tm.sub(A, T("slice", const(1), tm.NONE, tm.NONE)):
        return None
    elt = comp.args[1]
    if not (elt.op == "cmp" and elt.args[0] == "Eq"):
        return None
    l, r = elt.args[1], elt.args[2]
    ka = tm.call(tm.attr(T("elem", A, lid), "keys"), (), ())
    kb = tm.call(tm.attr(T("elem", B, lid), "keys"), (), ())
    if {l, r} != {ka, kb}:
        return None
    pe = per_element(A)
    if pe is None or pe[3] or pe[2] is not RES or pe[0].op != "attr":
        return None
    return pe[0].args[1]


def _equal_size_lists(c: T) -> bool:
    """c == all(a == b for a, b in zip(L, L[1:])) with L = the per-result
    lists of array sizes"""
    if not (is_call_to(c, "builtins.all") and c.args[1] and
            c.args[1][0].op == "comp"):
        return False
    comp = c.args[1][0]
    if comp.args[3] or len(comp.args[2]) != 1:
        return False
    it, lid = comp.args[2][0]
    elt = comp.args[1]
    if not (is_call_to(it, "builtins.zip") and len(it.args[1]) == 2 and
            it.args[1][1] is tm.sub(it.args[1][0], T(
                "slice", const(1), tm.NONE, tm.NONE)) and
            elt.op == "cmp" and elt.args[0] == "Eq"):
        return False
    A, B = it.args[1]
    if {elt.args[1], elt.args[2]} != {T("elem", A, lid), T("elem", B, lid)}:
        return False
    pe = per_element(A)
    return pe is not None and not pe[3] and pe[2] is RES and any(
        t.op == "attr" and t.args[1] == "size" for t in pe[0].walk()) and \
        any(t.op == "attr" and t.args[1] == "np_arrays"
            for t in pe[0].walk())


def check(ctx):
    prog = ctx.prog
    f = prog.func(MR)
    ctx.analysed_fn(MR)
    r = Interp(prog).run(f)
    deep = [e for e in r.calls("copy.deepcopy")
            if e.data["args"] and e.data["args"][0] is tm.sub(RES, const(0))]
    if len(deep) == 1:
        MERGED = deep[0].data["result"]
    else:
        # another way of making the accumulator: the object that is returned
        # in the general case; whether it shares storage with the inputs is
        # judged by the effect rule C13.1 below
        cands = [v for v, l in r.returns if v is not tm.sub(RES, const(0))
                 and not tm.is_const(l, False)]
        ctx.require(len(cands) == 1, "merge_results: accumulator object not "
                    "found (neither deepcopy(results[0]) nor a single "
                    "returned object)")
        MERGED = cands[0]
        while MERGED.op in ("upd", "mut", "loopout") and False:
            MERGED = MERGED.args[0]
        deep = [e for e in r.of_kind("call", "setattr")
                if e.data.get("result") is MERGED or
                e.data.get("base") is MERGED][:1]
        ctx.require(bool(deep), "merge_results: creation of the accumulator "
                    "not found")

    # --------------------------------------------------------------- C13.1
    effs = direct_effects(r)
    bad = [e for e in effs if any(k == "param" for k, _ in e.roots)]
    ctx.ob("C13.1", f, not bad,
           "merge_results: every store targets the deep copy of results[0] "
           "or fresh objects — no input result is modified" if not bad else
           f"merge_results modifies an input result: {bad[0]!r}",
           key="C13.1:inputs-untouched",
           effects=[repr(e) for e in bad[:3]])
    # --------------------------------------------------------------- C13.2
    raises = r.of_kind("raise")
    v = [e for e in raises if "ValueError" in (e.data.get("exc_name") or "")]
    ok = bool(v) and any(a is RES for a in tm.atoms(v[0].live)) and any(
        is_call_to(a, "builtins.all") for a in tm.atoms(v[0].live))
    ctx.ob("C13.2", f, ok,
           "empty input or non-Result elements raise" if ok else
           "empty / non-Result input is not refused", key="C13.2:refuse")
    single = [(val, live) for val, live in r.returns
              if val is tm.sub(RES, const(0))]
    ok = len(single) == 1 and (LEN, "Eq", const(1)) in comparisons(
        single[0][1])
    ctx.ob("C13.2", f, ok,
           "a single result is returned as is" if ok else
           "a single input result is not returned unchanged",
           key="C13.2:single")
    ok = any(val is MERGED for val, _ in r.returns)
    ctx.ob("C13.2", f, ok, "otherwise the merged copy is returned",
           key="C13.2:returns-copy", nontrivial=False)
    # --------------------------------------------------------------- C13.3
    rex = [e for e in raises
           if "ResultException" in (e.data.get("exc_name") or "")]
    covered = set()
    for e in rex:
        for lit in tm.mk_and(e.live).args if e.live.op == "and" else \
                [e.live]:
            a = _pairwise_eq_keys(lit)
            if a:
                covered.add(a)
                ok = e.idx < deep[0].idx
                ctx.ob("C13.3", e, ok,
                       f"differing `{a}` key sets raise ResultException "
                       f"before anything is merged (pairwise equality of "
                       f"consecutive key sets)", key=f"C13.3:{a}")
    for a in ("np_arrays", "stats"):
        if a not in covered:
            ctx.ob("C13.3", f, False,
                   f"no ResultException depends on the pairwise equality of "
                   f"the `{a}` key sets of consecutive results: inputs "
                   f"whose {a} keys differ (e.g. a later result with an "
                   f"extra key) are merged silently",
                   key=f"C13.3:{a}")
    # merging only after both checks passed
    # --------------------------------------------------------------- C13.4
    sets = [e for e in r.of_kind("setattr")
            if e.data["base"] is MERGED and e.data["name"] == "stats"]
    loop_res = None
    for e in r.of_kind("loop"):
        if e.data["iter"] is REST:
            loop_res = e
    if loop_res is not None:
        # stores before the accumulation loop only initialise the
        # accumulator (a copy of the first result's dict)
        inits = [e for e in sets if e.idx < loop_res.idx]
        for e in inits:
            v = e.data["value"]
            src = tm.attr(tm.sub(RES, const(0)), "stats")
            okc = is_call_to(v, "builtins.dict", "copy.copy", "copy.deepcopy",
                             ".copy") and any(x is src for x in v.walk())
            ctx.ob("C13.4", e, bool(okc),
                   "statistics accumulator starts as a copy of the first "
                   "result's statistics" if okc else
                   f"statistics accumulator starts as {fmt(v)[:80]}",
                   key="C13.4:stats-init")
        sets = [e for e in sets if e.idx > loop_res.idx]
    ctx.require(len(sets) >= 2, "merge_results: stats sum / average stores "
                "not found (unknown idiom)")
    s_sum, s_avg = sets[0], sets[-1]
    ok = loop_res is not None and loop_res.data["lid"] in s_sum.loops
    ctx.ob("C13.4", s_sum, ok,
           "statistics are accumulated over results[1:] in input order" if ok
           else f"statistics are not accumulated over results[1:]",
           key="C13.4:stats-loop")
    okv = False
    v_ = s_sum.data["value"]
    if v_.op == "comp" and v_.args[0] == "dict" and ok:
        (it, lid), = v_.args[2]
        key, val = v_.args[1].args
        el = T("elem", it, lid)
        other = T("elem", REST, loop_res.data["lid"])
        src_ = tm.method_recv(it) if is_call_to(it, ".items") else None
        own_stats = src_ is tm.attr(MERGED, "stats") or (
            src_ is not None and src_.op == "loopvar" and
            str(src_.args[0]).endswith(".stats") and
            src_.args[1] == loop_res.data["lid"])
        okv = own_stats and key is tm.sub(el, const(0)) and \
            val.op == "binop" and val.args[0] == "Add" and \
            {val.args[1], val.args[2]} == {
                tm.sub(el, const(1)),
                tm.sub(tm.attr(other, "stats"), key)}
    ctx.ob("C13.4", s_sum, okv,
           "statistic[k] += next_result.stats[k] for every key of the copy"
           if okv else f"statistics sum is {fmt(v_)}",
           key="C13.4:stats-sum", value=fmt(v_))
    oka = False
    v_ = s_avg.data["value"]
    if v_.op == "comp" and v_.args[0] == "dict" and not s_avg.loops:
        (it, lid), = v_.args[2]
        key, val = v_.args[1].args
        el = T("elem", it, lid)
        oka = key is tm.sub(el, const(0)) and val.op == "binop" and \
            val.args[0] == "Div" and val.args[1] is tm.sub(el, const(1)) \
            and val.args[2] is LEN
    ctx.ob("C13.4", s_avg, oka,
           "statistics are divided by len(results) (arithmetic mean of all "
           "N inputs)" if oka else
           f"statistics average is {fmt(v_)} — the divisor must be the "
           f"number of input results", key="C13.4:stats-divisor",
           value=fmt(v_))
    # the strategy decision: all per-result array-size lists are equal
    eqs = []
    seen = set()
    for e in r.events:
        pool = list(tm.atoms(e.live))
        for k in ("value", "result"):
            v = e.data.get(k)
            if isinstance(v, T):
                pool.extend(a_ for x in v.walk() if x.op == "ite"
                            for a_ in tm.atoms(x.args[0]))
        for a_ in pool:
            if id(a_) in seen:
                continue
            seen.add(id(a_))
            if _equal_size_lists(a_):
                eqs.append(a_)
    ctx.require(len(eqs) >= 1, "merge_results: no decision on "
                "all(a == b for a, b in zip(size_lists, size_lists[1:])) "
                "found (unknown merge-strategy idiom)")
    EQ = eqs[0]
    ctx.ob("C13.4", f, True,
           "the merge strategy is decided by whether all per-result "
           "array-size lists are equal", key="C13.4:strategy")
    other = T("elem", REST, loop_res.data["lid"]) if loop_res else None

    def operands(v):
        return v.args[1] if v.op == "call" else (v.args[1], v.args[2])
    for equal in (True, False):
        rc = Interp(prog, assume=lambda t, v=equal: v if t is EQ
                    else None).run(f)
        ctx.analysed["configs"] += 1
        mode = "equal sizes" if equal else "different sizes"
        items = [e for e in rc.of_kind("setitem")
                 if not tm.is_const(e.live, False) and any(
                     x.op == "attr" and x.args[1] == "np_arrays"
                     for x in e.data["base"].walk())]
        lid = loop_res.data["lid"] if loop_res else -1
        acc = [e for e in items if lid in e.loops]
        fin = [e for e in items if lid not in e.loops]
        want = "numpy.add" if equal else "numpy.append"
        ok = len(acc) == 1 and is_call_to(acc[0].data["value"], want)
        if ok:
            e = acc[0]
            a, b_ = operands(e.data["value"])[:2]
            ok = a.op == "sub" and tm.is_const(a.args[1], 1) and \
                a.args[0].op == "elem" and b_.op == "sub" and \
                b_.args[0] is tm.attr(other, "np_arrays") and \
                b_.args[1] is tm.sub(a.args[0], const(0)) and \
                e.data["index"] is tm.sub(a.args[0], const(0))
        nm = want.split(".")[1]
        ctx.ob("C13.4", acc[0] if acc else f, ok,
               f"[{mode}] arrays: merged[k] = np.{nm}(merged[k], "
               f"next.np_arrays[k]) (accumulated first, next second)" if ok
               else f"[{mode}] arrays are accumulated as "
               f"{[fmt(e.data['value']) for e in acc]} — expected "
               f"np.{nm}(accumulated array, next result's array of the "
               f"same key)", key=f"C13.4:array-{nm}")
        if equal:
            ok = len(fin) == 1
            if ok:
                v = fin[0].data["value"]
                ok = (is_call_to(v, "numpy.divide") or
                      (v.op == "binop" and v.args[0] == "Div")) and \
                    operands(v)[1] is LEN and \
                    fin[0].idx > max(e.idx for e in acc)
            ctx.ob("C13.4", fin[0] if fin else f, ok,
                   "[equal sizes] summed arrays are divided by "
                   "len(results) after the accumulation" if ok else
                   f"[equal sizes] array average is "
                   f"{[fmt(e.data['value']) for e in fin]} — expected "
                   f"sum / len(results)", key="C13.4:array-divisor")
        else:
            ctx.ob("C13.4", fin[0] if fin else f, not fin,
                   "[different sizes] appended arrays are not divided"
                   if not fin else
                   f"[different sizes] appended arrays are rescaled: "
                   f"{fmt(fin[0].data['value'])}",
                   key="C13.4:append-not-divided")
    # --------------------------------------------------------------- C13.5
    first_info = tm.attr(tm.sub(RES, const(0)), "info")

    def info_copy(e):
        """merged.info = (deep)copy of results[0].info, before merging"""
        if e.kind != "setattr" or e.data["name"] != "info":
            return False
        v = e.data["value"]
        return is_call_to(v, "copy.deepcopy", "copy.copy", "builtins.dict",
                          ".copy") and any(x is first_info
                                           for x in v.walk()) and \
            (loop_res is None or e.idx < loop_res.idx)
    info_w = [e for e in r.events if not info_copy(e) and (
              (e.kind == "setattr" and e.data["name"] == "info") or
              (e.kind in ("setitem", "call") and any(
                  x.op == "attr" and x.args[1] == "info" and
                  x.args[0] is MERGED for x in (
                      e.data.get("base") or e.data.get("recv") or
                      tm.NONE).walk()) and
               (e.kind == "setitem" or e.data.get("mutates_recv"))))]
    ctx.ob("C13.5", f, not info_w,
           "the info of the first result is kept (never written after the "
           "copy)" if not info_w else
           f"info is modified at {info_w[0].where}", key="C13.5:info")

    ctx.section(_tables, ctx, prog)
    ctx.section(_res_parser, ctx, prog)


def _res_parser(ctx, prog):
    """C13.7: 'for every input result file ... in input order': the list the
    user typed must reach run() as typed — a parse-time transformation of
    the positional file list (custom action / converting type that sorts,
    de-duplicates or filters) changes which result is 'the first' and the
    weights of the mean."""
    from ..lib import parse_time_transform, parser_arguments
    args_ = [(m, n, o, k) for m, n, o, k in parser_arguments(prog)
             if m == "evo.main_res_parser"]
    files = [(m, n, o, k) for m, n, o, k in args_ if "result_files" in o]
    ctx.require(len(files) == 1, "evo_res: positional `result_files` "
                "argument not found")
    m, n, o, k = files[0]
    why = parse_time_transform(k)
    site = f"{m}:{n.lineno}"
    ctx.ob("C13.7", site, why is None,
           "evo_res: the given result files reach run() as typed (order and "
           "multiplicity)" if why is None else
           f"evo_res: the file list is transformed while parsing ({why}): "
           f"merge / table no longer see the files in the order and "
           f"multiplicity the user gave", key="C13.7:result_files")
    for name in ("--merge", "--use_filenames"):
        hit = [(kk, nn) for _, nn, oo, kk in args_ if name in oo]
        ok = len(hit) == 1 and isinstance(hit[0][0].get("action"),
                                          ast.Constant) and \
            hit[0][0]["action"].value == "store_true"
        ctx.ob("C13.7", site, ok,
               f"evo_res: {name} is a plain store_true flag",
               key=f"C13.7:{name}")


def _tables(ctx, prog):
    PB = "evo.tools.pandas_bridge."
    f = prog.func(PB + "result_to_df")
    ctx.analysed_fn(f.qualname, PB + "load_results_as_dataframe",
                    "evo.main_res.run")
    r = Interp(prog).run(f)
    ret = r.ret
    lab = None
    for x in ret.walk():
        if x.op == "call" and tm.callee_name(x) == ".to_frame":
            for k, v in x.args[2]:
                if k == "name":
                    lab = v
    ok = False
    if lab is not None:
        alts = tm.strip_ite(lab)
        has_given = any(a is tm.param("label") for a in alts)
        has_base = any(is_call_to(a, "os.path.basename") and any(
            tm.is_const(x, "est_name") for x in a.walk()) for a in alts)
        # the given label wins whenever it is not None
        c = lab.args[0] if lab.op == "ite" else None
        given_first = c is not None and any(
            a.op == "cmp" and a.args[1] is tm.param("label") and
            tm.is_const(a.args[2], None) for a in tm.atoms(c))
        ok = has_given and has_base and given_first
        if ok:
            # decision table over (label given?, est_name present?)
            lp = tm.param("label")

            def pick(t: T, given: bool, has_name: bool):
                while t.op == "ite":
                    def env(a):
                        if a.op == "cmp" and a.args[0] in ("Is", "IsNot") \
                                and a.args[1] is lp:
                            return (not given) == (a.args[0] == "Is")
                        if a.op == "cmp" and a.args[0] in ("In", "NotIn") \
                                and tm.is_const(a.args[1], "est_name"):
                            return has_name == (a.args[0] == "In")
                        return None
                    v = tm.fold(t.args[0], env)
                    if v is None:
                        return None
                    t = t.args[1] if v else t.args[2]
                return t
            t_gn, t_g = pick(lab, True, True), pick(lab, True, False)
            t_n, t_0 = pick(lab, False, True), pick(lab, False, False)
            ok = t_gn is lp and t_g is lp and t_n is not None and \
                is_call_to(t_n, "os.path.basename") and any(
                    tm.is_const(x, "est_name") for x in t_n.walk()) and \
                t_0 is not None and tm.is_const(t_0) and \
                isinstance(t_0.args[1], str)
    ctx.ob("C13.6", f, ok,
           "result_to_df: column label = given label, else basename of the "
           "result's est_name" if ok else
           f"result_to_df labels the column {fmt(lab)}",
           key="C13.6:label", label=fmt(lab))
    d = [x for x in ret.walk() if is_call_to(x, "pandas.DataFrame")]
    ok = False
    if d:
        kw = dict(d[0].args[2])
        data = kw.get("data") or (d[0].args[1][0] if d[0].args[1] else None)
        if data is not None:
            base = data
            while base.op == "upd":
                base = base.args[0]
            if base.op == "dict":
                dd = {k.args[1]: v for k, v in base.args if tm.is_const(k)}
                ro = tm.param("result_obj")
                ok = dd.get("stats") is tm.attr(ro, "stats") and \
                    dd.get("info") is tm.attr(ro, "info")
    ctx.ob("C13.6", f, ok,
           "result_to_df tabulates the result's own stats and info "
           "dictionaries" if ok else
           "result_to_df does not tabulate result_obj.stats / .info as they "
           "are", key="C13.6:stats-source")

    g = prog.func(PB + "load_results_as_dataframe")
    files = tm.param("result_files")
    for merge in (False, True):
        rg = Interp(prog).run(g, {"merge": const(merge)})
        loads = rg.calls("evo.tools.file_interface.load_res_file")
        ctx.require(len(loads) == 1, "load_res_file call not found")
        fa = loads[0].data["args"][0]
        ok = fa.op == "elem" and fa.args[0] is files
        ctx.ob("C13.6", loads[0], ok,
               f"[merge={merge}] every given result file is loaded, in "
               f"order" if ok else
               f"[merge={merge}] load_res_file receives {fmt(fa)}",
               key=f"C13.6:load-all:{merge}")
        if merge:
            m = rg.calls(MR)
            ok = len(m) == 1 and per_element(m[0].data["args"][0]) is not \
                None and not per_element(m[0].data["args"][0])[3] and \
                is_call_to(rg.ret, PB + "result_to_df") and \
                rg.ret.args[1][0] is m[0].data["result"]
            ctx.ob("C13.6", g, ok,
                   "[merge=True] the table shows merge_results of exactly "
                   "the loaded list" if ok else
                   f"[merge=True] table is {fmt(rg.ret)}",
                   key="C13.6:merge-table")
            continue
        rt = rg.calls(PB + "result_to_df")
        ctx.require(len(rt) == 1, "result_to_df call not found")
        b = rt[0].data["bound"]
        want = tm.ite(tm.param("use_filenames"), fa, tm.NONE)
        ok = b.get("result_obj") is loads[0].data["result"] and \
            b.get("label") is want
        ctx.ob("C13.6", rt[0], ok,
               "each file's result is tabulated under the file name iff "
               "use_filenames" if ok else
               f"result_to_df receives label {fmt(b.get('label'))}",
               key="C13.6:label-source")
        # one column per file: no keyed container of per-file frames
        keyed = [e for e in rg.of_kind("setitem")
                 if e.data["value"] is rt[0].data["result"]]
        ctx.ob("C13.6", keyed[0] if keyed else g, not keyed,
               "per-file frames are not collected in a keyed container"
               if not keyed else
               f"per-file frames are stored in a container keyed by "
               f"{fmt(keyed[0].data['index'])}: two files with the same "
               f"label collapse into one column, so a file is dropped and "
               f"the duplicate-label check of evo_res can never fire",
               key="C13.6:keyed-collection")
        cc = [e for e in rg.calls("pandas.concat")]
        ok = bool(cc) and any(
            any(x is rt[0].data["result"] for x in e.data["args"][0].walk())
            for e in cc) and not keyed
        if ok:
            e = [e for e in cc if any(x is rt[0].data["result"]
                                      for x in e.data["args"][0].walk())][0]
            kw = dict(e.data["kwargs"])
            in_loop = bool(e.loops)
            ok = in_loop and (tm.is_const(kw.get("axis", const(0)),
                                          "columns") or
                              tm.is_const(kw.get("axis", const(0)), 1))
        if not keyed:
            if not cc:
                ctx.undecidable("C13.6", g, "per-file frames are not "
                                "combined with pandas.concat")
            else:
                ctx.ob("C13.6", g, ok,
                       "one column per loaded file is concatenated in "
                       "input order" if ok else
                       "per-file frames are not concatenated column-wise, "
                       "one per file", key="C13.6:concat")

    h = prog.func("evo.main_res.run")
    rh = Interp(prog).run(h)
    A = lambda n: tm.attr(tm.param("args"), n)
    ld = rh.calls(PB + "load_results_as_dataframe")
    ctx.require(len(ld) == 1, "evo_res: load_results_as_dataframe call not "
                "found")
    b = ld[0].data["bound"]
    rf = b.get("result_files")
    RF = A("result_files")
    # the file list itself, or one computed from it by a helper (expanding
    # directories, ...) — but not a re-ordered / truncated / set-ified list
    direct = rf is RF
    def whole_list(a: T) -> bool:
        # the given list itself or a list accumulated from it (not one of
        # its entries, e.g. the files found in one directory)
        while is_call_to(a, "builtins.list", "builtins.tuple",
                         "builtins.set", "builtins.frozenset") and \
                len(a.args[1]) == 1:
            a = a.args[1][0]
        return a is RF or (a.op in ("loopout", "loopvar", "mut") and any(
            x is RF for x in a.walk()))
    derived = rf is not None and not direct and any(
        x is RF for x in rf.walk()) and not any(
        (x.op == "sub" and x.args[0] is RF and x.args[1].op == "slice") or
        (is_call_to(x, "builtins.sorted", "builtins.reversed",
                    "builtins.set", "builtins.frozenset") and x.args[1] and
         whole_list(x.args[1][0])) for x in rf.walk())
    ok = (direct or derived) and \
        b.get("use_filenames") is A("use_filenames") and \
        b.get("merge") is A("merge")
    ctx.ob("C13.6", ld[0], ok,
           "evo_res: files / --use_filenames / --merge reach the loader"
           + ("" if direct else " (file list computed from the given paths "
              "by a helper; its expansion rules are not decided here)")
           if ok else f"evo_res loader wiring: "
                      f"{ {k: fmt(v) for k, v in b.items()} }",
           key="C13.6:res:loader")
    exits = [e for e in rh.calls("sys.exit")]
    sv = rh.calls(PB + "save_df_as_table")
    ctx.require(bool(sv), "evo_res: save_df_as_table call not found")
    dup = [e for e in exits if e.idx < sv[0].idx and any(
        is_call_to(x, ".count") for x in e.live.walk())]
    ok = bool(dup)
    if ok:
        cond = [a for a in tm.atoms(dup[0].live)
                if any(is_call_to(x, ".count") for x in a.walk())][0]
        ok = all(tm.fold(s.live, lambda t: True if t is cond else None)
                 is False for s in sv)
    ctx.ob("C13.6", sv[0], ok,
           "evo_res: duplicate labels terminate before any table is "
           "written" if ok else
           "evo_res: the duplicate-label exit does not precede / guard the "
           "table export", key="C13.6:res:duplicates")
    DF = ld[0].data["result"]
    datas = {(s.data["bound"] or {}).get("df") for s in sv}
    ok = all(d is not None and any(x is DF for x in d.walk()) for d in datas)
    ok = ok and all((s.data["bound"] or {}).get("path") is A("save_table")
                    for s in sv)
    ctx.ob("C13.6", sv[0], ok,
           "evo_res: the exported table derives from the loaded frame and "
           "goes to --save_table" if ok else
           "evo_res: exported table wiring deviates", key="C13.6:res:export")


VARIANTS = [
    dict(name="divisor-n-minus-1", file="evo/core/result.py",
         find="        key: summed_value / len(results)",
         replace="        key: summed_value / (len(results) - 1)",
         expect="fire", rule="C13.4"),
    dict(name="deepcopy-removed", file="evo/core/result.py",
         find="    merged_result = copy.deepcopy(results[0])",
         replace="    merged_result = results[0]",
         expect="fire", allow_error=True),
    dict(name="append-operands-swapped", file="evo/core/result.py",
         find="                merged_result.np_arrays[key] = np.append(\n"
              "                    array, result.np_arrays[key])",
         replace="                merged_result.np_arrays[key] = np.append(\n"
                 "                    result.np_arrays[key], array)",
         expect="fire", rule="C13.4"),
    dict(name="one-sided-key-check", file="evo/core/result.py",
         find="        if not all(a.keys() == b.keys() for a, b in zip(dicts, dicts[1:])):",
         replace="        if any(a.keys() - b.keys() for a, b in zip(dicts, dicts[1:])):",
         expect="fire", rule="C13.3"),
    dict(name="stats-keys-unchecked", file="evo/core/result.py",
         find="    dict_lists = [[r.np_arrays for r in results], [r.stats for r in results]]",
         replace="    dict_lists = [[r.np_arrays for r in results]]",
         expect="fire", rule="C13.3"),
    dict(name="info-overwritten", file="evo/core/result.py",
         find="    logger.warning(\"Using info dict of first result.\")",
         replace="    merged_result.info = dict(results[-1].info)",
         expect="fire", rule="C13.5"),
    dict(name="label-always-est-name", file="evo/tools/pandas_bridge.py",
         find="        name = result_file if use_filenames else None",
         replace="        name = None", expect="fire", rule="C13.6"),
    dict(name="dict-collection", file="evo/tools/pandas_bridge.py",
         find="    df = pd.DataFrame()\n    for result_file in result_files:\n"
              "        result_obj = file_interface.load_res_file(result_file)\n"
              "        name = result_file if use_filenames else None\n"
              "        df = pd.concat([df, result_to_df(result_obj, name)], axis=\"columns\")\n"
              "    return df",
         replace="    frames = {}\n    for result_file in result_files:\n"
                 "        result_obj = file_interface.load_res_file(result_file)\n"
                 "        name = result_file if use_filenames else None\n"
                 "        frame = result_to_df(result_obj, name)\n"
                 "        frames[frame.columns[0]] = frame\n"
                 "    return pd.concat(list(frames.values()), axis=\"columns\")",
         expect="fire", rule="C13.6"),
    dict(name="strategy-inverted", file="evo/core/result.py",
         find="    if not all(a == b for a, b in zip(length_lists, length_lists[1:])):",
         replace="    if all(a == b for a, b in zip(length_lists, length_lists[1:])):",
         expect="fire", rule="C13.4"),
]
