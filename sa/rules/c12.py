"""C12 — a metric result is self-consistent: statistics, companion arrays,
unit."""
from __future__ import annotations

import itertools
from typing import Optional

from .. import terms as tm
from ..interp import Interp
from ..lib import fmt, indirect_calls, is_call_to, per_element
from ..terms import T, const
from . import metrics_model as mm

EXPLANATION = """
C12.1 (constant propagation over the 7 StatisticsType members): each
statistic is the like-named numpy reducer of self.error — rmse =
sqrt(mean(square)), sse = sum(square), std = numpy.std with ddof absent/0
(population) — get_all_statistics iterates the whole enum keyed by .value,
get_result stores them and self.error itself. C12.2/3 (all 100 ordered unit
pairs): change_unit either converts by the exact SI factor ratio
factor[current]/factor[new] (folded to a constant from the literal
METER_SCALE_FACTORS table and compared with the SI oracle), by rad2deg /
deg2rad, is a no-op for equal units, or raises — and when it raises no write
to the values or the unit is reachable; the unit is updated after every
successful conversion. C12.4: every companion array of ape() derives,
unsliced, from the processed trajectories (timestamps and distances from the
estimate, distances_from_start from the reference) that also went into
process_data; in rpe() both trajectories are first reduced by [0]+delta_ids
and then every companion array carries exactly the slice [1:]; the stored
trajectories are those objects. C12.5/6: title and label are computed after
change_unit, from the unit / relation / class name actually used; get_result
follows change_unit.
"""
UNDECIDED = [
    "the inequalities min <= mean <= rmse <= max and rmse^2 = mean^2 + std^2 "
    "(numerical consequences of C12.1)",
    "exactness of the conversion factor product in floating point",
]
TRUSTED = ["numpy reducers compute their documented statistic"]
ASSUMPTIONS = []
MANIFEST = dict(
    text="Decides the statistic definitions (all 7), the unit conversion "
         "table (all 100 ordered pairs, exhaustively: converts by the exact "
         "factor, no-op, or refuses without touching anything), alignment "
         "of every companion array with the error values for APE and RPE "
         "(the off-by-one [1:] bookkeeping), and that labels are computed "
         "from the state after the unit change.",
    note="numpy's reducers are trusted; numerical identities between the "
         "statistics are not decided.",
    technique="exhaustive constant propagation over enum members and unit "
              "pairs + provenance terms with slice tags + must-precede on "
              "the event log",
)
FLOORS = {"C12.1": 10, "C12.2": 14, "C12.3": 80, "C12.4": 10, "C12.5": 4,
          "C12.6": 2, "C12.7": 12, "C12.8": 6, "C12.9": 8}

PE = "evo.core.metrics.PE"
ST = "evo.core.metrics.StatisticsType"
SI = {"millimeters": 1e-3, "centimeters": 1e-2, "meters": 1.0,
      "kilometers": 1e3}
ANGLES = ("degrees", "radians")
# the units the property speaks about (pinned tree); members added later are
# outside its quantifier
PROPERTY_UNITS = tuple(SI) + ANGLES + ("none", "percent", "frames",
                                       "seconds")
ERR = tm.attr(mm.SELF, "error")


def _number(prog, t: T, depth: int = 0) -> Optional[float]:
    """numeric value of a constant expression: literals, math.pi, + - * / **,
    lookups in (merged) dict displays keyed by enum members, and calls of evo
    functions on constant arguments (evaluated by interpreting them)"""
    import math
    it = Interp(prog)
    t = it.unname(t)
    if depth > 8:
        return None
    if tm.is_const(t) and isinstance(tm.const_val(t), (int, float)) and \
            not isinstance(tm.const_val(t), bool):
        return float(tm.const_val(t))
    if t.op == "global" and t.args[0] in ("math.pi", "numpy.pi"):
        return math.pi
    if t.op == "unop" and t.args[0] == "USub":
        x = _number(prog, t.args[1], depth + 1)
        return None if x is None else -x
    if t.op == "binop" and t.args[0] in ("Add", "Sub", "Mult", "Div", "Pow"):
        a = _number(prog, t.args[1], depth + 1)
        b = _number(prog, t.args[2], depth + 1)
        if a is None or b is None:
            return None
        try:
            return {"Add": a + b, "Sub": a - b, "Mult": a * b,
                    "Div": a / b, "Pow": a ** b}[t.args[0]]
        except (ZeroDivisionError, OverflowError):
            return None
    def resolve(d: T) -> T:
        d = it.unname(d)
        if d.op == "global" and d.args[0].startswith("evo."):
            obj = prog.lookup(d.args[0])
            if isinstance(obj, tuple) and obj[0] == "const":
                from ..interp import Frame
                d = it.unname(it.eval(obj[3], Frame(None, obj[1], {}, {},
                                                    None, 99), tm.TRUE))
        return d
    if t.op == "sub":
        d, k = resolve(t.args[0]), it.unname(t.args[1])
        if d.op == "dict" and k.op in ("enum", "const"):
            def find(dd):
                for kk, vv in reversed(dd.args):
                    if isinstance(kk, T) and kk.op == "star":
                        inner = resolve(vv)
                        if inner.op == "dict":
                            r_ = find(inner)
                            if r_ is not None:
                                return r_
                    elif it.unname(kk) == k:
                        return vv
                return None
            v = find(d)
            return None if v is None else _number(prog, v, depth + 1)
    if t.op == "call" and t.args[0].op == "func" and not t.args[2] and all(
            it.unname(a).op in ("enum", "const") for a in t.args[1]):
        fn = prog.functions.get(t.args[0].args[0])
        if fn is not None and len(fn.params) == len(t.args[1]):
            r = Interp(prog).run(fn, dict(zip(fn.params, t.args[1])))
            return _number(prog, r.ret, depth + 1)
    return None


def _strip_float(t: T) -> T:
    while is_call_to(t, "builtins.float") and len(t.args[1]) == 1:
        t = t.args[1][0]
    return t


def _is_square(t: T) -> bool:
    if is_call_to(t, "numpy.power") and len(t.args[1]) == 2:
        return t.args[1][0] is ERR and tm.is_const(t.args[1][1]) and \
            t.args[1][1].args[1] == 2
    if is_call_to(t, "numpy.square") and t.args[1]:
        return t.args[1][0] is ERR
    if t.op == "binop" and t.args[0] == "Pow":
        return t.args[1] is ERR and tm.is_const(t.args[2]) and \
            t.args[2].args[1] == 2
    if t.op == "binop" and t.args[0] == "Mult":
        return t.args[1] is ERR and t.args[2] is ERR
    return False


def _reducer(t: T, *names) -> Optional[T]:
    if is_call_to(t, *names) and len(t.args[1]) >= 1:
        return t.args[1][0]
    if t.op == "call" and tm.callee_name(t) in [
            "." + n.rsplit(".", 1)[1] for n in names] and not t.args[1]:
        return tm.method_recv(t)
    return None


def check(ctx):
    prog = ctx.prog
    f = prog.func(f"{PE}.get_statistic")
    ctx.analysed_fn(f.qualname, f"{PE}.change_unit", f"{PE}.get_result",
                    f"{PE}.get_all_statistics", "evo.main_ape.ape",
                    "evo.main_rpe.rpe")
    members = prog.enum_members(ST)
    ctx.require(members is not None and len(members) == 7,
                f"StatisticsType members changed: {members}")
    stq = prog.cls(ST).qualname
    # --------------------------------------------------------------- C12.1
    for m in members:
        r = Interp(prog).run(f, {"statistics_type": tm.enum(stq, m)})
        ctx.analysed["configs"] += 1
        ret = _strip_float(r.ret)
        ok, want = False, ""
        if m == "rmse":
            want = "sqrt(mean(error^2))"
            a = _reducer(ret, "math.sqrt", "numpy.sqrt")
            if a is not None:
                b = _reducer(_strip_float(a), "numpy.mean", "numpy.average")
                ok = b is not None and _is_square(b)
        elif m == "sse":
            want = "sum(error^2)"
            b = _reducer(ret, "numpy.sum")
            ok = b is not None and _is_square(b)
        elif m == "std":
            want = "population standard deviation numpy.std(error), ddof=0"
            b = _reducer(ret, "numpy.std")
            dd = [v for k, v in ret.args[2] if k == "ddof"] \
                if ret.op == "call" else []
            ok = b is ERR and all(tm.is_const(v, 0) for v in dd) and \
                (ret.op != "call" or len(ret.args[1]) <= 1 or
                 tm.callee_name(ret) != "numpy.std")
        else:
            names = {"mean": ("numpy.mean",), "median": ("numpy.median",),
                     "max": ("numpy.max", "numpy.amax"),
                     "min": ("numpy.min", "numpy.amin")}.get(m)
            ctx.require(names is not None, f"unknown statistic {m}")
            want = f"{names[0]}(error)"
            b = _reducer(ret, *names)
            ok = b is ERR and (ret.op != "call" or not ret.args[2])
        if not ok:
            # a different but possibly equivalent formulation is not judged:
            # only a recognised reducer with a wrong operand / option is
            expected = {"rmse": ("numpy.mean", "numpy.average"),
                        "sse": ("numpy.sum",), "std": ("numpy.std",),
                        "mean": ("numpy.mean",), "median": ("numpy.median",),
                        "max": ("numpy.max", "numpy.amax"),
                        "min": ("numpy.min", "numpy.amin")}[m]
            known = any(is_call_to(x, *expected) for x in r.ret.walk()) or \
                any(is_call_to(x, "numpy.mean", "numpy.sum", "numpy.std",
                               "numpy.median", "numpy.max", "numpy.min",
                               "numpy.amax", "numpy.amin", "numpy.var")
                    for x in r.ret.walk())
            if not known:
                ctx.undecidable("C12.1", f, f"statistic {m}: formulation "
                                f"not recognised: {fmt(r.ret)}")
                continue
        ctx.ob("C12.1", f, ok,
               f"statistic {m} = {want}" if ok else
               f"statistic {m} is computed as {fmt(r.ret)} — the definition "
               f"is {want}", key=f"C12.1:{m}", value=fmt(r.ret))
    g = prog.func(f"{PE}.get_all_statistics")
    rg = Interp(prog).run(g)
    sets = rg.of_kind("setitem")
    ok = False
    if len(sets) == 1:
        e = sets[0]
        idx, val = e.data["index"], e.data["value"]
        el = idx.args[0] if idx.op == "attr" and idx.args[1] == "value" \
            else None
        ok = el is not None and el.op == "elem" and \
            el.args[0] is tm.cls(stq) and \
            is_call_to(val, f"{PE}.get_statistic") and \
            (tm.method_recv(val) is mm.SELF or True) and \
            val.args[1] and val.args[1][0] is el
    ctx.ob("C12.1", g, ok,
           "get_all_statistics: one entry per StatisticsType member, keyed "
           "by its value, computed by get_statistic of that member" if ok
           else "get_all_statistics does not map every StatisticsType "
                "member's value to get_statistic(member)",
           key="C12.1:all-statistics")
    if len(sets) == 1:
        # every statistic is stored, whatever its value: a test of the
        # value's truthiness drops statistics that are exactly 0 (std of a
        # constant error array, min of an exact match)
        e = sets[0]
        val = e.data["value"]
        ats = [a for a in tm.atoms(e.live) if a.op != "iter"]
        truthy = [a for a in ats if a is val or (
            a.op == "cmp" and a.args[0] in ("Gt", "NotEq", "Lt") and
            a.args[1] is val and tm.is_const(a.args[2]) and
            a.args[2].args[1] == 0)]
        none_tests = [a for a in ats if a.op == "cmp" and
                      a.args[0] in ("Is", "IsNot") and a.args[1] is val and
                      a.args[2] is tm.NONE]
        rest = [a for a in ats if a not in truthy and a not in none_tests
                and a.op != "exc"]
        if truthy:
            ctx.ob("C12.1", e, False,
                   f"get_all_statistics stores a statistic only if "
                   f"`{fmt(truthy[0])[:60]}` is true: statistics that are "
                   f"exactly 0.0 (std of a constant error, a minimum of 0) "
                   f"are missing from the result",
                   key="C12.1:all-statistics:every-value")
        elif rest:
            ctx.undecidable("C12.1", e, f"get_all_statistics: a statistic "
                            f"is stored only under {fmt(rest[0])[:80]} "
                            f"(unknown idiom)")
        else:
            ctx.ob("C12.1", e, True,
                   "get_all_statistics stores every supported statistic "
                   "whatever its value", key="C12.1:all-statistics:every-value")
    h = prog.func(f"{PE}.get_result")
    rh = Interp(prog).run(h)
    st = [e for e in rh.of_kind("call")
          if (e.data.get("name") or "").endswith("Result.add_stats")]
    def _given(live, val):
        # the path condition, given that the stored value is there (the
        # statistics dict / the error array are never None)
        def asg(a):
            if a.op in ("and", "or", "not"):
                return None
            if a.op == "cmp" and a.args[0] in ("Is", "IsNot") and \
                    a.args[1] is val and tm.is_const(a.args[2], None):
                return a.args[0] == "IsNot"
            return None
        return tm.fold(live, asg)
    ok = len(st) == 1 and st[0].data["args"] and is_call_to(
        st[0].data["args"][0], f"{PE}.get_all_statistics") and \
        _given(st[0].live, st[0].data["args"][0]) is True
    ctx.ob("C12.1", h, ok,
           "get_result stores exactly get_all_statistics()" if ok else
           "get_result does not store get_all_statistics() unconditionally",
           key="C12.1:result-stats",
           evidence=bool(st) or not indirect_calls(rh))
    ea = [e for e in rh.of_kind("call")
          if (e.data.get("name") or "").endswith("Result.add_np_array")
          and e.data["args"] and tm.is_const(e.data["args"][0],
                                             "error_array")]
    ok = len(ea) == 1 and ea[0].data["args"][1] is ERR
    ctx.ob("C12.1", h, ok,
           "get_result stores self.error itself as error_array" if ok else
           f"error_array is "
           f"{fmt(ea[0].data['args'][1]) if ea else 'not stored'}",
           key="C12.1:result-error-array",
           # arrays stored under names that are not read here (a loop over
           # a table of arrays) may include it
           evidence=bool(ea) or not (indirect_calls(rh) or any(
               (e.data.get("name") or "").endswith("Result.add_np_array")
               and e.data["args"] and not tm.is_const(e.data["args"][0])
               for e in rh.of_kind("call"))))
    info = [e for e in rh.of_kind("call")
            if (e.data.get("name") or "").endswith("Result.add_info")]
    ok = False
    if info and info[0].data["args"] and info[0].data["args"][0].op == "dict":
        d = dict((k.args[1] if tm.is_const(k) else None, v)
                 for k, v in info[0].data["args"][0].args)
        lab = d.get("label")
        uses_unit = lab is not None and any(
            x is tm.attr(tm.attr(mm.SELF, "unit"), "value")
            for x in lab.walk())
        uses_cls = lab is not None and any(
            x.op == "attr" and x.args[1] == "__name__" for x in lab.walk())
        title = d.get("title")
        ok = uses_unit and uses_cls and title is not None and \
            is_call_to(title, "builtins.str") and \
            title.args[1][0] is mm.SELF and \
            d.get("ref_name") is tm.param("ref_name") and \
            d.get("est_name") is tm.param("est_name")
    ctx.ob("C12.5", h, ok,
           "get_result: label = '<metric class> (<current unit>)', title = "
           "str(metric), names as given" if ok else
           "get_result: label/title are not derived from the metric's class "
           "name and current unit", key="C12.5:result-label")
    # ... and what get_result hands to the Result is what the Result holds:
    # each add_* method stores its argument itself under the given name / key
    RES = "evo.core.result.Result"
    for meth, attr, keyed in (("add_np_array", "np_arrays", True),
                              ("add_trajectory", "trajectories", True),
                              ("add_info", "info", False),
                              ("add_stats", "stats", False)):
        m_ = prog.func(f"{RES}.{meth}")
        rm_ = Interp(prog).run(m_)
        val = tm.param(m_.params[-1])
        slot = tm.attr(tm.param(m_.params[0]), attr)

        def rooted(t, slot=slot) -> bool:
            return isinstance(t, T) and any(x is slot for x in t.walk())
        stored = False
        derived = False      # something computed from the argument is stored

        def same(v, val=val) -> bool:
            # the argument itself or a copy / array view of it
            v = Interp.unname(v)
            for _ in range(3):
                if v is val:
                    return True
                if is_call_to(v, ".copy") and not v.args[1]:
                    v = Interp.unname(tm.method_recv(v))
                elif is_call_to(v, "numpy.array", "numpy.asarray",
                                "numpy.copy", "copy.copy", "copy.deepcopy",
                                "builtins.dict") and len(v.args[1]) == 1:
                    v = Interp.unname(v.args[1][0])
                else:
                    break
            return v is val
        for e in rm_.events:
            if e.kind == "setitem" and rooted(e.data["base"]):
                hit = same(e.data["value"]) and tm.is_const(e.live, True) \
                    and (not keyed or e.data["index"] is tm.param(
                        m_.params[1]))
                stored = stored or hit
                derived = derived or (not hit and any(
                    x is val for x in e.data["value"].walk()))
            if e.kind == "call" and e.data.get("name") == ".update" and \
                    rooted(e.data.get("recv")) and e.data["args"]:
                a0 = e.data["args"][0]
                hit = tm.is_const(e.live, True) and (same(a0) or (
                    keyed and a0.op == "dict" and len(a0.args) == 1 and
                    a0.args[0][0] is tm.param(m_.params[1]) and
                    same(a0.args[0][1])))
                stored = stored or hit
                derived = derived or (not hit and any(
                    x is val for x in a0.walk()))
        for (b_, a_), v_ in rm_.attrs.items():
            # self.info = {**self.info, **info_dict}
            if b_ is tm.param(m_.params[0]) and a_ == attr and any(
                    x is val for x in v_.walk()):
                if not keyed:
                    stored = True
                else:
                    derived = True
        ctx.ob("C12.1", m_, stored,
               f"Result.{meth} stores its argument in `{attr}`"
               + (" under the given name" if keyed else "") if stored else
               f"Result.{meth} does not store its argument in `{attr}`: "
               f"what get_result() hands over is not in the result",
               key=f"C12.1:result-container:{meth}",
               evidence=not derived and not indirect_calls(rm_) and not any(
                   e.kind == "call" and e.data.get("target") is not None
                   and not e.data.get("inlined") for e in rm_.events))
    for cls_ in ("APE", "RPE"):
        s = prog.func(f"evo.core.metrics.{cls_}.__str__")
        rs = Interp(prog).run(s)
        uses = lambda attr: any(
            x is tm.attr(tm.attr(mm.SELF, attr), "value")
            for x in rs.ret.walk())
        ok = uses("unit") and uses("pose_relation") and any(
            tm.is_const(x) and isinstance(x.args[1], str) and
            cls_ in x.args[1] for x in rs.ret.walk())
        ctx.ob("C12.5", s, ok,
               f"{cls_}.__str__ names the metric, the pose relation and the "
               f"current unit" if ok else
               f"{cls_}.__str__ = {fmt(rs.ret)} does not name metric / "
               f"relation / current unit", key=f"C12.5:{cls_}:str")

    ctx.section(_units, ctx)
    ctx.section(_companions, ctx)
    # the unit named in title/label is the metric's unit attribute: it must be
    # the unit of the reduction for every relation (C01.3 / C02.6 instances)
    from ..core import import_rules
    n = import_rules(ctx, "c01", ("C01.3",), "C12.7",
                     pred=lambda o: o.key.endswith(":unit"))
    n += import_rules(ctx, "c02", ("C02.6",), "C12.7",
                      pred=lambda o: o.key.endswith(":unit"))
    ctx.require(n >= 12, "C12.7: unit instances not found")
    # "the stored trajectories are restricted to the first pose and the pair
    # end poses" is done with reduce_to_ids: it must index every view with
    # the given ids on every path (instances of C08.3)
    n = import_rules(ctx, "c08", ("C08.3",), "C12.8")
    ctx.require(n >= 6, "C12.8: reduce_to_ids instances not found")
    # ... and with exactly [0] + delta_ids, in the order of the values: the
    # k-th stored pose (after the first) is the end pose of the k-th value
    # (instance of C02.7, rpe(): reduce)
    n = import_rules(ctx, "c02", ("C02.7",), "C12.8",
                     pred=lambda o: o.key.endswith(":rpe:reduce"))
    ctx.require(n >= 1, "C12.8: rpe() reduction instance not found")
    # the companion arrays of RPE are taken at delta_ids: "exactly one entry
    # per error value, referring to the pose that value belongs to" needs
    # delta_ids to stay in step with the error values wherever values are
    # dropped (zero reference distances of the ratio relation) — instances
    # of C02.2
    n = import_rules(ctx, "c02", ("C02.2",), "C12.9")
    ctx.require(n >= 8, "C12.9: delta_ids co-indexing instances not found")


def _units(ctx):
    prog = ctx.prog
    uq = prog.cls(mm.UNIT).qualname
    units = prog.enum_members(mm.UNIT)
    # C12.2: tables
    um = prog.module("evo.core.units")
    it = Interp(prog)
    tbl = it.unname(it.module_const(um, "METER_SCALE_FACTORS",
                                    um.constants["METER_SCALE_FACTORS"]))
    lens = it.unname(it.module_const(um, "LENGTH_UNITS",
                                     um.constants["LENGTH_UNITS"]))
    angs = it.unname(it.module_const(um, "ANGLE_UNITS",
                                     um.constants["ANGLE_UNITS"]))
    got = {}
    if tbl.op == "dict":
        for k, v in tbl.args:
            if k.op == "enum" and tm.is_const(v):
                got[k.args[1]] = float(v.args[1])
    # (further length units may be added; the property's four must keep
    # their SI factors)
    ok = all(got.get(k) == v for k, v in SI.items())
    ctx.ob("C12.2", "evo/core/units.py (METER_SCALE_FACTORS)", ok,
           "METER_SCALE_FACTORS equals the SI table (mm 1e-3, cm 1e-2, m 1, "
           "km 1e3)" if ok else
           f"METER_SCALE_FACTORS is {got}, SI table is {SI}",
           key="C12.2:si-table")
    lset = {x.args[1] for x in lens.args if x.op == "enum"} \
        if lens.op == "tuple" else set()
    aset = {x.args[1] for x in angs.args if x.op == "enum"} \
        if angs.op == "tuple" else set()
    others = set(PROPERTY_UNITS) - set(SI) - set(ANGLES)
    ok = set(SI) <= lset and set(ANGLES) <= aset and not (lset & aset) and \
        not ((lset | aset) & others) and not (lset & set(ANGLES)) and \
        not (aset & set(SI))
    ctx.ob("C12.2", "evo/core/units.py (LENGTH_UNITS/ANGLE_UNITS)", ok,
           "LENGTH_UNITS / ANGLE_UNITS are exactly the length / angle units"
           if ok else f"LENGTH_UNITS={lset}, ANGLE_UNITS={aset}",
           key="C12.2:unit-classes")
    f = prog.func(f"{PE}.change_unit")
    ctx.require(set(PROPERTY_UNITS) <= set(units),
                f"Unit members changed: {units}")
    for cur, new in itertools.product(PROPERTY_UNITS, repeat=2):
        cu, nu = tm.enum(uq, cur), tm.enum(uq, new)
        r = Interp(prog).run(f, {"new_unit": nu}, None,
                             preset_attrs={(mm.SELF, "unit"): cu})
        ctx.analysed["configs"] += 1
        writes = [e for e in r.events
                  if (e.kind == "setattr" and e.data["base"] is mm.SELF and
                      e.data["name"] in ("error", "unit")) or
                  (e.kind == "augassign" and e.data["target"] is ERR) or
                  (e.kind == "setitem" and any(x is ERR for x in
                                               e.data["base"].walk()))]
        live_writes = [e for e in writes if not tm.is_const(e.live, False)]
        raises = [e for e in r.of_kind("raise")
                  if "MetricsException" in (e.data.get("exc_name") or "")]
        completes = not tm.is_const(r.fallthrough, False) or any(
            not tm.is_const(l, False) for _, l in r.returns)
        uncond_raise = raises if not completes else []
        if cur == new:
            expect = "noop"
        elif cur in SI and new in SI:
            expect = "length"
        elif set((cur, new)) == set(ANGLES):
            expect = "angle"
        else:
            expect = "refuse"
        pair = f"{cur}->{new}"
        if expect == "noop":
            ok = not live_writes and not uncond_raise
            ctx.ob("C12.3", f, ok,
                   f"change_unit[{pair}]: same unit — nothing changes"
                   if ok else f"change_unit[{pair}]: same unit but values "
                              f"or unit are rewritten / refused",
                   key="C12.3:noop")
        elif expect == "refuse":
            ok = bool(uncond_raise) and not live_writes
            ctx.ob("C12.3", f, ok,
                   f"change_unit[{pair}]: refused, nothing written" if ok
                   else (f"change_unit[{pair}]: conversion between "
                         f"incompatible units is not refused"
                         if not uncond_raise else
                         f"change_unit[{pair}]: values or unit are written "
                         f"at {live_writes[0].where} although the "
                         f"conversion is refused"),
                   key=f"C12.3:refuse:{'written' if uncond_raise else 'accepted'}")
        else:
            final_unit = r.attrs.get((mm.SELF, "unit"))
            final_err = r.attrs.get((mm.SELF, "error"))
            if expect == "length":
                want = SI[cur] / SI[new]
                ok = False
                fac = None
                if final_err is not None and final_err.op == "binop" and \
                        final_err.args[0] == "Mult" and \
                        final_err.args[1] is ERR:
                    fac = _number(prog, final_err.args[2])
                    ok = fac is not None and \
                        abs(fac - want) <= 1e-15 * max(1.0, abs(want))
                ctx.ob("C12.2", f, ok,
                       f"change_unit[{pair}]: values *= {want:g}" if ok else
                       f"change_unit[{pair}]: values are multiplied by "
                       f"{fac if fac is not None else fmt(final_err)}, the "
                       f"exact factor is {want:g}",
                       key=f"C12.2:length-factor")
            else:
                conv = "numpy.rad2deg" if cur == "radians" else \
                    "numpy.deg2rad"
                alt = "numpy.degrees" if cur == "radians" else \
                    "numpy.radians"
                ok = final_err is not None and is_call_to(
                    final_err, conv, alt) and final_err.args[1] and \
                    final_err.args[1][0] is ERR
                if not ok and final_err is not None and \
                        final_err.op == "binop" and \
                        final_err.args[0] == "Mult" and \
                        final_err.args[1] is ERR:
                    # one multiplication by the float nearest to 180/pi
                    # (pi/180) is what rad2deg (deg2rad) does
                    import math
                    want = 180.0 / math.pi if cur == "radians" else \
                        math.pi / 180.0
                    fac = _number(prog, final_err.args[2])
                    ok = fac is not None and fac == want
                ctx.ob("C12.2", f, ok,
                       f"change_unit[{pair}]: values := "
                       f"{conv.split('.')[1]}(values)" if ok else
                       f"change_unit[{pair}]: values become "
                       f"{fmt(final_err)}", key="C12.2:angle-conv")
            ok = final_unit is nu
            ctx.ob("C12.2", f, ok,
                   f"change_unit[{pair}]: unit updated to {new}" if ok else
                   f"change_unit[{pair}]: unit afterwards is "
                   f"{fmt(final_unit)}", key="C12.2:unit-updated")
            # no write precedes a reachable raise
            bad = [w for w in live_writes for x in raises
                   if x.idx > w.idx and not tm.is_const(x.live, False)]
            ctx.ob("C12.3", f, not bad,
                   f"change_unit[{pair}]: no value is written before a "
                   f"possible refusal" if not bad else
                   f"change_unit[{pair}]: a write at {bad[0].where} "
                   f"precedes a raise", key="C12.3:write-before-raise")


def _companions(ctx):
    prog = ctx.prog
    # the companion arrays of rpe() are selected by delta_ids: they can only
    # line up with the values if delta_ids stays parallel to them
    from .c02 import IDP, coindexing
    for member in prog.enum_members(mm.PR):
        res = mm.run_relation(prog, "RPE", member)
        err = res.attrs.get((mm.SELF, "error"))
        dids = mm.final_attr(prog, res, "RPE", "delta_ids")
        idps = res.calls(IDP)
        ctx.require(err is not None and dids is not None and len(idps) == 1,
                    f"RPE[{member}]: error/delta_ids/id_pairs not found")
        coindexing(ctx, res, member, err, dids, idps[0].data["result"],
                   "C12.4")
    est, ref = tm.param("traj_est"), tm.param("traj_ref")
    names = ("seconds_from_start", "timestamps", "distances_from_start",
             "distances")
    for fq, cls_, cfg in (("evo.main_ape.ape", "APE", {}),
                          ("evo.main_rpe.rpe", "RPE",
                           {"support_loop": const(False)}),
                          ("evo.main_rpe.rpe", "RPE",
                           {"support_loop": const(True)})):
        f = prog.func(fq)
        if cfg:
            ctx.require(all(k in f.params for k in cfg),
                        f"{fq}: parameter {list(cfg)} vanished")
        r = Interp(prog).run(f, dict(cfg))
        ctx.analysed["configs"] += 1
        adds = {}
        for e in r.of_kind("call"):
            if (e.data.get("name") or "").endswith("Result.add_np_array") \
                    and e.data["args"] and tm.is_const(e.data["args"][0]):
                adds[e.data["args"][0].args[1]] = e
        ctx.require(all(n in adds for n in names),
                    f"{fq}: companion arrays {names} not all stored")
        pd = [e for e in r.of_kind("call") if (e.data.get("name") or "")
              .endswith(f"{cls_}.process_data")]
        cu = [e for e in r.of_kind("call") if (e.data.get("name") or "")
              .endswith("PE.change_unit")]
        gr = [e for e in r.of_kind("call") if (e.data.get("name") or "")
              .endswith("PE.get_result")]
        # objects after the optional reduction (rpe)
        if cls_ == "RPE":
            reds = [e for e in r.of_kind("call") if (e.data.get("name") or
                                                     "").endswith(
                "reduce_to_ids")]
            objs = {}
            for e in reds:
                rv = e.data.get("recv")
                for a in tm.strip_ite(rv):
                    if a is ref or (a.op == "call" and a.args[1] and
                                    a.args[1][0] is ref):
                        objs["ref"] = rv
                    if a is est or (a.op == "call" and a.args[1] and
                                    a.args[1][0] is est):
                        objs["est"] = rv
            ctx.require(set(objs) == {"ref", "est"},
                        "rpe(): reduced trajectory objects not identified")
            o_ref, o_est = objs["ref"], objs["est"]
            want_slice = T("slice", const(1), tm.NONE, tm.NONE)
        else:
            o_ref, o_est = ref, est
            want_slice = None
        srcs = {"timestamps": tm.attr(o_est, "timestamps"),
                "distances_from_start": tm.attr(o_ref, "distances"),
                "distances": tm.attr(o_est, "distances")}
        for n in names:
            e = adds[n]
            v = e.data["args"][1]
            sl = None
            base = v
            if v.op == "sub" and v.args[1].op == "slice":
                sl, base = v.args[1], v.args[0]
            if n == "seconds_from_start":
                pe = per_element(base)
                okb = False
                if pe is not None:
                    elt, lid, it_, conds = pe
                    ts = tm.attr(o_est, "timestamps")
                    okb = not conds and it_ is ts and elt is T(
                        "binop", "Sub", T("elem", ts, lid),
                        tm.sub(ts, const(0)))
                else:
                    # vectorised spelling: timestamps - timestamps[0]
                    ts = tm.attr(o_est, "timestamps")
                    okb = base is T("binop", "Sub", ts,
                                    tm.sub(ts, const(0)))
            else:
                okb = base is srcs[n]
            oks = sl is want_slice if want_slice is not None else sl is None
            which = "estimate" if n != "distances_from_start" else \
                "reference"
            ctx.ob("C12.4", e, okb and oks,
                   f"{f.name}(): {n} derives from the processed {which} "
                   f"trajectory"
                   f"{' with the slice [1:]' if want_slice is not None else ', unsliced'}"
                   if okb and oks else
                   f"{f.name}(): companion array {n} = {fmt(v)} — expected "
                   f"the processed {which} trajectory's data "
                   f"{'sliced [1:] (first pose has no value)' if want_slice is not None else 'unsliced'}"
                   f": entries no longer belong to the error values",
                   key=f"C12.4:{f.name}:{n}", value=fmt(v))
        # stored trajectories are the processed objects
        at = [e for e in r.of_kind("call") if (e.data.get("name") or "")
              .endswith("Result.add_trajectory")]
        vals = {(e.data["bound"] or {}).get("name"):
                (e.data["bound"] or {}).get("traj") for e in at}
        ok = vals.get(tm.param("ref_name")) is o_ref and \
            vals.get(tm.param("est_name")) is o_est
        ctx.ob("C12.4", at[0] if at else f, ok,
               f"{f.name}(): the stored trajectories are the processed "
               f"objects (ref under ref_name, est under est_name)" if ok else
               f"{f.name}(): stored trajectories are "
               f"{ {fmt(k): fmt(v) for k, v in vals.items()} }",
               key=f"C12.4:{f.name}:trajectories")
        if cls_ == "APE":
            d = pd[0].data["args"][0] if pd and pd[0].data["args"] else None
            ok = d is T("tuple", ref, est)
            ctx.ob("C12.4", pd[0], ok,
                   "ape(): the companion arrays come from the same objects "
                   "that went into process_data",
                   key="C12.4:ape:same-objects")
        # ---------------------------------------------------------- C12.5/6
        strs = [e for e in r.of_kind("call")
                if e.data.get("name") == "builtins.str" and e.data["args"]
                and pd and e.data["args"][0] is
                (pd[0].data.get("recv"))]
        ctx.require(bool(strs) and bool(cu) and bool(gr),
                    f"{fq}: title / change_unit / get_result not found")
        ok = all(s.idx > cu[0].idx for s in strs)
        ctx.ob("C12.5", strs[0], ok,
               f"{f.name}(): the title is taken from the metric after the "
               f"unit change" if ok else
               f"{f.name}(): title = str(metric) at {strs[0].where} is "
               f"computed before change_unit at {cu[0].where}: it names the "
               f"old unit while the values are converted",
               key=f"C12.5:{f.name}:title-after-unit")
        ok = gr[0].idx > cu[0].idx and gr[0].idx > pd[0].idx
        ctx.ob("C12.6", gr[0], ok,
               f"{f.name}(): get_result after process_data and change_unit "
               f"(stored values are the converted ones)" if ok else
               f"{f.name}(): get_result at {gr[0].where} precedes the unit "
               f"change", key=f"C12.6:{f.name}:order")
        # title stored into the result afterwards
        sets = [e for e in r.of_kind("setitem")
                if tm.is_const(e.data["index"], "title")]
        ok = bool(sets) and any(x is strs[0].data["result"]
                                for x in sets[-1].data["value"].walk())
        ctx.ob("C12.5", sets[-1] if sets else f, ok,
               f"{f.name}(): result title is built from str(metric)",
               key=f"C12.5:{f.name}:title-stored")


VARIANTS = [
    dict(name="result-add-info-dropped", file="evo/core/result.py",
         find="        self.info.update(info_dict)",
         replace="        pass", expect="fire", rule="C12.1"),
    dict(name="result-add-trajectory-dropped", file="evo/core/result.py",
         find="        self.trajectories[name] = traj",
         replace="        pass", expect="fire", rule="C12.1"),
    dict(name="result-array-stored-as-copy", file="evo/core/result.py",
         find="        self.np_arrays[name] = array",
         replace="        self.np_arrays[name] = np.array(array)",
         expect="silent"),
    dict(name="result-info-rebuilt", file="evo/core/result.py",
         find="        self.info.update(info_dict)",
         replace="        self.info = {**self.info, **info_dict}",
         expect="silent"),
    dict(name="std-ddof-1", file="evo/core/metrics.py",
         find="            return float(np.std(self.error))",
         replace="            return float(np.std(self.error, ddof=1))",
         expect="fire", rule="C12.1"),
    dict(name="rmse-no-sqrt", file="evo/core/metrics.py",
         find="            return math.sqrt(np.mean(squared_errors))",
         replace="            return np.mean(squared_errors)",
         expect="fire", rule="C12.1"),
    dict(name="factor-ratio-inverted", file="evo/core/metrics.py",
         find="            self.error *= (METER_SCALE_FACTORS[self.unit] /\n"
              "                           METER_SCALE_FACTORS[new_unit])",
         replace="            self.error *= (METER_SCALE_FACTORS[new_unit] /\n"
                 "                           METER_SCALE_FACTORS[self.unit])",
         expect="fire", rule="C12.2"),
    dict(name="cm-factor-typo", file="evo/core/units.py",
         find="    Unit.centimeters: 1e-2,", replace="    Unit.centimeters: 1e-1,",
         expect="fire", rule="C12.2"),
    dict(name="companion-missing-slice", file="evo/main_rpe.py",
         find='        rpe_result.add_np_array("distances_from_start", traj_ref.distances[1:])',
         replace='        rpe_result.add_np_array("distances_from_start", traj_ref.distances)',
         expect="fire", rule="C12.4"),
    dict(name="write-before-raise", file="evo/core/metrics.py",
         find="        if len(self.error) == 0:\n            raise MetricsException(\n"
              "                \"error array is empty - \"",
         replace="        self.unit = new_unit\n"
                 "        if len(self.error) == 0:\n            raise MetricsException(\n"
                 "                \"error array is empty - \"",
         expect="fire", rule="C12.3"),
    dict(name="title-before-unit-change", file="evo/main_ape.py",
         find="    ape_metric.process_data(data)\n\n    if change_unit:\n"
              "        ape_metric.change_unit(change_unit)\n\n    title = str(ape_metric)",
         replace="    ape_metric.process_data(data)\n    title = str(ape_metric)\n\n    if change_unit:\n"
                 "        ape_metric.change_unit(change_unit)\n",
         expect="fire", rule="C12.5"),
    dict(name="distances-from-est", file="evo/main_ape.py",
         find='        ape_result.add_np_array("distances_from_start", traj_ref.distances)',
         replace='        ape_result.add_np_array("distances_from_start", traj_est.distances)',
         expect="fire", rule="C12.4"),
    dict(name="percent-convertible", file="evo/core/metrics.py",
         find="        if self.unit in (Unit.none, Unit.frames, Unit.percent, Unit.seconds):",
         replace="        if self.unit in (Unit.none, Unit.frames, Unit.seconds):",
         expect="silent"),   # still refused by the final else branch
    dict(name="np-square-spelling", file="evo/core/metrics.py",
         find="            squared_errors = np.power(self.error, 2)\n"
              "            return math.sqrt(np.mean(squared_errors))",
         replace="            squared_errors = np.square(self.error)\n"
                 "            return math.sqrt(np.mean(squared_errors))",
         expect="silent"),
]
