"""C01 — APE values equal the definition, pose by pose (structure)."""
from __future__ import annotations

from typing import Dict, List, Optional

from .. import terms as tm
from ..interp import Event, Interp, Result
from ..lib import opaque, comparisons, fmt, fuse_elems, is_call_to, per_element
from ..progdb import AnalysisError
from ..terms import T, const
from . import metrics_model as mm

EXPLANATION = """
Structure of metrics.APE, main_ape.ape/run and common_ape_rpe, decided on
provenance terms with constant propagation per PoseRelation member and per
CLI sub-command. C01.1: a pose-count comparison raising MetricsException
guards every write of the error values (zip would truncate silently).
C01.2: the error array is built element-wise, unconditionally, from the two
*unsliced, unreordered* pose (or position) sequences iterated in lock-step —
one value per pose, in input order. C01.3: for each of the 7 relations the
reducer is the one named by the property (norm of the translation block /
position difference; Frobenius distance of the 3x3 rotation block from eye(3)
or of the whole pose from eye(4); so3_log_angle of the rotation block with
degrees = (relation is ..._deg)), applied to E = a^-1 b of the reference /
estimate pose *of the same index*, and the unit set in __init__ is the unit of
that reduction; unsupported relations raise. C01.4: pipeline order in ape()
(Umeyama ≺ origin ≺ project both ≺ process_data ≺ change_unit ≺ get_result)
and run() (load ≺ downsample/filter ≺ time crop ≺ associate ≺ ape ≺ save).
C01.6: every mutator the pipeline applies (transform, scale, project,
reduce_to_ids) refreshes or flushes each materialised view in every cache
configuration (instances of C08.1), so the metric — which reads positions for
the translation relations and matrices otherwise — sees the processed poses.
C01.9: the requested alignment is the Umeyama fit over all / the first n pose
pairs with the estimate mapped onto the reference (instances of C04.1-3).
C01.5: option wiring — every parameter receives the args attribute of the same
meaning, reference/estimate roles are never crossed, both trajectories get the
same filtering and the same projection plane.
"""
UNDECIDED = [
    "that numpy.linalg.norm, so3_log_angle and relative_se3 compute the "
    "mathematical definitions to within rounding for all rotations (angles "
    "near 0 and pi, UTM-sized offsets) — numerical",
    "zero on coincident input; invariance under common rigid motion",
    "reducers written in an idiom outside the recognised list are reported "
    "as ANALYSIS-ERROR (undecidable), not as a verdict",
]
TRUSTED = ["numpy.linalg.norm", "lie_algebra helpers (structure in C09)"]
ASSUMPTIONS = ["swapping reference and estimate inside ape_base is accepted "
               "(all seven reductions are invariant under E -> E^-1)"]
MANIFEST = dict(
    text="Decides which quantity is computed, from which pose pair, in which "
         "unit, in which order and from which command-line option — for all "
         "7 relations, all sub-commands and all option combinations as path "
         "properties of the code, including metrics.py/main_ape.py which no "
         "pinned test executes. Does not decide numerical agreement with "
         "the mathematical definition.",
    note="Numerical content (norm / log map accuracy, invariances) is "
         "undecided. Recognised reducer idioms are enumerated; anything else "
         "is an analysis error, never a silent pass.",
    technique="per-enum-member constant propagation (SCCP) + provenance term "
              "matching with comprehension fusion + must-precede on the "
              "event log + argument provenance",
)
FLOORS = {"C01.1": 1, "C01.2": 6, "C01.3": 18, "C01.4": 8, "C01.5": 25,
          "C01.6": 20, "C01.7": 12, "C01.8": 4, "C01.9": 30}

APE = "evo.core.metrics.APE"


def _count_owner(t: T) -> Optional[str]:
    """'ref' / 'est' if t is the number of poses of that trajectory:
    .num_poses, len(<view>), <view>.shape[0] (or the whole .shape)"""
    views = ("positions_xyz", "poses_se3", "orientations_quat_wxyz",
             "timestamps")

    def owner(x: T):
        return "ref" if x is mm.REF else ("est" if x is mm.EST else None)
    if t.op == "attr" and t.args[1] == "num_poses":
        return owner(t.args[0])
    v = None
    if is_call_to(t, "builtins.len") and len(t.args[1]) == 1:
        v = t.args[1][0]
    elif t.op == "sub" and tm.is_const(t.args[1], 0) and \
            t.args[0].op == "attr" and t.args[0].args[1] == "shape":
        v = t.args[0].args[0]
    elif t.op == "attr" and t.args[1] == "shape":
        v = t.args[0]
    if v is not None and v.op == "attr" and v.args[1] in views:
        return owner(v.args[0])
    return None


def _guarded_by_length(ctx, res: Result, rule: str, clsname: str,
                       member: str = ""):
    """every store of error values of this relation is unreachable when the
    pose counts differ: some raise of MetricsException is conditioned on a
    comparison of the two counts (however the count is spelled), and all
    stores come after it with the comparison decided 'equal'"""
    raises = [e for e in res.of_kind("raise")
              if "MetricsException" in (e.data.get("exc_name") or "")]
    writes = [w for w in res.of_kind("setattr")
              if w.data["base"] is mm.SELF and
              w.data["name"] in ("E", "error", "delta_ids") and
              not tm.is_const(w.live, False)]
    cands = []
    for e in raises:
        for a in tm.atoms(e.live):
            if a.op == "cmp" and a.args[0] in ("Eq", "NotEq") and \
                    {_count_owner(a.args[1]), _count_owner(a.args[2])} == \
                    {"ref", "est"}:
                cands.append((e, a))
    guards = []
    for (e, a) in cands:
        uneq = a.args[0] == "NotEq"
        if tm.fold(e.live, lambda t: uneq if t is a else None) \
                is not False and tm.fold(
                    e.live, lambda t: (not uneq) if t is a else None) is False:
            guards.append((e, a, uneq))
    # each store is cut off by at least one of the guards
    open_ = [w for w in writes if not any(
        w.idx > e.idx and tm.fold(
            w.live, lambda t, a=a, u=uneq: u if t is a else None) is False
        for e, a, uneq in guards)]
    ok = bool(writes) and bool(guards) and not open_
    tag = f"[{member}] " if member else ""
    ctx.ob(rule, open_[0] if open_ else res.func, ok,
           f"{clsname}.process_data {tag}: unequal pose counts raise "
           f"MetricsException before any error value is written" if ok else
           f"{clsname}.process_data {tag}: "
           + (f"the error values stored at {open_[0].where} are not guarded "
              f"by a pose-count comparison raising MetricsException"
              if open_ else "no pose-count comparison raising "
              "MetricsException guards the computation")
           + " (zip truncates to the shorter trajectory, numpy broadcasts a "
             "single pose)",
           key=f"{rule}:length-guard" + (f":{member}" if member else ""))


def check(ctx):
    prog = ctx.prog
    members = prog.enum_members(mm.PR)
    ctx.require(members is not None and set(mm.ORACLE) == set(members),
                f"PoseRelation members changed: {members}")
    ctx.analysed_fn(f"{APE}.process_data", f"{APE}.__init__",
                    "evo.main_ape.ape", "evo.main_ape.run")
    first = True
    for member in members:
        res = mm.run_relation(prog, "APE", member)
        ctx.analysed["configs"] += 1
        _guarded_by_length(ctx, res, "C01.1", "APE", member)
        first = False
        block, family, degrees, unit_ape, _ = mm.ORACLE[member]
        err = res.attrs.get((mm.SELF, "error"))
        final_raise = [e for e in res.of_kind("raise")
                       if tm.fold(e.live, lambda t: None) is True or
                       not tm.atoms(e.live) and not tm.is_const(e.live,
                                                                False)]
        if unit_ape is None:
            # relation without APE meaning: must be refused
            refused = any("MetricsException" in (e.data.get("exc_name") or "")
                          for e in res.of_kind("raise")
                          if _unconditional_after_guard(e))
            ctx.ob("C01.3", res.func, refused or err is None,
                   f"APE[{member}]: relation is refused "
                   f"(MetricsException)" if refused else
                   f"APE[{member}]: unsupported relation is not refused",
                   key=f"C01.3:{member}:refused",
                   # values computed through a table that is not read (a
                   # registry may not have an entry for this relation)
                   evidence=err is None or not opaque(err))
            continue
        if err is None:
            if _missing_values(ctx, res, "C01.3", "APE", member):
                continue
        ctx.require(err is not None, f"APE[{member}]: self.error is never "
                    f"assigned")
        pe = per_element(err)
        if pe is None:
            iv = mm.interval(err) if family == "angle" else None
            top = 180.0 if degrees else 3.141592653589793
            if iv is not None and top * (1 + 1e-9) < iv[1] < float("inf"):
                ctx.ob("C01.3", res.func, False,
                       f"APE[{member}]: the value expression has range "
                       f"[{iv[0]:.6g}, {iv[1]:.6g}] — a geodesic angle lies "
                       f"in [0, {top:.6g}]; e.g. 2*arccos(<q1,q2>) without "
                       f"|.| yields 2*pi - angle for quaternions q, -q of "
                       f"the same rotation", key=f"C01.3:{member}:range",
                       value=fmt(err))
                continue
            ctx.undecidable("C01.3", res.func, f"APE[{member}]: error array is not built "
                                f"element-wise (unknown idiom): {fmt(err)}")
            continue
        elt, lid, it, conds = pe
        # ---------------------------------------------------------- C01.2
        ok = not conds
        ctx.ob("C01.2", res.func, ok,
               f"APE[{member}]: one value per pose (no filter in the "
               f"element-wise construction)" if ok else
               f"APE[{member}]: values are filtered by {fmt(conds)} — not "
               f"one value per pose", key=f"C01.2:{member}:unconditional")
        red = mm.match_reducer(elt)
        if red is None:
            ctx.undecidable("C01.3", res.func, f"APE[{member}]: reducer idiom not "
                                f"recognised: {fmt(elt)}")
            continue
        # what is the reducer applied to?
        arg = red["arg"]
        rel = mm.match_rel(arg)
        srcs_ok, why = False, ""
        if rel is not None:
            a, b = rel
            pa, pb = mm.pose_elem(a), mm.pose_elem(b)
            if pa and pb:
                srcs_ok = {pa[0], pb[0]} == {"ref", "est"} and \
                    pa[1] == pb[1] and pa[2] == pb[2] == "poses_se3"
                why = f"E = ({pa[0]}_i)^-1 . {pb[0]}_i"
            kind = "pose"
        else:
            # position difference path
            kind = "posdiff"
            d = arg
            if d.op == "elem":
                d0 = d.args[0]
                if d0.op == "binop" and d0.args[0] == "Sub":
                    va, vb = mm.view_of(d0.args[1]), mm.view_of(d0.args[2])
                    srcs_ok = bool(va and vb) and \
                        {va[0], vb[0]} == {"ref", "est"} and \
                        va[1] == vb[1] == "positions_xyz"
                    why = "difference of the two unsliced position arrays"
            elif d.op == "binop" and d.args[0] == "Sub":
                pa, pb = mm.pose_elem(d.args[1]), mm.pose_elem(d.args[2])
                if pa and pb:
                    srcs_ok = {pa[0], pb[0]} == {"ref", "est"} and \
                        pa[1] == pb[1] and pa[2] == pb[2] == "positions_xyz"
                    why = "p_est_i - p_ref_i"
        ctx.ob("C01.2", res.func, srcs_ok,
               f"APE[{member}]: value i is computed from reference pose i "
               f"and estimate pose i of the unsliced sequences ({why})"
               if srcs_ok else
               f"APE[{member}]: the per-pose value is not derived from the "
               f"reference/estimate pose of the same index of the unsliced "
               f"sequences: {fmt(arg)}", key=f"C01.2:{member}:pairing",
               arg=fmt(arg), evidence=not opaque(arg))
        # ---------------------------------------------------------- C01.3
        fam = red["family"]
        if family in ("norm", "pointdist"):
            ok = fam == "norm" and (
                (kind == "posdiff" and red["block"] == "vector") or
                (kind == "pose" and red["block"] == "trans"))
            want = "Euclidean norm of the translation / position difference"
        elif family == "frobenius3":
            ok = fam == "frobenius3" and red["block"] == "rot" and \
                kind == "pose"
            want = "|| R(E) - eye(3) ||"
        elif family == "frobenius4":
            ok = fam == "frobenius4" and red["block"] == "pose" and \
                kind == "pose"
            want = "|| E - eye(4) ||"
        else:
            ok = fam == "angle" and red["block"] == "rot" and \
                red["degrees"] == degrees and kind == "pose"
            want = f"so3_log_angle(R(E), degrees={degrees})"
        ctx.ob("C01.3", res.func, ok,
               f"APE[{member}]: value = {want}" if ok else
               f"APE[{member}]: reducer is {fam} on block {red['block']}"
               f"{' degrees=' + str(red['degrees']) if fam == 'angle' else ''}"
               f" — the property defines {want}",
               key=f"C01.3:{member}:reducer", element=fmt(elt))
        u = mm.init_unit(prog, "APE", member)
        want_u = tm.enum(prog.cls(mm.UNIT).qualname, unit_ape)
        ctx.ob("C01.3", prog.func(f"{APE}.__init__"), u is want_u,
               f"APE[{member}]: unit is {unit_ape}" if u is want_u else
               f"APE[{member}]: unit is {fmt(u)}, the reduction yields "
               f"{unit_ape}", key=f"C01.3:{member}:unit",
               # (a unit that is not resolved to a member of Unit — a call, a
               # lookup that does not fold — is not evidence)
               evidence=u is not None and u.op == "enum")
        ctx.ob("C01.3", res.func, True, f"APE[{member}]: E stored",
               key=f"C01.3:{member}:dispatch", nontrivial=False)

    ctx.section(_pipeline, ctx, "evo.main_ape.ape", "APE", "C01")
    ctx.section(_run_wiring, ctx, "evo.main_ape", "ape", "C01")
    ctx.section(_pipeline_views, ctx, "C01.6")
    ctx.section(_pipeline_inputs, ctx, "C01.7")
    ctx.section(_helpers, ctx, "C01.8")
    ctx.section(_alignment, ctx, "C01.9")


def _missing_values(ctx, res, rule: str, cls_: str, member: str) -> bool:
    """a supported relation for which no error values are stored: evident
    when the run was read completely (no calls through values, no helper of
    the program that is handed the metric and not looked through) and either
    refuses the relation whenever the input guards pass, or completes
    without storing anything.  True if an obligation was recorded."""
    from ..lib import indirect_calls
    if indirect_calls(res) or any(
            e.kind == "call" and e.data.get("target") is not None and
            not e.data.get("inlined") and any(
                v is mm.SELF for v in (e.data.get("bound") or {}).values())
            for e in res.events):
        return False
    # a module-level table that the program fills after its definition (a
    # registry filled by decorators) reads as its empty display here: a
    # lookup in it that "fails" is no evidence
    import ast as _ast
    it_ = Interp(ctx.prog)
    m_ = res.func.module
    for n in _ast.walk(res.func.node):
        if isinstance(n, _ast.Name) and isinstance(n.ctx, _ast.Load) and \
                n.id in m_.constants and isinstance(
                    m_.constants[n.id], (_ast.Dict, _ast.List, _ast.Set,
                                         _ast.Call)) and \
                it_._mutated_table(m_, n.id):
            return False
    refused = [e for e in res.of_kind("raise")
               if "MetricsException" in (e.data.get("exc_name") or "") and
               _unconditional_after_guard(e)]
    completes = not tm.is_const(res.fallthrough, False) or any(
        not tm.is_const(l, False) for _, l in res.returns)
    if refused:
        ctx.ob(rule, refused[0], False,
               f"{cls_}[{member}]: the relation is refused "
               f"(MetricsException at {refused[0].where}) although it is a "
               f"supported pose relation of {cls_} — no error values",
               key=f"{rule}:{member}:supported")
        return True
    if completes:
        ctx.ob(rule, res.func, False,
               f"{cls_}[{member}]: process_data completes without storing "
               f"error values for this relation",
               key=f"{rule}:{member}:supported")
        return True
    return False


def _unconditional_after_guard(e: Event) -> bool:
    """raise reachable whenever the input guards pass"""
    def assign(t):
        if t.op == "cmp":
            return False if t.args[0] == "NotEq" else None
        return None
    return tm.fold(e.live, assign) is True


def _pipeline_inputs(ctx, rule: str):
    """'the stored values are for exactly the pose pairs that remain after
    the requested filtering and time association' of *trajectory files*:
    necessary are the readers' column layouts (a wrong slot changes every
    value), inclusive time cropping, and role / offset-sign preservation of
    the association — instances of C07.1, C11.3, C05.2 / C05.4."""
    from ..core import import_rules
    n = import_rules(ctx, "c07", ("C07.1",), rule,
                     pred=lambda o: o.key.split(":")[1] in (
                         "read_tum_trajectory_file", "read_kitti_poses_file",
                         "read_euroc_csv_trajectory", "kitti"))
    n += import_rules(ctx, "c11", ("C11.3",), rule)
    # ... and the tolerance is inclusive: a pair whose stamps differ by
    # exactly t_max_diff is a pair (C05.5)
    n += import_rules(ctx, "c05", ("C05.2", "C05.4", "C05.5"), rule)
    ctx.require(n >= 12, f"{rule}: reader / crop / association instances "
                f"not found")


def _given_state(t: T, given: dict):
    """truth of a test on an optional command-line value: the value itself
    (truthiness) or `value is [not] None`"""
    if t in given:
        return given[t]
    if t.op == "cmp" and t.args[0] in ("Is", "IsNot") and \
            t.args[2] is tm.NONE and t.args[1] in given:
        return given[t.args[1]] == (t.args[0] == "IsNot")
    return None


def _helpers(ctx, rule: str):
    """the values are compositions of the Lie helpers: the relative pose
    must be A^-1 * B with the true SE(3) inverse, and the angle must be the
    norm of the rotation vector (well-conditioned down to 1e-12 of 0 and of
    pi, which the property quantifies over) — instances of C09.2 / C09.4"""
    from ..core import import_rules
    n = import_rules(ctx, "c09", ("C09.2", "C09.4"), rule,
                     pred=lambda o: o.rule == "C09.4" or any(
                         k in o.key for k in ("se3_inverse", "relative_se3",
                                              "so3_from_se3")))
    ctx.require(n >= 4, f"{rule}: Lie helper instances not found")


def _alignment(ctx, rule: str):
    """'the pose pairs that remain after the requested ... alignment': the
    alignment ape()/rpe() request is PosePath3D.align — the Umeyama map of
    the estimate's positions onto the reference's, over all pose pairs or
    the first n_to_align, applied as scale then rigid motion. A fit over
    other pairs (a dropped last pair, crossed roles) changes every stored
    value — instances of C04.1 / C04.2 / C04.3"""
    from ..core import import_rules
    n = import_rules(ctx, "c04", ("C04.1", "C04.2", "C04.3"), rule)
    ctx.require(n >= 30, f"{rule}: alignment instances not found")


def _pipeline_views(ctx, rule: str):
    """the metric reads positions / pose matrices of the objects the pipeline
    mutated: every mutator applied by ape()/rpe() (transform, scale, project,
    reduce_to_ids) must leave no stale view in any cache configuration —
    instances of the cache-coherence rule C08.1"""
    from ..core import import_rules
    n = import_rules(
        ctx, "c08", ("C08.1",), rule,
        pred=lambda o: any(m in o.key for m in (
            ".transform:", ".scale:", ".project:", ".reduce_to_ids:")))
    ctx.require(n >= 20, f"{rule}: cache-coherence instances not found")


# ------------------------------------------------------------------ shared
_RULES = {"C01": {4: "C01.4", 5: "C01.5"}, "C02": {4: "C02.7", 5: "C02.7"}}


def _R(P: str, k: int) -> str:
    return _RULES[P][k]


def _pipeline(ctx, fq: str, metric_cls: str, P: str):
    prog = ctx.prog
    f = prog.func(fq)
    est, ref = tm.param("traj_est"), tm.param("traj_ref")
    plane = tm.param("project_to_plane")
    r = Interp(prog).run(f)
    ev = lambda suffix: [e for e in r.of_kind("call")
                         if (e.data.get("name") or "").endswith(suffix)]
    al, og, pj = ev("PosePath3D.align"), ev("PosePath3D.align_origin"), \
        ev("PosePath3D.project")
    pd = ev(f"{metric_cls}.process_data")
    cu, gr = ev("PE.change_unit"), ev("PE.get_result")
    ctx.require(al and og and 2 in (len({id(e.node) for e in pj}),
                                    len({e.data.get("recv") for e in pj}))
                and len(pd) == 1 and cu and gr,
                f"{fq}: pipeline steps not found (unknown idiom)")
    seq = [("umeyama/scale alignment", al), ("origin alignment", og),
           ("projection", pj), ("metric", pd), ("unit change", cu),
           ("result", gr)]
    for (na, a), (nb, b) in zip(seq, seq[1:]):
        ok = max(e.idx for e in a) < min(e.idx for e in b)
        ctx.ob(_R(P, 4), b[0], ok,
               f"{f.name}(): {na} precedes {nb}" if ok else
               f"{f.name}(): {nb} at {b[0].where} is executed before {na} "
               f"at {a[-1].where}", key=f"{_R(P, 4)}:{f.name}:{na}<{nb}")
    for e in al:
        bb = e.data["bound"] or {}
        cs = tm.param("correct_scale")
        want_only = T("boolop", "And", (cs, T("unop", "Not",
                                               tm.param("align"))))
        ok = e.data.get("recv") is est and bb.get("traj_ref") is ref and \
            bb.get("correct_scale") is cs and \
            bb.get("correct_only_scale") is want_only and \
            bb.get("n") is tm.param("n_to_align")
        ctx.ob(_R(P, 5), e, ok,
               f"{f.name}(): estimate.align(reference, correct_scale, "
               f"only_scale = correct_scale and not align, n = n_to_align)"
               if ok else
               f"{f.name}(): align receives "
               f"{ {k: fmt(v) for k, v in bb.items()} } on "
               f"{fmt(e.data.get('recv'))} — expected (traj_ref, "
               f"correct_scale, correct_scale and not align, n_to_align)",
               key=f"{_R(P, 5)}:{f.name}:align-args")
    for e in og:
        bb = e.data["bound"] or {}
        ok = e.data.get("recv") is est and bb.get("traj_ref") is ref
        ctx.ob(_R(P, 5), e, ok,
               f"{f.name}(): estimate.align_origin(reference)" if ok else
               f"{f.name}(): align_origin wiring deviates",
               key=f"{_R(P, 5)}:{f.name}:origin-args")
    recs = {e.data.get("recv") for e in pj}
    planes = {(e.data["bound"] or {}).get("plane") for e in pj}
    ok = recs == {est, ref} and planes == {plane} and \
        all(tm.fold(e.live, lambda t: True if t is plane else None)
            is not False and tm.fold(
                e.live, lambda t: False if t is plane else None) is False
            for e in pj)
    ctx.ob(_R(P, 4), pj[0], ok,
           f"{f.name}(): reference and estimate are both projected, to the "
           f"same plane, iff a plane is given" if ok else
           f"{f.name}(): projection is applied to "
           f"{[fmt(x) for x in recs]} with planes {[fmt(x) for x in planes]}",
           key=f"{_R(P, 4)}:{f.name}:project-both")
    data = pd[0].data["args"][0] if pd[0].data["args"] else None
    ok = data is T("tuple", ref, est) and tm.is_const(pd[0].live, True)
    ctx.ob(_R(P, 4), pd[0], ok,
           f"{f.name}(): the metric processes (traj_ref, traj_est) — the "
           f"aligned/projected objects themselves" if ok else
           f"{f.name}(): process_data receives {fmt(data)}",
           key=f"{_R(P, 4)}:{f.name}:data")
    cuv = (cu[0].data["bound"] or {}).get("new_unit")
    cup = tm.param("change_unit")
    ok = cuv is cup and tm.fold(cu[0].live, lambda t: False if t is cup
                                else None) is False
    ctx.ob(_R(P, 4), cu[0], ok,
           f"{f.name}(): change_unit(change_unit) iff requested" if ok else
           f"{f.name}(): unit change wiring: {fmt(cuv)} under "
           f"{fmt(cu[0].live)}", key=f"{_R(P, 4)}:{f.name}:change-unit")
    # every step runs exactly when its own option asks for it, whatever the
    # other options are (the property quantifies over all combinations)
    opts = {"align": tm.param("align"),
            "correct_scale": tm.param("correct_scale"),
            "align_origin": tm.param("align_origin"),
            "project_to_plane": plane, "change_unit": cup}
    for sname, evs, own in (("alignment", al, ("align", "correct_scale")),
                            ("origin alignment", og, ("align_origin",)),
                            ("projection", pj, ("project_to_plane",)),
                            ("unit change", cu, ("change_unit",))):
        def world(on_own, on_others, own=own):
            def assign(t):
                for k, v in opts.items():
                    if t is v:
                        return on_own if k in own else on_others
                    if t.op == "cmp" and t.args[0] in ("Is", "IsNot") and \
                            t.args[1] is v and t.args[2] is tm.NONE:
                        val = on_own if k in own else on_others
                        return val == (t.args[0] == "IsNot")
                return None
            return assign
        alone = [tm.fold(e.live, world(True, False)) for e in evs]
        every = [tm.fold(e.live, world(True, True)) for e in evs]
        off = [tm.fold(e.live, world(False, True)) for e in evs]
        ok = all(v is not False for v in alone + every) and \
            all(v is False for v in off)
        ctx.ob(_R(P, 4), evs[0], ok,
               f"{f.name}(): {sname} runs iff "
               f"{' / '.join(own)} is requested, independent of the other "
               f"options" if ok else
               f"{f.name}(): {sname} at {evs[0].where} does not run exactly "
               f"when {' / '.join(own)} is requested (alone: {alone}, with "
               f"all other options: {every}, own option off: {off}) — a "
               f"requested step is skipped or an unrequested one applied",
               key=f"{_R(P, 4)}:{f.name}:{sname}:enabled")
    b = gr[0].data["bound"] or {}
    ok = b.get("ref_name") is tm.param("ref_name") and \
        b.get("est_name") is tm.param("est_name")
    ctx.ob(_R(P, 5), gr[0], ok,
           f"{f.name}(): result labelled with ref_name / est_name" if ok
           else f"{f.name}(): get_result receives "
                f"{ {k: fmt(v) for k, v in b.items()} }",
           key=f"{_R(P, 5)}:{f.name}:names")
    return r


def _run_wiring(ctx, modname: str, core: str, P: str):
    """run(): order and wiring shared by evo_ape and evo_rpe"""
    prog = ctx.prog
    f = prog.func(f"{modname}.run")
    r = Interp(prog).run(f)
    A = lambda n: tm.attr(tm.param("args"), n)
    ev = lambda suffix: [e for e in r.of_kind("call")
                         if (e.data.get("name") or "").endswith(suffix)]
    load = ev("common_ape_rpe.load_trajectories")
    dof = ev("common_ape_rpe.downsample_or_filter")
    crop = ev("reduce_to_time_range")
    assoc = ev("sync.associate_trajectories")
    corec = ev(f"{modname}.{core}")
    save = ev("file_interface.save_res_file")
    ctx.require(len(load) == 1 and len(dof) == 1 and len(crop) >= 1 and
                len(assoc) == 1 and len(corec) == 1 and len(save) == 1,
                f"{modname}.run: pipeline steps not found (unknown idiom)")
    seq = [("load", load), ("downsample/filter", dof), ("time crop", crop),
           ("association", assoc), (core, corec), ("save", save)]
    for (na, a), (nb, b) in zip(seq, seq[1:]):
        ok = a[0].idx < b[0].idx
        ctx.ob(_R(P, 4), b[0], ok,
               f"run(): {na} precedes {nb}" if ok else
               f"run(): {nb} at {b[0].where} before {na} at {a[0].where}",
               key=f"{_R(P, 4)}:run:{na}<{nb}")
    L = load[0].data["result"]
    ref0, est0 = tm.sub(L, const(0)), tm.sub(L, const(1))
    ref_name, est_name = tm.sub(L, const(2)), tm.sub(L, const(3))
    b = dof[0].data["bound"] or {}
    ok = b.get("args") is tm.param("args") and b.get("traj_ref") is ref0 \
        and b.get("traj_est") is est0
    ctx.ob(_R(P, 5), dof[0], ok,
           "run(): downsample_or_filter(args, traj_ref, traj_est)" if ok else
           f"run(): downsample_or_filter receives "
           f"{ {k: fmt(v) for k, v in b.items()} }",
           key=f"{_R(P, 5)}:run:dof")
    for ce in crop:
        b = ce.data["bound"] or {}
        on_ref = ce.data.get("recv") is ref0
        ok = b.get("start_timestamp") is A("t_start") and \
            b.get("end_timestamp") is A("t_end") and on_ref
        ctx.ob(_R(P, 5), ce, ok,
               "run(): the reference is cropped to [t_start, t_end] (given "
               "in reference time); the estimate is cut by the association"
               if ok else
               (f"run(): the time range (reference time) is also applied to "
                f"{fmt(ce.data.get('recv'))} before the association: "
                f"estimate poses whose partners lie inside the range (time "
                f"offset / unequal stamps at the border) are removed, so "
                f"the stored pairs are not those that remain after "
                f"association" if not on_ref else
                f"run(): time crop wiring: "
                f"{ {k: fmt(v) for k, v in b.items()} }"),
               key=f"{_R(P, 5)}:run:crop")
    # the crop runs whenever either bound is given (each alone suffices)
    for opt in ("t_start", "t_end"):
        other = "t_end" if opt == "t_start" else "t_start"

        def only(t, opt=opt, other=other):
            g = _given_state(t, {A(opt): True, A(other): False})
            if g is not None:
                return g
            if is_call_to(t, "builtins.isinstance"):
                return True
            return None
        on = [tm.fold(ce.live, only) for ce in crop]
        ok = any(v is not False for v in on)
        ctx.ob(_R(P, 5), crop[0], ok,
               f"run(): --{opt} alone enables the time crop" if ok else
               f"run(): with only --{opt} given the time range is ignored "
               f"({fmt(crop[0].live)[:100]}): the stored values are not "
               f"restricted to the requested range",
               key=f"{_R(P, 5)}:run:crop-enabled:{opt}")

    def none_given(t):
        return _given_state(t, {A("t_start"): False, A("t_end"): False})
    ok = all(tm.fold(ce.live, none_given) is False for ce in crop)
    ctx.ob(_R(P, 5), crop[0], ok,
           "run(): without --t_start / --t_end nothing is cropped" if ok else
           "run(): the time crop runs although no range was requested",
           key=f"{_R(P, 5)}:run:crop-off")
    b = assoc[0].data["bound"] or {}
    want = {"traj_1": ref0, "traj_2": est0, "max_diff": A("t_max_diff"),
            "offset_2": A("t_offset")}
    for k, w in want.items():
        ok = b.get(k) is w
        ctx.ob(_R(P, 5), assoc[0], ok,
               f"run(): associate_trajectories {k} <- {fmt(w)}" if ok else
               f"run(): associate_trajectories parameter `{k}` receives "
               f"{fmt(b.get(k))}, expected {fmt(w)}",
               key=f"{_R(P, 5)}:run:associate:{k}")
    AR = assoc[0].data["result"]
    isinst = [a for a in tm.atoms(assoc[0].live)]
    ref1 = _after_assoc(ref0, tm.sub(AR, const(0)), assoc[0])
    est1 = _after_assoc(est0, tm.sub(AR, const(1)), assoc[0])
    b = corec[0].data["bound"] or {}
    common = {
        "align": A("align"), "correct_scale": A("correct_scale"),
        "n_to_align": A("n_to_align"), "align_origin": A("align_origin"),
        "ref_name": ref_name, "est_name": est_name,
    }
    if core == "rpe":
        common.update({"delta": A("delta"), "rel_delta_tol": A("delta_tol"),
                       "all_pairs": A("all_pairs"),
                       "pairs_from_reference": A("pairs_from_reference")})
    for k, w in common.items():
        ok = b.get(k) is w
        ctx.ob(_R(P, 5), corec[0], ok,
               f"run(): {core}({k} <- {fmt(w)})" if ok else
               f"run(): {core}() parameter `{k}` receives {fmt(b.get(k))}, "
               f"expected {fmt(w)}", key=f"{_R(P, 5)}:run:{core}:{k}")
    for k, w in (("traj_ref", ref1), ("traj_est", est1)):
        got = b.get(k)
        ok = got is not None and set(tm.strip_ite(got)) == set(
            tm.strip_ite(w))
        ctx.ob(_R(P, 5), corec[0], ok,
               f"run(): {core}({k}) is the associated (or index-based) "
               f"{k[5:]} trajectory" if ok else
               f"run(): {core}() parameter `{k}` receives {fmt(got)}",
               key=f"{_R(P, 5)}:run:{core}:{k}")
    # pose relation / unit / plane derived from the like-named option
    pr = b.get("pose_relation")
    ok = pr is not None and is_call_to(pr, "evo.common_ape_rpe."
                                           "get_pose_relation") and \
        pr.args[1] and pr.args[1][0] is tm.param("args")
    ctx.ob(_R(P, 5), corec[0], ok, f"run(): pose_relation <- "
           f"get_pose_relation(args)", key=f"{_R(P, 5)}:run:{core}:pose_relation")
    for k, opt, ctor in (("change_unit", "change_unit",
                          "evo.core.units.Unit"),
                         ("project_to_plane", "project_to_plane",
                          "evo.core.trajectory.Plane")):
        got = b.get(k)
        alts = tm.strip_ite(got) if got is not None else []
        ok = len(alts) == 2 and any(tm.is_const(x, None) for x in alts) and \
            any(x.op == "call" and tm.callee_name(x) == ctor and x.args[1]
                and x.args[1][0] is A(opt) for x in alts)
        ctx.ob(_R(P, 5), corec[0], ok,
               f"run(): {k} <- {ctor.rsplit('.', 1)[1]}(args.{opt}) if "
               f"given else None" if ok else
               f"run(): {core}() parameter `{k}` receives {fmt(got)}",
               key=f"{_R(P, 5)}:run:{core}:{k}")
    b = save[0].data["bound"] or {}
    ok = b.get("zip_path") is A("save_results") and \
        b.get("result_obj") is corec[0].data["result"]
    ctx.ob(_R(P, 5), save[0], ok,
           f"run(): the result of {core}() is saved to args.save_results"
           if ok else f"run(): save_res_file receives "
                      f"{ {k: fmt(v) for k, v in b.items()} }",
           key=f"{_R(P, 5)}:run:save")
    _common_wiring(ctx, P)


def _after_assoc(before: T, after: T, e: Event) -> T:
    """value of a trajectory variable after the conditional association"""
    return tm.ite(e.live, after, before)


_DONE_COMMON = set()


def _common_wiring(ctx, P: str):
    prog = ctx.prog
    A = lambda n: tm.attr(tm.param("args"), n)
    # get_pose_relation string table
    f = prog.func("evo.common_ape_rpe.get_pose_relation")
    table = {"full": "full_transformation", "rot_part": "rotation_part",
             "trans_part": "translation_part",
             "angle_deg": "rotation_angle_deg",
             "angle_rad": "rotation_angle_rad",
             "point_distance": "point_distance",
             "point_distance_error_ratio": "point_distance_error_ratio"}
    prq = prog.cls(mm.PR).qualname
    for s, member in table.items():
        it = Interp(prog)
        r = it.run(f, {}, None, preset_attrs={
            (tm.param("args"), "pose_relation"): const(s)})
        ok = r.ret is tm.enum(prq, member)
        ctx.ob(_R(P, 5), f, ok,
               f"--pose_relation {s} -> PoseRelation.{member}" if ok else
               f"--pose_relation {s} selects {fmt(r.ret)}, documented is "
               f"{member}", key=f"{_R(P, 5)}:pose-relation:{s}")
    # downsample_or_filter: both trajectories, same parameters
    f = prog.func("evo.common_ape_rpe.downsample_or_filter")
    r = Interp(prog).run(f)
    ref, est = tm.param("traj_ref"), tm.param("traj_est")
    ds = [e for e in r.of_kind("call")
          if (e.data.get("name") or "").endswith("PosePath3D.downsample")]
    mf = [e for e in r.of_kind("call")
          if (e.data.get("name") or "").endswith("PosePath3D.motion_filter")]
    ok = {e.data.get("recv") for e in ds} == {ref, est} and all(
        (e.data["bound"] or {}).get("num_poses") is A("downsample")
        for e in ds)
    ctx.ob(_R(P, 5), f, ok,
           "downsample: both trajectories to args.downsample" if ok else
           "downsample is not applied to both trajectories with "
           "args.downsample", key=f"{_R(P, 5)}:dof:downsample")
    mfa = A("motion_filter")
    # decided end to end, whatever the signatures in between: the filter
    # behind each call compares the path with args.motion_filter[0] and the
    # rotation angle (rad) with args.motion_filter[1] taken as *degrees*
    import math
    from ..lib import motion_filter_probe, PROBE_DIST, PROBE_ANGLE_DEG
    probe = motion_filter_probe(
        prog, f, lambda e: (e.data.get("name") or "").endswith(
            "PosePath3D.motion_filter"),
        tm.sub(mfa, const(0)), tm.sub(mfa, const(1)))
    recvs = {e.data.get("recv") for e, _, _ in probe}
    bad = [(e, d, a) for e, d, a in probe if d is not None and a is not None
           and not (abs(d - PROBE_DIST) < 1e-12 and
                    abs(a - math.radians(PROBE_ANGLE_DEG)) < 1e-12)]
    unknown = [e for e, d, a in probe if d is None or a is None]
    if unknown and not bad:
        ctx.undecidable(_R(P, 5), unknown[0], "motion filter: thresholds "
                        "compared inside the filter not found / not "
                        "evaluable (unknown idiom)")
    else:
        ok = recvs == {ref, est} and not bad
        why = ""
        if bad:
            e_, d_, a_ = bad[0]
            why = (f" — for `--motion_filter 2 3` the filter behind "
                   f"{fmt(e_.data.get('recv'))}.motion_filter compares the "
                   f"path with {d_:g} m and the angle with {a_:.6g} rad "
                   f"(expected 2 m and {math.radians(PROBE_ANGLE_DEG):.6g} rad = 3 deg)")
        ctx.ob(_R(P, 5), bad[0][0] if bad else f, ok,
               "motion filter: both trajectories, distance in meters and "
               "the angle of --motion_filter converted from degrees exactly "
               "once" if ok else
               "motion filter is not applied to both trajectories with the "
               "given distance and the given angle in degrees" + why,
               key=f"{_R(P, 5)}:dof:motion")
    # each step runs exactly when its own option is given
    for name, evs, opt, other in (("downsample", ds, "downsample",
                                   "motion_filter"),
                                  ("motion filter", mf, "motion_filter",
                                   "downsample")):
        def given(t, opt=opt, other=other, on=True, other_on=False):
            if t is A(opt):
                return on
            if t is A(other):
                return other_on
            if is_call_to(t, "builtins.isinstance"):
                return True
            return None
        alone = [tm.fold(e.live, given) for e in evs]
        both = [tm.fold(e.live, lambda t: given(t, other_on=True))
                for e in evs]
        # ... nor may any test that involves the other option (its value
        # compared with the data, an early return of its block) decide
        # whether this step runs
        foreign = []
        for e in evs:
            for a in tm.atoms(e.live):
                if a is A(other) or a is A(opt) or not any(
                        x is A(other) for x in a.walk()):
                    continue
                for val in (True, False):
                    if tm.fold(e.live, lambda t, a=a, val=val: val if t is a
                               else given(t, other_on=True)) is False:
                        foreign.append(a)
        both = both + [False] * len(foreign)
        okb = bool(evs) and all(v is not False for v in both)
        ctx.ob(_R(P, 5), f, okb,
               f"{name}: also runs when --{other} is given as well (all "
               f"option combinations)" if okb else
               f"{name}: is skipped when --{other} is given as well "
               f"({[fmt(a)[:80] for a in foreign] or [fmt(e.live)[:80] for e in evs]}) — the requested "
               f"filtering is silently not applied",
               key=f"{_R(P, 5)}:dof:{opt}:independent")
        off = [tm.fold(e.live, lambda t: given(t, on=False)) for e in evs]
        ok = bool(evs) and all(v is not False for v in alone) and \
            all(v is False for v in off)
        ctx.ob(_R(P, 5), f, ok,
               f"{name}: runs with --{opt} alone and not without it" if ok
               else f"{name}: does not run exactly when --{opt} is given "
                    f"({[fmt(e.live)[:80] for e in evs]})",
               key=f"{_R(P, 5)}:dof:{opt}:enabled")
    # load_trajectories: roles per sub-command
    f = prog.func("evo.common_ape_rpe.load_trajectories")
    roles = {"tum": ("ref_file", "est_file"),
             "kitti": ("ref_file", "est_file"),
             "euroc": ("state_gt_csv", "est_file"),
             "bag": ("ref_topic", "est_topic"),
             "bag2": ("ref_topic", "est_topic")}
    for sc, (rsrc, esrc) in roles.items():
        r = Interp(prog).run(f, {}, None, preset_attrs={
            (tm.param("args"), "subcommand"): const(sc)})
        ret = r.ret
        ok = ret.op == "tuple" and len(ret.args) == 4
        if ok:
            tr, te, nr, ne = ret.args
            has = lambda t, n: any(x is A(n) for x in t.walk())
            ok = has(tr, rsrc) and not has(tr, esrc) and has(te, esrc) and \
                not has(te, rsrc) and nr is A(rsrc) and ne is A(esrc)
        ctx.ob(_R(P, 5), f, ok,
               f"load[{sc}]: reference from args.{rsrc}, estimate from "
               f"args.{esrc}, names alike" if ok else
               f"load[{sc}]: roles are crossed or names mismatched: "
               f"{fmt(ret)}", key=f"{_R(P, 5)}:load:{sc}")


VARIANTS = [
    dict(name="ape-full-transformation-not-computed", file="evo/core/metrics.py",
         find="        elif self.pose_relation == PoseRelation.full_transformation:\n"
              "            self.error = np.array(\n"
              "                [np.linalg.norm(E_i - np.eye(4)) for E_i in self.E])\n",
         replace="        elif self.pose_relation == PoseRelation.full_transformation:\n"
                 "            pass\n",
         expect="fire", rule="C01.3"),
    dict(name="ape-full-transformation-refused", file="evo/core/metrics.py",
         find="        elif self.pose_relation == PoseRelation.full_transformation:\n"
              "            self.error = np.array(\n"
              "                [np.linalg.norm(E_i - np.eye(4)) for E_i in self.E])\n",
         replace="", expect="fire", rule="C01.3"),
    dict(name="length-guard-removed", file="evo/core/metrics.py",
         find="        traj_ref, traj_est = data\n"
              "        if traj_ref.num_poses != traj_est.num_poses:\n"
              "            raise MetricsException(\n"
              "                \"trajectories must have same number of poses\")\n\n"
              "        if self.pose_relation in (PoseRelation.translation_part,\n"
              "                                  PoseRelation.point_distance):\n"
              "            # Translation part of APE",
         replace="        traj_ref, traj_est = data\n\n"
                 "        if self.pose_relation in (PoseRelation.translation_part,\n"
                 "                                  PoseRelation.point_distance):\n"
                 "            # Translation part of APE",
         expect="fire", rule="C01.1"),
    dict(name="zip-sliced", file="evo/core/metrics.py",
         find="                self.ape_base(x_t, x_t_star) for x_t, x_t_star in zip(\n"
              "                    traj_est.poses_se3, traj_ref.poses_se3)",
         replace="                self.ape_base(x_t, x_t_star) for x_t, x_t_star in zip(\n"
                 "                    traj_est.poses_se3[1:], traj_ref.poses_se3)",
         expect="fire", rule="C01.2"),
    dict(name="degrees-flag-flipped", file="evo/core/metrics.py",
         find="            self.error = np.array(\n"
              "                [abs(lie.so3_log_angle(E_i[:3, :3])) for E_i in self.E])\n"
              "        elif self.pose_relation == PoseRelation.rotation_angle_deg:\n"
              "            self.error = np.array(\n"
              "                [abs(lie.so3_log_angle(E_i[:3, :3], True)) for E_i in self.E])\n"
              "        else:\n            raise MetricsException(\"unsupported pose_relation\")",
         replace="            self.error = np.array(\n"
                 "                [abs(lie.so3_log_angle(E_i[:3, :3], True)) for E_i in self.E])\n"
                 "        elif self.pose_relation == PoseRelation.rotation_angle_deg:\n"
                 "            self.error = np.array(\n"
                 "                [abs(lie.so3_log_angle(E_i[:3, :3], True)) for E_i in self.E])\n"
                 "        else:\n            raise MetricsException(\"unsupported pose_relation\")",
         expect="fire", rule="C01.3"),
    dict(name="unit-of-angle-deg", file="evo/core/metrics.py",
         find="        elif pose_relation == PoseRelation.rotation_angle_deg:\n"
              "            self.unit = Unit.degrees\n"
              "        elif pose_relation == PoseRelation.rotation_angle_rad:\n"
              "            self.unit = Unit.radians\n"
              "        else:\n            self.unit = Unit.none  # dimension-less",
         replace="        elif pose_relation == PoseRelation.rotation_angle_deg:\n"
                 "            self.unit = Unit.radians\n"
                 "        elif pose_relation == PoseRelation.rotation_angle_rad:\n"
                 "            self.unit = Unit.radians\n"
                 "        else:\n            self.unit = Unit.none  # dimension-less",
         expect="fire", rule="C01.3"),
    dict(name="project-before-align", file="evo/main_ape.py",
         edits=[("evo/main_ape.py",
                 "    # Align the trajectories.\n    only_scale = correct_scale and not align\n",
                 "    if project_to_plane:\n"
                 "        traj_ref.project(project_to_plane)\n"
                 "        traj_est.project(project_to_plane)\n"
                 "    # Align the trajectories.\n    only_scale = correct_scale and not align\n"),
                ("evo/main_ape.py",
                 "        traj_ref.project(project_to_plane)\n"
                 "        traj_est.project(project_to_plane)\n\n    # Calculate APE.",
                 "\n    # Calculate APE.")],
         expect="fire", rule="C01.4"),
    dict(name="max-diff-offset-swapped", file="evo/main_ape.py",
         find="            traj_ref, traj_est, args.t_max_diff, args.t_offset,",
         replace="            traj_ref, traj_est, args.t_offset, args.t_max_diff,",
         expect="fire", rule="C01.5"),
    dict(name="euroc-roles-crossed", file="evo/common_ape_rpe.py",
         find="        traj_ref = file_interface.read_euroc_csv_trajectory(args.state_gt_csv)\n"
              "        traj_est = file_interface.read_tum_trajectory_file(args.est_file)\n"
              "        ref_name, est_name = args.state_gt_csv, args.est_file",
         replace="        traj_ref = file_interface.read_euroc_csv_trajectory(args.state_gt_csv)\n"
                 "        traj_est = file_interface.read_tum_trajectory_file(args.est_file)\n"
                 "        ref_name, est_name = args.est_file, args.state_gt_csv",
         expect="fire", rule="C01.5"),
    dict(name="only-est-projected", file="evo/main_ape.py",
         find="        traj_ref.project(project_to_plane)\n        traj_est.project(project_to_plane)\n\n    # Calculate APE.",
         replace="        traj_est.project(project_to_plane)\n\n    # Calculate APE.",
         expect="fire", allow_error=True),
    dict(name="ape-base-swapped", file="evo/core/metrics.py",
         find="        return lie.relative_se3(x_t, x_t_star)",
         replace="        return lie.relative_se3(x_t_star, x_t)",
         expect="silent"),
    dict(name="vectorised-norm", file="evo/core/metrics.py",
         find="            self.error = np.array([np.linalg.norm(E_i) for E_i in self.E])\n"
              "        elif self.pose_relation == PoseRelation.rotation_part:\n"
              "            self.error = np.array([\n"
              "                np.linalg.norm(lie.so3_from_se3(E_i) - np.eye(3))\n"
              "                for E_i in self.E\n            ])\n"
              "        elif self.pose_relation == PoseRelation.full_transformation:\n"
              "            self.error = np.array(\n"
              "                [np.linalg.norm(E_i - np.eye(4)) for E_i in self.E])\n"
              "        elif self.pose_relation == PoseRelation.rotation_angle_rad:\n"
              "            self.error = np.array(\n"
              "                [abs(lie.so3_log_angle(E_i[:3, :3])) for E_i in self.E])\n"
              "        elif self.pose_relation == PoseRelation.rotation_angle_deg:\n"
              "            self.error = np.array(\n"
              "                [abs(lie.so3_log_angle(E_i[:3, :3], True)) for E_i in self.E])\n"
              "        else:\n            raise MetricsException(\"unsupported pose_relation\")",
         replace="            self.error = np.array([np.linalg.norm(E_i) for E_i in self.E])\n"
                 "        elif self.pose_relation == PoseRelation.rotation_part:\n"
                 "            self.error = np.array([\n"
                 "                np.linalg.norm(E_i[:3, :3] - np.eye(3))\n"
                 "                for E_i in self.E\n            ])\n"
                 "        elif self.pose_relation == PoseRelation.full_transformation:\n"
                 "            self.error = np.array(\n"
                 "                [np.linalg.norm(E_i - np.eye(4)) for E_i in self.E])\n"
                 "        elif self.pose_relation == PoseRelation.rotation_angle_rad:\n"
                 "            self.error = np.array(\n"
                 "                [abs(lie.so3_log_angle(E_i[:3, :3])) for E_i in self.E])\n"
                 "        elif self.pose_relation == PoseRelation.rotation_angle_deg:\n"
                 "            self.error = np.array(\n"
                 "                [abs(lie.so3_log_angle(E_i[:3, :3], degrees=True)) for E_i in self.E])\n"
                 "        else:\n            raise MetricsException(\"unsupported pose_relation\")",
         expect="silent"),
]
