"""C07 — readers/writers follow the published file conventions; malformed
files are rejected."""
from __future__ import annotations

from typing import Dict, List, Optional, Tuple

from .. import terms as tm
from ..interp import Event, Interp, Result
from ..layout import ALL, Layout, LayoutError
from ..lib import comparisons, fmt, is_call_to, norm_cmp, norm_loops, \
    per_element
from ..terms import T, const

EXPLANATION = """
Layout analysis (E-LAY) of every reader and writer of
evo.tools.file_interface against a frozen oracle of the published
conventions: TUM 't tx ty tz qx qy qz qw' (space), KITTI row-major 3x4
(space), EuRoC 't[ns], px, py, pz, qw, qx, qy, qz, ...' (comma), transform
JSON keys x y z qx qy qz qw (+scale); evo internal positions (x,y,z) and
quaternions (w,x,y,z). C07.1: the column labels arriving at the constructor's
timestamps / positions_xyz / orientations_quat_wxyz / poses_se3 parameters
equal the oracle — data independent, so it holds for every file, and unlike a
round-trip test it detects a convention error shared by reader and writer.
C07.2: the array handed to np.savetxt has exactly the oracle's row layout and
delimiter. C07.3: only EuRoC column 0 is scaled, by 1e9 (ns -> s). C07.4:
comment filtering and delimiter handling are the same for handle and path
inputs (sibling comparison); exactly 3 bytes are skipped iff the file starts
with EF BB BF. C07.5 rejection discipline: a guard comparing the first row's
length with the oracle's column count, and emptiness, raises
FileInterfaceException before the conversion (evaluated for files of several
rows and of a single row); array construction *of the
whole raw matrix* and the float conversion sit in a try whose ValueError
handler raises FileInterfaceException (ragged rows, blanks, trailing
delimiters and non-numeric fields surface there); no handler swallows the
error; load_transform returns only matrices that passed the shape and is_sim3
test; the JSON loader checks key presence before reading and takes every
field from the file as it is (no truthiness default). C07.6: the guard
constant equals the layout width used by the slices. C07.7: the validity test
load_transform relies on (is_sim3 / is_so3 / sim3_scale) is the conjunction of
all necessary conditions and does not let reflections through (instances of
C09.3). C07.8: the trajectory constructors store the arrays the readers hand
them as given (array conversion / copy only — no normalisation, scaling or
rounding).
"""
UNDECIDED = [
    "that the vendored quaternion_matrix implements the Hamilton convention "
    "numerically",
    "float literal spellings accepted by numpy; csv.reader on exotic line "
    "endings (library)",
]
TRUSTED = ["numpy raises ValueError for ragged / non-numeric input of "
           "np.array(rows).astype(float)", "csv.reader",
           "tr.quaternion_matrix takes (w, x, y, z)"]
ASSUMPTIONS = ["A4 vendored transformations.py conventions"]
MANIFEST = dict(
    text="Decides for every file of each format at once which file column "
         "lands in which slot of a trajectory (and back, for the writers), "
         "the unit conversion, the handle/path agreement of comment and BOM "
         "handling, and the rejection discipline (column-count guard tied "
         "to the slicing width, conversion of the whole matrix inside the "
         "ValueError handler, no swallowed errors, validated transforms, "
         "fields taken as they are).",
    note="numpy's behaviour on ragged / non-numeric rows and csv.reader are "
         "trusted; the Hamilton convention of the vendored converter is "
         "assumed (A4).",
    technique="layout algebra over provenance terms (column-label abstract "
              "domain) + dominance via live-condition folding + try-handler "
              "inventory + sibling-branch comparison",
)
FLOORS = {"C07.1": 10, "C07.2": 4, "C07.3": 3, "C07.4": 4, "C07.5": 12,
          "C07.6": 3, "C07.7": 5, "C07.8": 4}

FI = "evo.tools.file_interface."
TUM = ("t", "x", "y", "z", "qx", "qy", "qz", "qw")
EUROC = ("t", "x", "y", "z", "qw", "qx", "qy", "qz")
WXYZ = ("qw", "qx", "qy", "qz")
XYZ = ("x", "y", "z")


def _kitti_entries(poses: T, pe, mat: T):
    """(ok, why) from the entry algebra: every pose is the 4x4 matrix whose
    entry (i, j), i < 3, is column 4i + j of its own row and whose bottom row
    is 0 0 0 1 — for per-row constructions and for constructions vectorised
    over the whole file alike; None if the construction is outside the
    algebra"""
    from ..tensor import Tensor, TensorError
    try:
        if pe is not None and not pe[3] and pe[2] is mat:
            row = T("elem", mat, pe[1])
            ten = Tensor({row: ("row", (12,))})
            if ten.shape(pe[0]) != (4, 4):
                return False, f"pose shape {ten.shape(pe[0])}"
            get = lambda i, j: ten.entry(pe[0], (i, j))
            src = ("src", "row")
        else:
            ten = Tensor({mat: ("mat", ("n", 12))})
            if ten.shape(poses) != ("n", 4, 4):
                return False, f"pose array shape {ten.shape(poses)}"
            get = lambda i, j: ten.entry(poses, ("p", i, j))
            src = ("src", "mat", "p")
        for i in range(3):
            for j in range(4):
                e = get(i, j)
                if e != src + (4 * i + j,):
                    return False, (f"entry ({i},{j}) is {e}, expected "
                                   f"column {4 * i + j} of the pose's row")
        bottom = [get(3, j) for j in range(4)]
        if bottom != [("const", 0.0)] * 3 + [("const", 1.0)]:
            return False, f"bottom row {bottom}"
        return True, ""
    except (TensorError, IndexError, TypeError):
        return None


def _kitti_rows(data: T, poses: T):
    """(ok, why): the table handed to savetxt has, for every pose in order,
    the 12 entries (i, j), i < 3, of the pose matrix in row-major order"""
    from ..tensor import Tensor, TensorError
    pe = per_element(data)
    try:
        if pe is not None and not pe[3] and pe[2] is poses:
            pose = T("elem", poses, pe[1])
            ten = Tensor({pose: ("pose", (4, 4))})
            if ten.shape(pe[0]) != (12,):
                return False, f"row shape {ten.shape(pe[0])}"
            get = lambda c: ten.entry(pe[0], (c,))
            src = ("src", "pose")
        else:
            ten = Tensor({poses: ("poses", ("n", 4, 4))})
            if ten.shape(data) != ("n", 12):
                return False, f"table shape {ten.shape(data)}"
            get = lambda c: ten.entry(data, ("p", c))
            src = ("src", "poses", "p")
        for c in range(12):
            e = get(c)
            if e != src + (c // 4, c % 4):
                return False, (f"column {c} is {e}, expected pose entry "
                               f"({c // 4},{c % 4})")
        return True, ""
    except (TensorError, IndexError, TypeError):
        return None


class Reader:
    def __init__(self, prog, name):
        self.f = prog.func(FI + name)
        self.r: Result = Interp(prog).run(self.f)
        raw = self.r.calls(FI + "csv_read_matrix")
        self.raw_call = raw[0] if raw else None
        self.raw = raw[0].data["result"] if raw else None
        self.conv = [e for e in self.r.of_kind("call")
                     if e.data.get("name") == ".astype"]
        if not self.conv:
            # np.array(<rows>, dtype=float) as the converting step
            self.conv = [e for e in self.r.of_kind("call")
                         if e.data.get("name") in ("numpy.array",
                                                   "numpy.asarray") and
                         dict(e.data["kwargs"]).get("dtype") is not None]
        self.mat = self.conv[0].data["result"] if self.conv else None
        # a conversion done row by row in a loop over all raw rows: the
        # interpreter gives the filled table the term of the whole conversion
        self.rowwise = None
        if self.mat is not None and self.raw is not None:
            els = [x for x in self.mat.walk() if x.op == "elem" and
                   x.args[0] is self.raw]
            if len(els) == 1:
                whole = self.mat.map(lambda x, e_=els[0]: self.raw
                                     if x is e_ else None)
                used = any(
                    any(y is whole for y in v.walk())
                    for e in self.r.events for v in
                    ([e.data.get("result")] + list(e.data.get("args") or ()))
                    if isinstance(v, T))
                if used:
                    self.rowwise = els[0]
                    self.mat = whole
        if self.mat is not None:
            # the table the slices are taken from may be a reshaped view
            for e in self.r.of_kind("call"):
                if e.data.get("name") == ".reshape" and \
                        e.data.get("recv") is self.mat:
                    self.mat = e.data["result"]


def _guard(rd: Reader):
    """(relation, constant) of the first-row length guard, the raise event"""
    raises = [e for e in rd.r.of_kind("raise")
              if "FileInterfaceException" in (e.data.get("exc_name") or "")]
    first_len = tm.call(tm.glob("builtins.len"),
                        (tm.sub(rd.raw, const(0)),), ())
    nonempty = tm.call(tm.glob("builtins.len"), (rd.raw,), ())
    for e in raises:
        for a in tm.atoms(e.live):
            if a.op != "cmp" or a.args[0] not in NEGATED:
                continue
            n = (a.args[1], a.args[0], a.args[2])
            if n[2] is first_len:
                n = (n[2], FLIPPED[n[1]], n[0])
            if n[0] is not first_len or not tm.is_const(n[2]) \
                    or not isinstance(n[2].args[1], int):
                continue

            def rows_read(t, v):
                if t is a:
                    return v
                if t is rd.raw:
                    return True
                if t.op == "cmp" and t.args[1] is nonempty:
                    return True if t.args[0] in ("Gt", "NotEq", "GtE") \
                        else None
                if t.op == "exc":
                    return False
                return None
            on_true = tm.fold(e.live, lambda t: rows_read(t, True))
            on_false = tm.fold(e.live, lambda t: rows_read(t, False))
            if on_true is True and on_false is False:
                rel, bad = n[1], True
            elif on_true is False and on_false is True:
                rel, bad = NEGATED[n[1]], False
            else:
                continue
            c = n[2].args[1]
            # len() is an integer: <= c is < c+1, >= c is > c-1
            if rel == "LtE":
                rel, c = "Lt", c + 1
            elif rel == "GtE":
                rel, c = "Gt", c - 1
            return rel, c, e, a, bad
    return None


def _guard_by_cases(rd: Reader, width: int):
    """(refused(width-1), refused(width), refused(width+1)) for a non-empty
    file whose first row has that many fields: is some
    FileInterfaceException raised before the conversion?  None if a raise
    condition cannot be evaluated."""
    raises = [e for e in rd.r.of_kind("raise")
              if "FileInterfaceException" in (e.data.get("exc_name") or "")
              and not e.tries]
    # a ValueError raised by the guard itself inside the try whose handler
    # turns ValueError into FileInterfaceException is the same refusal
    converts = any("FileInterfaceException" in (e.data.get("exc_name") or "")
                   and any(a.op == "exc" for a in tm.atoms(e.live))
                   for e in rd.r.of_kind("raise"))
    if converts:
        raises += [e for e in rd.r.of_kind("raise")
                   if "ValueError" in (e.data.get("exc_name") or "") and
                   any("ValueError" in hs or "Exception" in hs
                       for _, hs in e.tries)]
    first_len = tm.call(tm.glob("builtins.len"),
                        (tm.sub(rd.raw, const(0)),), ())
    nonempty = tm.call(tm.glob("builtins.len"), (rd.raw,), ())
    out = []
    for L in (width - 1, width, width + 1):
        # ... in a file of several rows and in a file of one row (a guard
        # that only looks at files with more than one row lets a malformed
        # single pose through)
        per_rows = []
        for rows in (5, 1):
            env = _case_env(rd, L, rows=rows)
            vals = [tm.fold(e.live, env) for e in raises]
            if any(v is True for v in vals):
                per_rows.append(True)
            elif all(v is False for v in vals):
                per_rows.append(False)
            else:
                return None
        out.append(per_rows[0] if per_rows[0] == per_rows[1]
                   else "depends on the number of rows")
    return tuple(out)


def _case_env(rd: Reader, L: int, empty: bool = False, rows: int = 5):
    """truth assignment for the world 'non-empty file, every row has L
    fields, no conversion error'"""
    first_len = tm.call(tm.glob("builtins.len"),
                        (tm.sub(rd.raw, const(0)),), ())
    nonempty = tm.call(tm.glob("builtins.len"), (rd.raw,), ())
    if True:
        def env(a, L=L):
            if a is rd.raw:
                return not empty
            if a.op == "exc":
                return False      # no conversion error: the shape guards only
            if is_call_to(a, "builtins.any", "builtins.all") and \
                    len(a.args[1]) == 1:
                # a test of every row: in the file considered here all rows
                # have the same number of fields as the first one
                g_ = Interp.unname(a.args[1][0])
                if g_.op == "comp" and len(g_.args[2]) == 1 and \
                        not g_.args[3] and g_.args[2][0][0] is rd.raw:
                    return tm.fold(g_.args[1], lambda z: env(z, L))
                return None
            if a.op == "cmp":
                def val(t):
                    if t is first_len:
                        return None if empty else L
                    if t is nonempty and empty:
                        return 0
                    if is_call_to(t, "builtins.len") and len(t.args[1]) == 1 \
                            and t.args[1][0].op == "elem" and \
                            t.args[1][0].args[0] is rd.raw:
                        return L          # any row of that file
                    if t is nonempty:
                        return rows
                    if tm.is_const(t) and isinstance(tm.const_val(t), int):
                        return tm.const_val(t)
                    if t.op == "ite":
                        # len(rows[0]) if rows else 0
                        c_ = tm.fold(tm.as_formula(t.args[0]) if hasattr(
                            tm, "as_formula") else t.args[0], env)
                        if c_ is None and t.args[0] is rd.raw:
                            c_ = not empty
                        if c_ is not None:
                            return val(t.args[1] if c_ else t.args[2])
                    return None
                x, y = val(a.args[1]), val(a.args[2])
                if x is not None and y is not None:
                    return {"Lt": x < y, "LtE": x <= y, "Gt": x > y,
                            "GtE": x >= y, "Eq": x == y,
                            "NotEq": x != y}.get(a.args[0])
            return None
        return env


FLIPPED = {"Eq": "Eq", "NotEq": "NotEq", "Lt": "Gt", "Gt": "Lt",
           "LtE": "GtE", "GtE": "LtE"}
NEGATED = {"Eq": "NotEq", "NotEq": "Eq", "Lt": "GtE", "GtE": "Lt",
           "Gt": "LtE", "LtE": "Gt"}


def check(ctx):
    prog = ctx.prog
    ctx.analysed_fn(*(FI + n for n in (
        "csv_read_matrix", "has_utf8_bom", "read_tum_trajectory_file",
        "write_tum_trajectory_file", "read_kitti_poses_file",
        "write_kitti_poses_file", "read_euroc_csv_trajectory",
        "load_transform", "load_transform_json")))
    specs = {
        "read_tum_trajectory_file": (TUM, ("NotEq", 8), " ", True),
        "read_euroc_csv_trajectory": (EUROC, ("Lt", 8), ",", False),
        "read_kitti_poses_file": (None, ("NotEq", 12), " ", True),
    }
    for name, (cols, (grel, gconst), delim, closed) in specs.items():
        rd = Reader(prog, name)
        ctx.require(rd.raw is not None and rd.mat is not None,
                    f"{name}: csv_read_matrix / float conversion not found "
                    f"(unknown idiom)")
        b = rd.raw_call.data["bound"]
        ok = tm.is_const(b.get("delim"), delim) and \
            tm.is_const(b.get("comment_str"), "#") and \
            b.get("file_path") is tm.param(rd.f.params[0])
        ctx.ob("C07.1", rd.raw_call, ok,
               f"{name}: parsed with delimiter {delim!r}, comment '#'"
               if ok else
               f"{name}: csv_read_matrix(delim={fmt(b.get('delim'))}, "
               f"comment_str={fmt(b.get('comment_str'))})",
               key=f"C07.1:{name}:delimiter")
        # ------------------------------------------------------- C07.5 a,b,c
        g = _guard(rd)
        okg = g is not None and (g[0], g[1]) == (grel, gconst)
        sem = _guard_by_cases(rd, gconst)
        if sem is not None:
            # decided on the three first-row lengths around the format's
            # width (one, two or more guard statements alike)
            want = (True, False, True) if grel == "NotEq" else \
                (True, False, False)
            okg = sem == want
            if g is None and okg:
                g = (grel, gconst, None, None, True)
        reshape_why = None
        if not okg and g is None and grel == "NotEq":
            # a reshape of the whole converted table to (number of rows, a,
            # b) with a * b = width *is* the column check (ValueError ->
            # FileInterfaceException); with -1 for the rows only the total
            # count is validated
            nrows = tm.call(tm.glob("builtins.len"), (rd.raw,), ())
            for e in rd.r.of_kind("call"):
                if e.data.get("name") != ".reshape" or not any(
                        "ValueError" in hs or "Exception" in hs
                        for _, hs in e.tries):
                    continue
                a_ = list(e.data["args"])
                if len(a_) == 1 and a_[0].op in ("tuple", "list"):
                    a_ = list(a_[0].args)
                rest = [tm.const_val(z) for z in a_[1:]
                        if tm.is_const(z) and type(tm.const_val(z)) is int]
                prod = 1
                for z in rest:
                    prod *= z
                if len(rest) != len(a_) - 1 or prod != gconst or not any(
                        y is rd.raw for y in (e.data.get("recv") or
                                              tm.NONE).walk()):
                    continue
                if a_[0] is nrows:
                    okg = True
                elif tm.is_const(a_[0], -1) or (
                        a_[0].op == "unop" and a_[0].args[0] == "USub"):
                    reshape_why = (
                        f"{name}: the table is reshaped to (-1, "
                        f"{', '.join(map(str, rest))}): only the *total* "
                        f"number of entries has to be a multiple of "
                        f"{gconst} — a pose spread over several lines or two "
                        f"poses on one line are loaded with shifted columns "
                        f"instead of being rejected")
        if reshape_why:
            ctx.ob("C07.5", rd.f, False, reshape_why,
                   key=f"C07.5:{name}:column-guard")
        else:
          ctx.ob("C07.5", rd.f, okg,
               f"{name}: rows must have "
               f"{'exactly' if grel == 'NotEq' else 'at least'} {gconst} "
               f"entries (first-row guard raises FileInterfaceException)"
               if okg else
               (f"{name}: whether a first row of the wrong width is refused "
                f"depends on the number of rows "
                f"(refused for {gconst - 1}, {gconst}, {gconst + 1} fields: "
                f"{sem}) — a malformed file with a single row is loaded; "
                if sem is not None and any(isinstance(x, str) for x in sem)
                else "") +
               f"{name}: column-count guard is "
               f"{(g[0], g[1]) if g else 'missing'}, the format has "
               f"{'exactly' if grel == 'NotEq' else 'at least'} {gconst} "
               f"columns", key=f"C07.5:{name}:column-guard")
        if g is not None and g[2] is None:
            # the guard was decided by cases (several statements, a test of
            # every row ...): the conversion must be unreachable in the
            # wrong-width worlds and for an empty table
            wrong = (gconst - 1, gconst + 1) if grel == "NotEq" else \
                (gconst - 1,)
            guarded = all(tm.fold(c.live, _case_env(rd, L_)) is False
                          for c in rd.conv for L_ in wrong)
            empty_guarded = all(tm.fold(
                c.live, lambda t: False if t is rd.raw else None) is False
                or tm.fold(c.live, _case_env(rd, 0, empty=True)) is False
                for c in rd.conv)
            okf = guarded and empty_guarded and bool(rd.conv)
            ctx.ob("C07.5", rd.f, okf,
                   f"{name}: empty input and wrong column count are refused "
                   f"before the conversion" if okf else
                   f"{name}: the conversion is reachable for empty input or "
                   f"a wrong column count", key=f"C07.5:{name}:guard-first")
        elif g is not None:
            _, _, ge, ga, gbad = g
            empt = any(a is rd.raw or (a.op == "not" and a.args[0] is rd.raw)
                       for a in tm.atoms(ge.live)) or any(
                is_call_to(a, "builtins.len") for a in tm.atoms(ge.live))
            before = all(ge.idx < c.idx for c in rd.conv)
            bad_true = grel == "NotEq"
            nonempty = tm.call(tm.glob("builtins.len"), (rd.raw,), ())

            def wrong_cols(t: T):
                if t is ga:
                    return gbad
                if t is rd.raw:
                    return True            # rows were read ...
                if t.op == "cmp" and t.args[1] is nonempty:
                    n = norm_cmp(t)        # ... i.e. len(rows) > 0
                    return n is not None and n[1] in ("Lt", "NotEq") or None
                return None
            guarded = all(tm.fold(c.live, wrong_cols) is False
                          for c in rd.conv)
            empty_guarded = all(tm.fold(
                c.live, lambda t: False if t is rd.raw else None) is False
                for c in rd.conv)
            if not (empt and before and guarded and empty_guarded) and \
                    rd.conv:
                # the nesting turned round (`if rows: if width ok: convert`,
                # raise at the end): judged in the worlds of the three widths
                # and of the empty table
                wrong = (gconst - 1, gconst + 1) if grel == "NotEq" else \
                    (gconst - 1,)
                if all(tm.fold(c.live, _case_env(rd, L_)) is False
                       for c in rd.conv for L_ in wrong) and all(
                        tm.fold(c.live, _case_env(rd, 0, empty=True)) is False
                        for c in rd.conv):
                    empt = before = guarded = empty_guarded = True
            ctx.ob("C07.5", ge, empt and before and guarded and
                   empty_guarded,
                   f"{name}: empty input and wrong column count are refused "
                   f"before the conversion"
                   if empt and before and guarded and empty_guarded else
                   f"{name}: the conversion is reachable for empty input or "
                   f"a wrong column count", key=f"C07.5:{name}:guard-first")
        conv_src_ok = False
        why = "no conversion found"
        if rd.conv:
            c = rd.conv[0]
            recv = c.data.get("recv")
            arg = c.data["args"][0] if c.data["args"] else None
            if c.data.get("name") != ".astype":
                # np.array(src, dtype=float): normalise to the astype form
                recv = tm.call(tm.glob("numpy.array"),
                               (c.data["args"][0],), ()) \
                    if c.data["args"] else None
                arg = dict(c.data["kwargs"]).get("dtype")
            whole = recv is not None and is_call_to(recv, "numpy.array") \
                and recv.args[1] and recv.args[1][0] is rd.raw
            src = recv.args[1][0] if recv is not None and \
                is_call_to(recv, "numpy.array") and recv.args[1] else None
            flat = src is not None and src is not rd.raw and any(
                is_call_to(x, "itertools.chain.from_iterable",
                           "itertools.chain", "builtins.sum",
                           "numpy.concatenate", "numpy.hstack",
                           "numpy.ravel", ".ravel", ".flatten")
                or (x.op == "comp" and len(x.args[2]) == 2)
                for x in src.walk()) and any(y is rd.raw
                                             for y in src.walk())
            isfloat = arg is tm.glob("builtins.float") or (
                arg is not None and arg.op == "global" and
                arg.args[0] in ("numpy.float64", "numpy.double"))
            conv_src_ok = whole and isfloat
            if not whole and not flat and rd.rowwise is not None and \
                    src is rd.rowwise:
                # row by row over *all* raw rows: every field is converted
                # if no row is skipped; ragged rows need an explicit length
                # test (an assignment m[i] = row broadcasts a short row)
                lid = rd.rowwise.args[1]
                own = [a for a in tm.atoms(c.live)
                       if any(x is rd.rowwise or (x.op == "index" and
                                                  x.args[0] == lid)
                              for x in a.walk())]
                lnr = tm.call(tm.glob("builtins.len"), (rd.rowwise,), ())
                lens = [a for a in own if a.op == "cmp" and
                        a.args[0] in ("Eq", "NotEq") and
                        lnr in (a.args[1], a.args[2])]
                rs = [x for x in rd.r.of_kind("raise") if x.idx < c.idx and
                      any(a in tm.atoms(x.live) for a in lens)]
                if not own and is_call_to(recv, "numpy.array",
                                          "numpy.asarray"):
                    ctx.ob("C07.5", c, False,
                           f"{name}: the rows are converted one by one and "
                           f"stored into a preallocated matrix without a "
                           f"test of the row length: numpy broadcasts a row "
                           f"with a single entry to the full width, so a "
                           f"ragged file is loaded with made-up values "
                           f"instead of being rejected",
                           key=f"C07.5:{name}:whole-matrix")
                    continue
                ctx.require(len(own) == len(lens) == 1 and rs and
                            tm.fold(c.live, lambda t: (lens[0].args[0] ==
                                                       "Eq") if t is lens[0]
                                    else None) is not False and
                            tm.fold(rs[0].live, lambda t: (
                                lens[0].args[0] == "NotEq") if t is lens[0]
                                else None) is not False,
                            f"{name}: row-wise conversion whose row "
                            f"selection / length test is not recognised")
                conv_src_ok = isfloat
                why = f"converted row by row with astype({fmt(arg)})"
            elif flat:
                why = (f"the rows are flattened ({fmt(src)[:70]}) before "
                       f"the conversion and re-shaped afterwards: numpy no "
                       f"longer sees the row lengths, so ragged rows whose "
                       f"entry counts add up (one short, one long) load "
                       f"with shifted columns and blank rows vanish instead "
                       f"of being rejected")
            elif not whole:
                why = (f"the conversion is applied to "
                       f"{fmt(recv.args[1][0]) if recv is not None and recv.args[1] else fmt(recv)}"
                       f", not to the whole raw matrix: fields outside it "
                       f"are never validated (ragged rows, trailing "
                       f"delimiters, non-numeric fields pass)")
            elif not isfloat:
                why = f"converted with astype({fmt(arg)})"
        ctx.ob("C07.5", rd.conv[0] if rd.conv else rd.f, conv_src_ok,
               f"{name}: np.array(all rows).astype(float) — every field of "
               f"every row is validated" if conv_src_ok and whole else
               f"{name}: every row is length-checked and converted with "
               f"astype(float)" if conv_src_ok else
               f"{name}: {why}", key=f"C07.5:{name}:whole-matrix")
        in_try = rd.conv and all(
            any("ValueError" in hs or "Exception" in hs or
                "BaseException" in hs for _, hs in c.tries)
            for c in rd.conv) and all(
            any("ValueError" in hs or "Exception" in hs
                for _, hs in e.tries)
            for e in rd.r.of_kind("call")
            if e.data.get("name") == "numpy.array" and e.data["args"] and
            e.data["args"][0] is rd.raw)
        # (the handlers around the matrix conversion — in the reader or in
        # the helper it delegates the conversion to; try blocks of other
        # helpers are their own business)
        cdepth = rd.conv[0].depth if rd.conv else 0
        handlers = [e for e in rd.r.of_kind("except") if e.depth == cdepth]
        reraise = all(any(
            x.kind == "raise" and x.idx > h.idx and
            "FileInterfaceException" in (x.data.get("exc_name") or "")
            for x in rd.r.events if h.live is x.live or True)
            for h in handlers) and bool(handlers)
        # the handler body must end in a raise: no event after the handler's
        # raise shares its live condition and continues
        swallow = False
        for h in handlers:
            body = [x for x in rd.r.events if x.idx > h.idx and
                    x.live is h.live]
            if not any(x.kind == "raise" for x in body):
                swallow = True
        ctx.ob("C07.5", rd.f, bool(in_try) and reraise and not swallow,
               f"{name}: array construction and float conversion are inside "
               f"try/except ValueError -> FileInterfaceException; the error "
               f"is not swallowed"
               if in_try and reraise and not swallow else
               f"{name}: "
               + ("conversion is outside the ValueError handler"
                  if not in_try else
                  "a handler swallows the conversion error and continues "
                  "with partial data"),
               key=f"C07.5:{name}:try",
               # (a handler that only records the failure, with the refusal
               # raised after the try block, is not read as swallowing)
               evidence=not (in_try and swallow and any(
                   x.kind == "raise" and "FileInterfaceException" in (
                       x.data.get("exc_name") or "") and
                   x.idx > max(h.idx for h in handlers)
                   for x in rd.r.events)))
        # ------------------------------------------------------- C07.1 / .6
        ret = rd.r.ret
        ctx.require(ret.op == "call" and ret.args[0].op == "cls",
                    f"{name}: does not return a trajectory object")
        init = prog.func(ret.args[0].args[0] + ".__init__")
        bound = Interp(prog).bind(init, list(ret.args[1]), list(ret.args[2]),
                                  tm.param("<obj>"), False)
        if cols is not None:
            width = len(cols) if closed else None
            base_labels = cols

            def base(t: T, m=rd.mat, lab=base_labels):
                return lab if t is m else None
            lay = Layout(base, width_known=closed)
            want = {"timestamps": ("t",), "positions_xyz": XYZ,
                    "orientations_quat_wxyz": WXYZ}
            used_max = 0
            undecided_layout = False
            for pname, w in want.items():
                v = bound.get(pname)
                try:
                    got = lay.cols(v) if v is not None else None
                    err = None
                except LayoutError as e:
                    got, err = None, str(e)
                if err is not None:
                    ctx.undecidable("C07.1", rd.f, f"{name}: layout of "
                                    f"{pname}: {err}")
                    undecided_layout = True
                    continue
                ok = got == w
                ctx.ob("C07.1", rd.f, ok,
                       f"{name}: {pname} <- file columns {w}" if ok else
                       f"{name}: {pname} receives file columns {got}, the "
                       f"{'TUM' if 'tum' in name else 'EuRoC'} convention "
                       f"puts {w} there (values land in the wrong slots)",
                       key=f"C07.1:{name}:{pname}", got=str(got))
            ctx.ob("C07.1", rd.f, not lay.row_ops,
                   f"{name}: no row is dropped or reordered" if not
                   lay.row_ops else f"{name}: rows are selected: "
                                    f"{lay.row_ops}",
                   key=f"C07.1:{name}:rows")
            # C07.3 scaling
            sc = dict(lay.scales)
            if "euroc" in name and undecided_layout:
                pass      # scaling of an unmodelled column cannot be judged
            elif "euroc" in name:
                ok = sc == {"t": ("numpy.divide", 1e9)} or \
                    sc == {"t": ("Div", 1e9)} or \
                    sc == {"t": ("Mult", 1e-9)}
                ctx.ob("C07.3", rd.f, ok,
                       "EuRoC: only the timestamp column is divided by 1e9 "
                       "(ns -> s)" if ok else
                       f"EuRoC: scaling applied is {sc}, expected "
                       f"timestamps / 1e9 only", key="C07.3:euroc")
            else:
                ctx.ob("C07.3", rd.f, not sc,
                       f"{name}: no value is scaled" if not sc else
                       f"{name}: columns scaled: {sc}",
                       key=f"C07.3:{name}")
            # C07.6 the guard constant is the table width the slices assume
            ok = g is not None and g[1] == len(cols)
            ctx.ob("C07.6", rd.f, ok,
                   f"{name}: guard constant {g[1] if g else None} equals "
                   f"the {len(cols)} columns the slicing uses" if ok else
                   f"{name}: guard constant {g[1] if g else None} differs "
                   f"from the {len(cols)} columns the slices address",
                   key=f"C07.6:{name}")
        else:
            # KITTI: entry (i, j) of every pose is column 4i + j
            poses = bound.get("poses_se3")
            pe = per_element(poses) if poses is not None else None
            ok = False
            why = fmt(poses)
            # (the float matrix as converted, before any reshaped view)
            fm = rd.conv[0].data["result"] if rd.conv else rd.mat
            pe_f = pe if (pe is not None and pe[2] is fm) else None
            tv = _kitti_entries(poses, pe_f, fm) if poses is not None \
                else None
            if tv is not None:
                ok, why = tv
            elif pe is not None and not pe[3] and pe[2] is rd.mat:
                row = T("elem", rd.mat, pe[1])
                m = pe[0]
                if is_call_to(m, "numpy.array") and m.args[1] and \
                        m.args[1][0].op == "list" and \
                        len(m.args[1][0].args) == 4:
                    rows = m.args[1][0].args
                    ok = all(r_.op == "list" and len(r_.args) == 4
                             for r_ in rows)
                    if ok:
                        for i in range(3):
                            for j in range(4):
                                if rows[i].args[j] is not tm.sub(
                                        row, const(4 * i + j)):
                                    ok = False
                                    why = (f"entry ({i},{j}) is "
                                           f"{fmt(rows[i].args[j])}, "
                                           f"expected column {4 * i + j}")
                        bottom = [x.args[1] if tm.is_const(x) else None
                                  for x in rows[3].args]
                        if bottom != [0, 0, 0, 1]:
                            ok = False
                            why = f"bottom row {bottom}"
                elif is_call_to(m, "numpy.vstack") and len(m.args[1]) == 1 \
                        and m.args[1][0].op in ("tuple", "list") and \
                        len(m.args[1][0].args) == 2:
                    # np.vstack((row.reshape(3, 4), [0, 0, 0, 1]))
                    top, bot = m.args[1][0].args
                    shp = None
                    if is_call_to(top, ".reshape") and \
                            tm.method_recv(top) is row:
                        a_ = top.args[1]
                        if len(a_) == 1 and a_[0].op == "tuple":
                            a_ = a_[0].args
                        shp = [x.args[1] if tm.is_const(x) else None
                               for x in a_]
                        order = dict(top.args[2]).get("order")
                        if order is not None and not tm.is_const(order, "C"):
                            shp = ("order", fmt(order))
                    bottom = [x.args[1] if tm.is_const(x) else None
                              for x in bot.args] if bot.op == "list" else None
                    if shp is None or bottom is None:
                        ok = None
                    elif shp != [3, 4]:
                        why = f"row reshaped to {shp}, expected (3, 4)"
                    elif bottom != [0, 0, 0, 1]:
                        why = f"bottom row {bottom}"
                    else:
                        ok = True
                else:
                    ok = None
            else:
                ok = None
            ctx.require(ok is not None, f"KITTI reader: pose construction "
                        f"not recognised (unknown idiom): {why}")
            ctx.ob("C07.1", rd.f, ok,
                   "KITTI: pose entry (i, j) <- column 4i+j (row-major "
                   "3x4), bottom row 0 0 0 1, one pose per row in order"
                   if ok else f"KITTI reader layout deviates: {why}",
                   key="C07.1:kitti:matrix")
            ctx.ob("C07.6", rd.f, (g is not None and g[1] == 12) or (
                       g is None and okg and gconst == 12),
                   "KITTI: guard constant 12 = 3x4 entries used",
                   key="C07.6:kitti")
            ctx.ob("C07.3", rd.f, not any(
                is_call_to(x, "numpy.divide", "numpy.multiply")
                for x in (poses.walk() if poses is not None else [])),
                "KITTI: no value is scaled", key="C07.3:kitti")

    from .. import vendored
    vendored.check(ctx, "C07.1", ("quaternion_matrix",))
    from ..core import import_rules
    n = import_rules(ctx, "c09", ("C09.3",), "C07.7")
    ctx.require(n >= 5, "C07.7: membership-test instances not found")
    ctx.section(_writers, ctx, prog)
    ctx.section(_csv, ctx, prog)
    ctx.section(_transform, ctx, prog)
    ctx.section(_messages, ctx, prog)
    ctx.section(_constructors, ctx, prog)


def _constructors(ctx, prog):
    """C07.8: every reader hands the parsed columns to the trajectory
    constructors; 'exactly the numbers in the file' needs them to be stored
    as given — converted to an array, copied, but not rescaled, normalised,
    rounded or reordered."""
    from ..lib import strip_asarray, strip_copies
    TR = "evo.core.trajectory."
    fields = (("PosePath3D", "positions_xyz", "_positions_xyz"),
              ("PosePath3D", "orientations_quat_wxyz",
               "_orientations_quat_wxyz"),
              ("PosePath3D", "poses_se3", "_poses_se3"),
              ("PoseTrajectory3D", "timestamps", "timestamps"))
    for cls, par, attr in fields:
        f = prog.func(f"{TR}{cls}.__init__")
        ctx.analysed_fn(f.qualname)
        p = tm.param(par)

        def given(t: T, p=p):
            if t.op == "cmp" and t.args[0] in ("Is", "IsNot") and \
                    t.args[1] is p and t.args[2] is tm.NONE:
                return t.args[0] == "IsNot"
            return None
        r = Interp(prog, assume=given).run(f)
        v = r.attrs.get((tm.param(f.params[0]), attr))
        if v is None:
            ctx.undecidable("C07.8", f, f"{cls}: `{attr}` is not stored by "
                            f"the constructor (unknown idiom)")
            continue
        v = tm.select(v, given)
        core = strip_asarray(strip_copies(v))
        # np.array(x, dtype=float) / copy=...: still the values of x
        if is_call_to(core, "numpy.array", "numpy.asarray") and \
                len(core.args[1]) == 1 and set(dict(core.args[2])) <= {
                    "dtype", "copy"}:
            dt = dict(core.args[2]).get("dtype")
            if dt is None or dt is tm.glob("builtins.float") or (
                    dt.op == "global" and dt.args[0] in ("numpy.float64",
                                                         "numpy.double")):
                core = strip_asarray(strip_copies(core.args[1][0]))
        ok = core is p
        arith = [x for x in v.walk() if x.op in ("binop", "unop") or
                 (x.op == "call" and (tm.callee_name(x) or "").split(".")[-1]
                  in ("norm", "round", "around", "divide", "multiply",
                      "normalize", "astype", "clip", "sort", "flip"))]
        if not ok and not (arith and any(x is p for x in v.walk())):
            ctx.undecidable("C07.8", f, f"{cls}: `{attr}` is stored as "
                            f"{fmt(v)[:100]} (unknown idiom)")
            continue
        ctx.ob("C07.8", f, ok,
               f"{cls}: the given {par} are stored as they are (array "
               f"conversion / copy only)" if ok else
               f"{cls}: the given {par} are changed before they are stored "
               f"({fmt(arith[0])[:80]}): what a reader parsed from the file "
               f"is no longer what the trajectory holds",
               key=f"C07.8:{cls}:{par}")


# --------------------------------------------------------------------- C07.2
def _traj_base(traj: T):
    def base(t: T):
        if t is tm.attr(traj, "timestamps"):
            return ("t",)
        if t is tm.attr(traj, "positions_xyz"):
            return XYZ
        if t is tm.attr(traj, "orientations_quat_wxyz"):
            return WXYZ
        return None
    return base


def _writers(ctx, prog):
    f = prog.func(FI + "write_tum_trajectory_file")
    r = Interp(prog).run(f)
    sv = r.calls("numpy.savetxt")
    ctx.require(len(sv) == 1, "TUM writer: savetxt not found")
    data = sv[0].data["args"][1] if len(sv[0].data["args"]) > 1 else None
    lay = Layout(_traj_base(tm.param("traj")))
    try:
        from ..lib import exact_text
        got = lay.cols(exact_text(data))
        ok = got == TUM and not lay.row_ops and not lay.scales
        why = str(got)
    except LayoutError as e:
        ctx.undecidable("C07.2", sv[0], f"TUM writer layout: {e}")
        ok, why = None, ""
    if ok is not None:
        ctx.ob("C07.2", sv[0], ok,
               f"TUM writer: rows are {' '.join(TUM)}" if ok else
               f"TUM writer: rows are {why}, the format is "
               f"{' '.join(TUM)}", key="C07.2:tum:layout")
    kw = dict(sv[0].data["kwargs"])
    ctx.ob("C07.2", sv[0], tm.is_const(kw.get("delimiter"), " "),
           "TUM writer: space separated", key="C07.2:tum:delimiter")
    f = prog.func(FI + "write_kitti_poses_file")
    r = Interp(prog).run(f)
    sv = r.calls("numpy.savetxt")
    ctx.require(len(sv) == 1, "KITTI writer: savetxt not found")
    data = sv[0].data["args"][1]
    pe = per_element(data)
    poses = tm.attr(tm.param("traj"), "poses_se3")
    ok = pe is not None and not pe[3] and pe[2] is poses and \
        pe[0] is tm.sub(tm.call(tm.attr(T("elem", poses, pe[1]), "flatten"),
                                (), ()),
                        T("slice", tm.NONE, const(-4), tm.NONE))
    ok = ok or (pe is not None and not pe[3] and pe[2] is poses and
                pe[0] is tm.sub(tm.call(tm.attr(T("elem", poses, pe[1]),
                                                "flatten"), (), ()),
                                T("slice", tm.NONE, const(12), tm.NONE)))
    tv = _kitti_rows(data, poses)
    if tv is not None:
        ok = tv[0]
    ctx.ob("C07.2", sv[0], ok,
           "KITTI writer: the first 12 row-major entries of every pose, one "
           "pose per row in order" if ok else
           f"KITTI writer rows are {fmt(data)}", key="C07.2:kitti:layout")
    kw = dict(sv[0].data["kwargs"])
    ctx.ob("C07.2", sv[0], tm.is_const(kw.get("delimiter"), " "),
           "KITTI writer: space separated", key="C07.2:kitti:delimiter")


# --------------------------------------------------------------------- C07.4
def _csv(ctx, prog):
    f = prog.func(FI + "csv_read_matrix")
    r = Interp(prog).run(f)
    ret = r.ret
    alts = [a for a in tm.strip_ite(ret)
            if a.op == "comp" or is_call_to(a, "builtins.list")]
    ctx.require(len(alts) == 2, "csv_read_matrix: handle and path branches "
                "not found (unknown idiom)")

    def shape(c: T):
        """(source, filter conds, delimiter, line transform, row conds) of
        [row for row in csv.reader((l for l in SRC if ...), delimiter=d)]"""
        rowconds = ()
        if c.op == "call":                 # list(csv.reader(...))
            if len(c.args[1]) != 1 or c.args[2]:
                return None
            it = c.args[1][0]
        else:                              # [row for row in csv.reader(...)]
            if len(c.args[2]) != 1:
                return None
            (it, lid), = c.args[2]
            if c.args[1] is not T("elem", it, lid):
                return None
            row = T("elem", it, lid)
            rowconds = tuple(cc.map(lambda x: T("ROW") if x is row else None)
                             for cc in c.args[3])
        if not is_call_to(it, "csv.reader") or not it.args[1]:
            return None
        g = it.args[1][0]
        if g.op != "comp" or len(g.args[2]) != 1:
            return None
        (src, l2), = g.args[2]
        if is_call_to(src, "builtins.enumerate") and len(src.args[1]) == 1 \
                and not src.args[2]:
            # for i, line in enumerate(lines): the line is element [1]
            line = tm.sub(T("elem", src, l2), const(1))
            inner_src = src.args[1][0]
        else:
            line = T("elem", src, l2)
            inner_src = src
        line_b = T("elem", inner_src, l2)   # (enumerate read through)
        sub_ = lambda t: t.map(lambda x: T("LINE") if x is line or
                               x is line_b else (T("INDEX") if x.op == "index"
                                                 else None))
        conds = tuple(sub_(cc) for cc in g.args[3])
        trans = sub_(g.args[1])
        inner_src = Interp.unname(inner_src)
        if inner_src.op == "comp" and len(inner_src.args[2]) == 1:
            # a generator over a generator: the inner one filters the raw
            # lines, the outer one transforms what passed
            (src0, l0), = inner_src.args[2]
            line0 = T("elem", src0, l0)
            if inner_src.args[1] is not line0 or conds:
                return None
            sub0 = lambda t: t.map(lambda x: T("LINE") if x is line0
                                   else None)
            conds = tuple(sub0(cc) for cc in inner_src.args[3])
            src = src0
        return src, conds, dict(it.args[2]).get("delimiter"), \
            trans, rowconds
    sh = [shape(a) for a in alts]
    if not all(sh):
        # a comment filter that only works on a prefix of the file
        # (itertools.dropwhile): a comment line between data rows reaches
        # the csv parser
        dw = [x for a in alts for x in a.walk()
              if is_call_to(x, "itertools.dropwhile")]
        if dw:
            ctx.ob("C07.4", f, False,
                   "csv_read_matrix: comment lines are skipped with "
                   "itertools.dropwhile, i.e. only the block at the top of "
                   "the file — a line starting with the comment string "
                   "between data rows is parsed as data (shifted / "
                   "non-numeric row) instead of being ignored",
                   key="C07.4:comment-filter")
        else:
            ctx.undecidable("C07.4", f, "csv_read_matrix: the rows are not "
                            "built as csv.reader over a generator that "
                            "filters the lines (unknown idiom)")
    else:
        ok = sh[0][1:] == sh[1][1:]
        ctx.ob("C07.4", f, ok,
               "csv_read_matrix: handle and path inputs filter comment "
               "lines and split by the caller's delimiter identically"
               if ok else
               "csv_read_matrix: the handle branch and the path branch "
               "treat comments / delimiters / lines differently: "
               f"{[fmt(x)[:60] for x in sh[0][1:4]]} vs "
               f"{[fmt(x)[:60] for x in sh[1][1:4]]}",
               key="C07.4:siblings")
        for k_, s_ in zip(("handle", "path"), sh):
            if s_[4]:
                ctx.ob("C07.4", f, False,
                       f"csv_read_matrix[{k_}]: parsed rows are dropped "
                       f"under a condition ({fmt(s_[4][0])[:60]}): e.g. a "
                       f"blank line between data rows is skipped silently "
                       f"instead of being rejected as a malformed row",
                       key="C07.4:row-filter")
            if s_[3] is not T("LINE"):
                bomstrip = any(tm.is_const(x) and isinstance(
                    tm.const_val(x), str) and "\ufeff" in tm.const_val(x)
                    for x in s_[3].walk())
                if bomstrip and s_[1]:
                    ctx.ob("C07.4", f, False,
                           f"csv_read_matrix[{k_}]: the byte-order mark is "
                           f"removed from the line ({fmt(s_[3])[:50]}) only "
                           f"after the comment test saw the raw line: the "
                           f"first line of a BOM file that is a comment "
                           f"does not start with the comment string and is "
                           f"parsed as data", key="C07.4:bom-after-filter")
                else:
                    ctx.undecidable("C07.4", f, f"csv_read_matrix[{k_}]: "
                                    f"lines are transformed before parsing "
                                    f"({fmt(s_[3])[:60]})")
    if all(sh):
        sh = [x[:3] for x in sh]
        want = (T("not", tm.call(tm.attr(T("LINE"), "startswith"),
                                 (tm.param("comment_str"),), ())),)
        ok = sh[0][1] == want and sh[0][2] is tm.param("delim")
        ctx.ob("C07.4", f, ok,
               "lines starting with the comment string are ignored; fields "
               "split at `delim`" if ok else
               f"comment filter is {[fmt(x) for x in sh[0][1]]}, delimiter "
               f"{fmt(sh[0][2])}", key="C07.4:comment-filter")
    seeks = [e for e in r.of_kind("call") if e.data.get("name") == ".seek"]
    def bom(t):     # has_utf8_bom(<the path>), whatever path type it wraps
        return is_call_to(t, FI + "has_utf8_bom") and t.args[1] and \
            tm.mentions_param(t.args[1][0], "file_path")
    ok = len(seeks) == 1 and tm.is_const(seeks[0].data["args"][0], 3) and \
        tm.fold(seeks[0].live, lambda t: False if bom(t) else None) \
        is False and tm.fold(seeks[0].live, lambda t: True if bom(t)
                             else None) is not False
    if not seeks:
        # the other way to skip it: the "utf-8-sig" codec (which strips a
        # leading BOM and nothing else), always or when the file has one
        opens = [e for e in r.of_kind("call")
                 if e.data.get("name") in ("builtins.open", ".open",
                                           "io.open", "codecs.open")]
        encs = [dict(e.data["kwargs"]).get("encoding") for e in opens]
        encs = [x for x in encs if x is not None]

        def sig(x: T) -> bool:
            if tm.is_const(x) and str(tm.const_val(x)).lower().replace(
                    "_", "-") == "utf-8-sig":
                return True
            return x.op == "ite" and bom(x.args[0]) and sig(x.args[1])
        ok = len(opens) == 1 and len(encs) == 1 and sig(encs[0])
    if not ok and not seeks and any(
            tm.is_const(x) and isinstance(tm.const_val(x), str) and
            "\ufeff" in tm.const_val(x) for x in ret.walk()):
        # the mark is handled on the decoded text (U+FEFF stripped from a
        # line): another mechanism, judged with the line transform above
        ctx.undecidable("C07.4", f, "csv_read_matrix: byte-order mark "
                        "handled on the decoded text (U+FEFF), not by "
                        "seek(3) / utf-8-sig")
        ok = None
    if ok is not None:
        ctx.ob("C07.4", seeks[0] if seeks else f, ok,
               "exactly 3 bytes are skipped iff the file has a UTF-8 BOM"
               if ok else "BOM skipping deviates (not 3 bytes / not tied to "
               "has_utf8_bom)", key="C07.4:bom-skip")
    g = prog.func(FI + "has_utf8_bom")
    rg = Interp(prog).run(g)
    consts = [x.args[1] for x in rg.ret.walk() if tm.is_const(x) and
              isinstance(x.args[1], int) and x.args[1] > 255]
    reads = [x for x in rg.ret.walk() if is_call_to(x, ".read")
             and x.args[1] and tm.is_const(x.args[1][0], 3)]
    byts = [x.args[1] for x in rg.ret.walk() if tm.is_const(x) and
            isinstance(x.args[1], bytes)]
    ok = (consts == [0xEFBBBF] or byts == [b"\xef\xbb\xbf"]) and bool(reads)
    ctx.ob("C07.4", g, ok,
           "has_utf8_bom compares the first 3 bytes with EF BB BF" if ok
           else f"has_utf8_bom compares with {consts or byts}",
           key="C07.4:bom-bytes")


# ------------------------------------------------------------- transforms
def _key_of(t: T) -> Optional[str]:
    """'qw' if every alternative of t is <data>['qw']"""
    keys = set()
    for a in tm.strip_ite(t):
        if a.op == "sub" and tm.is_const(a.args[1]) and \
                isinstance(a.args[1].args[1], str):
            keys.add(a.args[1].args[1])
        else:
            return None
    return keys.pop() if len(keys) == 1 else None


def _transform(ctx, prog):
    from ..lib import extra_defaults
    f = prog.func(FI + "load_transform_json")
    extra = extra_defaults(f, f.params[:1])
    ctx.require(extra is not None, "load_transform_json: signature changed")
    r = Interp(prog).run(f, dict(extra))     # later options at defaults
    ret = r.ret
    ok = False
    if is_call_to(ret, "evo.core.lie_algebra.sim3") and \
            len(ret.args[1]) == 3:
        rot, xyz, scale = ret.args[1]
        qm = [x for x in rot.walk() if is_call_to(
            x, "evo.core.transformations.quaternion_matrix")]
        qkeys = xkeys = None
        if len(qm) == 1 and qm[0].args[1]:
            q = qm[0].args[1][0]
            if is_call_to(q, "numpy.array") and q.args[1]:
                q = q.args[1][0]
            if q.op == "list":
                qkeys = tuple(_key_of(x) for x in q.args)
        x_ = xyz
        if is_call_to(x_, "numpy.array") and x_.args[1]:
            x_ = x_.args[1][0]
        if x_.op == "list":
            xkeys = tuple(_key_of(x) for x in x_.args)
        ok1 = qkeys == WXYZ
        ctx.ob("C07.1", f, ok1,
               "JSON transform: quaternion handed to quaternion_matrix in "
               "(qw, qx, qy, qz) order" if ok1 else
               f"JSON transform: quaternion components are taken as "
               f"{qkeys}, quaternion_matrix expects (qw, qx, qy, qz)",
               key="C07.1:json:quat")
        ok2 = xkeys == XYZ
        ctx.ob("C07.1", f, ok2,
               "JSON transform: translation is (x, y, z)" if ok2 else
               f"JSON transform: translation keys {xkeys}",
               key="C07.1:json:xyz")
        rot_ok = is_call_to(rot, "evo.core.lie_algebra.so3_from_se3") or \
            rot.op == "sub"
        ctx.ob("C07.1", f, rot_ok, "JSON transform: rotation block of the "
               "quaternion matrix", key="C07.1:json:rot", nontrivial=False)
        # scale: data['scale'] if present else 1 — by key presence
        salts = tm.strip_ite(scale)
        has_key = any(_key_of(a) == "scale" for a in salts if a.op == "sub")
        gets = [x for x in scale.walk() if is_call_to(x, ".get")]
        # data.get("scale") with `is None` deciding the default is exact:
        # only an absent (or null) entry becomes 1, a 0 stays 0
        none_tested = bool(gets) and all(
            len(g.args[1]) == 1 and not g.args[2] and
            tm.is_const(g.args[1][0], "scale") for g in gets) and any(
            a.op == "cmp" and a.args[0] in ("Is", "IsNot") and
            all(z in gets for z in tm.strip_ite(a.args[1])) and
            a.args[2] is tm.NONE
            for x in scale.walk() if x.op == "ite"
            for a in tm.atoms(x.args[0]))
        # data.get("scale", 1): the dictionary's own presence test — a 0 in
        # the file is returned as 0
        get_default = bool(gets) and all(
            len(g.args[1]) == 2 and not g.args[2] and
            tm.is_const(g.args[1][0], "scale") and
            tm.is_const(g.args[1][1], 1) for g in gets) and all(
            a in gets for a in salts) and not any(
            x.op == "boolop" for x in scale.walk())
        truthy_default = any(x.op == "boolop" for x in scale.walk()) or \
            (bool(gets) and not none_tested and not get_default)
        presence = none_tested or any(
            a.op == "cmp" and a.args[0] in ("In", "NotIn") and
            tm.is_const(a.args[1], "scale")
            for x in scale.walk() if x.op == "ite"
            for a in tm.atoms(x.args[0]))
        has_key = has_key or (none_tested and any(
            a in gets for a in salts))
        if get_default:
            ctx.ob("C07.5", f, True,
                   "JSON transform: scale is data.get('scale', 1): the "
                   "file's value when the key is present, else 1",
                   key="C07.5:json:scale-as-is")
        elif truthy_default:
            ctx.ob("C07.5", f, False,
                   f"JSON transform: scale = {fmt(scale)[:120]} — a "
                   f"truthiness/`get` default replaces a scale of 0 (an "
                   f"invalid Sim(3)) by 1 instead of taking the number in "
                   f"the file and rejecting it",
                   key="C07.5:json:scale-as-is")
        elif has_key and presence and any(tm.is_const(a, 1) for a in salts):
            ctx.ob("C07.5", f, True,
                   "JSON transform: scale is the file's value when the key "
                   "is present, else 1", key="C07.5:json:scale-as-is")
        else:
            ctx.undecidable("C07.5", f, f"JSON scale handling not "
                            f"recognised: {fmt(scale)}")
    else:
        ctx.undecidable("C07.1", f, f"load_transform_json does not return "
                        f"sim3(...): {fmt(ret)}")
    raises = [e for e in r.of_kind("raise")
              if "FileInterfaceException" in (e.data.get("exc_name") or "")]
    keys_checked = set()
    for e in raises:
        for x in e.live.walk():
            if tm.is_const(x) and x.args[1] in TUM[1:]:
                keys_checked.add(x.args[1])
    reads = [e for e in r.of_kind("call") if e.data.get("name") ==
             "numpy.array"]
    ok = keys_checked == set(TUM[1:]) and raises and all(
        raises[0].idx < e.idx for e in reads)
    ctx.ob("C07.5", f, bool(ok),
           "JSON transform: all seven keys are required before any is read"
           if ok else "JSON transform: key presence is not checked for all "
                      "of x y z qx qy qz qw before reading",
           key="C07.5:json:keys")

    g = prog.func(FI + "load_transform")
    extra = extra_defaults(g, g.params[:1])
    ctx.require(extra is not None, "load_transform: signature changed")
    rg = Interp(prog).run(g, dict(extra))
    rets = rg.of_kind("return")
    raises = [e for e in rg.of_kind("raise")
              if "FileInterfaceException" in (e.data.get("exc_name") or "")]
    val = [a for e in raises for a in tm.atoms(e.live)
           if is_call_to(a, "evo.core.lie_algebra.is_sim3")]
    shp = [a for e in raises for a in tm.atoms(e.live)
           if a.op == "cmp" and any(
               x.op == "attr" and x.args[1] == "shape" for x in a.walk())
           and any(x is T("tuple", const(4), const(4)) for x in a.walk())]
    ok = bool(val) and bool(shp) and bool(rets) and all(
        tm.fold(e.live, lambda t: False if t is val[0] else None) is False
        for e in rets) and rg.ret is (
        val[0].args[1][0] if val[0].args[1] else None)
    ctx.ob("C07.5", g, ok,
           "load_transform returns only a 4x4 matrix that passed is_sim3 "
           "(the same object that was validated)" if ok else
           "load_transform can return a matrix that was not validated as "
           "4x4 SE(3)/Sim(3)", key="C07.5:transform:validated")
    disp = tm.strip_ite(rg.ret)
    kinds = {tm.callee_name(a) for a in disp}
    need = {"numpy.load", FI + "load_transform_json", "numpy.loadtxt"}
    ok = need <= kinds
    ctx.ob("C07.1", g, ok,
           "load_transform dispatches to np.load / JSON / np.loadtxt by the "
           "file's magic bytes"
           + (f" (further formats: {sorted(kinds - need)})"
              if kinds - need else "") if ok else
           f"load_transform no longer has a loader for "
           f"{sorted(need - kinds)}: {kinds}", key="C07.1:transform:loaders",
           # (a loader picked from a table / by a computed callee is not
           # read: no evidence that one is missing)
           evidence=None not in kinds)


# ------------------------------------------------------------ ROS messages
def _messages(ctx, prog):
    for name, q_attr, p_attr in (
            ("_get_xyz_quat_from_transform_stamped", "rotation",
             "translation"),
            ("_get_xyz_quat_from_pose_or_odometry_msg", "orientation",
             "position"),
            ("_get_xyz_quat_from_point_msg", None, "point")):
        f = prog.func(FI + name)
        r = Interp(prog).run(f)
        ret = r.ret
        ok = ret.op == "tuple" and len(ret.args) == 2
        if ok:
            xyz, quat = ret.args
            xs = [a.args[1] if a.op == "attr" else None for a in xyz.args] \
                if xyz.op == "list" else None
            ok = xs == ["x", "y", "z"] and all(
                a.args[0].op == "attr" and a.args[0].args[1] == p_attr
                for a in xyz.args)
            if q_attr is not None:
                qs = [a.args[1] if a.op == "attr" else None
                      for a in quat.args] if quat.op == "list" else None
                ok = ok and qs == ["w", "x", "y", "z"] and all(
                    a.args[0].op == "attr" and a.args[0].args[1] == q_attr
                    for a in quat.args)
            else:
                qs = [a.args[1] if tm.is_const(a) else None
                      for a in quat.args] if quat.op == "list" else None
                ok = ok and qs == [1.0, 0.0, 0.0, 0.0]
        ctx.ob("C07.1", f, ok,
               f"{name}: (x, y, z) and quaternion in (w, x, y, z) order"
               if ok else f"{name} returns {fmt(ret)}",
               key=f"C07.1:msg:{name}")


VARIANTS = [
    dict(name="kitti-vstack-idiom", file="evo/tools/file_interface.py",
         find="    poses = [np.array([[r[0], r[1], r[2], r[3]],\n"
              "                       [r[4], r[5], r[6], r[7]],\n"
              "                       [r[8], r[9], r[10], r[11]],\n"
              "                       [0, 0, 0, 1]]) for r in mat]",
         replace="    poses = [np.vstack((r.reshape(3, 4), [0, 0, 0, 1])) for r in mat]",
         expect="silent"),
    dict(name="kitti-vstack-transposed", file="evo/tools/file_interface.py",
         find="    poses = [np.array([[r[0], r[1], r[2], r[3]],\n"
              "                       [r[4], r[5], r[6], r[7]],\n"
              "                       [r[8], r[9], r[10], r[11]],\n"
              "                       [0, 0, 0, 1]]) for r in mat]",
         replace="    poses = [np.vstack((r.reshape(3, 4, order='F'), [0, 0, 0, 1])) for r in mat]",
         expect="fire", rule="C07.1"),
    dict(name="csv-list-idiom", file="evo/tools/file_interface.py",
         find="        reader = csv.reader(generator, delimiter=delim)\n"
              "        mat = [row for row in reader]\n"
              "    elif",
         replace="        mat = list(csv.reader(generator, delimiter=delim))\n"
                 "    elif", expect="silent"),
    dict(name="roll-direction-reader-and-writer",
         edits=[("evo/tools/file_interface.py",
                 "    quat = np.roll(quat, 1, axis=1)  # shift 1 column -> w in front column",
                 "    quat = np.roll(quat, -1, axis=1)  # shift 1 column -> w in front column"),
                ("evo/tools/file_interface.py",
                 "    quat = np.roll(traj.orientations_quat_wxyz, -1, axis=1)",
                 "    quat = np.roll(traj.orientations_quat_wxyz, 1, axis=1)")],
         file="evo/tools/file_interface.py", expect="fire", rule="C07"),
    dict(name="euroc-columns-shifted", file="evo/tools/file_interface.py",
         find="    quat = mat[:, 4:8]  # n x 4",
         replace="    quat = mat[:, 5:9]  # n x 4", expect="fire",
         rule="C07.1"),
    dict(name="kitti-transposed", file="evo/tools/file_interface.py",
         find="    poses = [np.array([[r[0], r[1], r[2], r[3]],\n"
              "                       [r[4], r[5], r[6], r[7]],",
         replace="    poses = [np.array([[r[0], r[4], r[2], r[3]],\n"
                 "                       [r[1], r[5], r[6], r[7]],",
         expect="fire", rule="C07.1"),
    dict(name="tum-guard-lt", file="evo/tools/file_interface.py",
         find="    if not raw_mat or (len(raw_mat) > 0 and len(raw_mat[0]) != 8):",
         replace="    if not raw_mat or (len(raw_mat) > 0 and len(raw_mat[0]) < 8):",
         expect="fire", rule="C07.5"),
    dict(name="kitti-guard-more-than-one-row",
         file="evo/tools/file_interface.py",
         find="    if not raw_mat or (len(raw_mat) > 0 and len(raw_mat[0]) != 12):",
         replace="    if not raw_mat or (len(raw_mat) > 1 and len(raw_mat[0]) != 12):",
         expect="fire", rule="C07.5"),
    dict(name="tum-guard-without-length-test",
         file="evo/tools/file_interface.py",
         find="    if not raw_mat or (len(raw_mat) > 0 and len(raw_mat[0]) != 8):",
         replace="    if not raw_mat or len(raw_mat[0]) != 8:",
         expect="silent"),
    dict(name="conversion-outside-try", file="evo/tools/file_interface.py",
         find="    try:\n        mat = np.array(raw_mat).astype(float)\n    except ValueError:\n"
              "        raise FileInterfaceException(error_msg)\n    stamps = mat[:, 0]  # n x 1\n    xyz = mat[:, 1:4]  # n x 3\n    quat = mat[:, 4:]  # n x 4",
         replace="    mat = np.array(raw_mat).astype(float)\n    stamps = mat[:, 0]  # n x 1\n    xyz = mat[:, 1:4]  # n x 3\n    quat = mat[:, 4:]  # n x 4",
         expect="fire", rule="C07.5"),
    dict(name="swallowed-error", file="evo/tools/file_interface.py",
         find="    try:\n        mat = np.array(raw_mat).astype(float)\n    except ValueError:\n"
              "        raise FileInterfaceException(error_msg)\n    stamps = np.divide(mat[:, 0], 1e9)",
         replace="    try:\n        mat = np.array(raw_mat).astype(float)\n    except ValueError:\n"
                 "        mat = np.array([r[:8] for r in raw_mat]).astype(float)\n    stamps = np.divide(mat[:, 0], 1e9)",
         expect="fire", rule="C07.5"),
    dict(name="euroc-partial-conversion", file="evo/tools/file_interface.py",
         find="    try:\n        mat = np.array(raw_mat).astype(float)\n    except ValueError:\n"
              "        raise FileInterfaceException(error_msg)\n    stamps = np.divide(mat[:, 0], 1e9)",
         replace="    try:\n        mat = np.array([row[:8] for row in raw_mat]).astype(float)\n    except ValueError:\n"
                 "        raise FileInterfaceException(error_msg)\n    stamps = np.divide(mat[:, 0], 1e9)",
         expect="fire", rule="C07.5"),
    dict(name="json-quat-order", file="evo/tools/file_interface.py",
         find="    quat = np.array([data[\"qw\"], data[\"qx\"], data[\"qy\"], data[\"qz\"]])",
         replace="    quat = np.array([data[\"qx\"], data[\"qy\"], data[\"qz\"], data[\"qw\"]])",
         expect="fire", rule="C07.1"),
    dict(name="json-scale-truthy", file="evo/tools/file_interface.py",
         find="    scale = 1 if \"scale\" not in data else data[\"scale\"]",
         replace="    scale = data.get(\"scale\") or 1",
         expect="fire", rule="C07.5"),
    dict(name="bom-skip-two", file="evo/tools/file_interface.py",
         find="                f.seek(3)", replace="                f.seek(2)",
         expect="fire", rule="C07.4"),
    dict(name="handle-keeps-comments", file="evo/tools/file_interface.py",
         find="        generator = (line for line in file_path\n"
              "                     if not line.startswith(comment_str))",
         replace="        generator = (line for line in file_path)",
         expect="fire", rule="C07.4"),
    dict(name="euroc-no-ns-conversion", file="evo/tools/file_interface.py",
         find="    stamps = np.divide(mat[:, 0], 1e9)  # n x 1  -  nanoseconds to seconds",
         replace="    stamps = mat[:, 0]", expect="fire", rule="C07.3"),
    dict(name="slices-via-temporaries", file="evo/tools/file_interface.py",
         find="    quat = mat[:, 4:]  # n x 4\n    quat = np.roll(quat, 1, axis=1)",
         replace="    quat_xyzw = mat[:, 4:8]\n    quat = np.roll(quat_xyzw, 1, axis=1)",
         expect="silent"),
    dict(name="transform-unvalidated", file="evo/tools/file_interface.py",
         find="    if not matrix.shape == (4, 4) or not lie.is_sim3(matrix):",
         replace="    if not matrix.shape == (4, 4):", expect="fire",
         rule="C07.5"),
]
