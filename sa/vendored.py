"""Assumption A4 guard: the vendored evo/core/transformations.py is used as a
*summary source* only (quaternion_matrix takes w,x,y,z; euler_from_matrix's
axis/angle conventions).  The summaries are valid for the vendored code as it
was read; if one of the summarised functions is edited, the rules that rely on
it can no longer decide — reported as undecidable (ANALYSIS-ERROR), never as a
violation and never as a silent pass.  The digest is over the function's AST
without docstring and positions, so formatting / comment / docstring edits do
not trigger it."""
from __future__ import annotations

import ast
import hashlib
import json
import os

HERE = os.path.dirname(os.path.abspath(__file__))
DIGESTS = os.path.join(HERE, "vendored_digests.json")
FUNCS = ("euler_from_matrix", "quaternion_matrix", "quaternion_from_matrix",
         "euler_from_quaternion", "_AXES2TUPLE", "_NEXT_AXIS", "_EPS")


def _digest_node(node: ast.AST) -> str:
    node = ast.parse(ast.unparse(node)).body[0]
    if isinstance(node, ast.FunctionDef) and node.body and isinstance(
            node.body[0], ast.Expr) and isinstance(
            node.body[0].value, ast.Constant) and isinstance(
            node.body[0].value.value, str):
        node.body = node.body[1:] or [ast.Pass()]
    return hashlib.sha256(ast.dump(node, annotate_fields=False,
                                   include_attributes=False)
                          .encode()).hexdigest()[:16]


def current(prog) -> dict:
    m = prog.module("evo.core.transformations")
    out = {}
    for node in m.tree.body:
        name = None
        if isinstance(node, ast.FunctionDef):
            name = node.name
        elif isinstance(node, ast.Assign) and len(node.targets) == 1 and \
                isinstance(node.targets[0], ast.Name):
            name = node.targets[0].id
        if name in FUNCS:
            out[name] = _digest_node(node)
    return out


def check(ctx, rule: str, names) -> None:
    cur = current(ctx.prog)
    ref = json.load(open(DIGESTS))
    for n in names:
        if n not in cur:
            ctx.undecidable(rule, "evo/core/transformations.py",
                            f"vendored `{n}` vanished (summary A4 unusable)")
        elif cur[n] != ref.get(n):
            ctx.undecidable(rule, "evo/core/transformations.py",
                            f"vendored `{n}` was edited: the summary this "
                            f"rule relies on (assumption A4) was derived "
                            f"from the original code and must be re-derived")
        else:
            ctx.ob(rule, f"evo/core/transformations.py ({n})", True,
                   f"vendored `{n}` is the code the summary was derived "
                   f"from (structural digest {cur[n]})",
                   key=f"{rule}:vendored:{n}", nontrivial=False)


if __name__ == "__main__":
    import sys
    sys.path.insert(0, os.path.dirname(HERE))
    from sa.progdb import Program
    json.dump(current(Program()), open(DIGESTS, "w"), indent=1)
    print(open(DIGESTS).read())
