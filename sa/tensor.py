"""E-TEN: entry algebra for small fixed-shape arrays.

Which source entry ends up at which position of an array that is built with
reshape / slicing / stacking / element stores?  The reader and writer of the
KITTI format (12 row-major entries of the 3x4 pose block) can be written per
row with nested lists, with vstack, or vectorised over the whole file with
reshape and block stores — all of them are decided by evaluating the *entry*
at every concrete position (i, j) of a 4x4 (or 12-vector) result and
comparing the provenance.

An array value is described by its shape — a tuple of ints whose first
component may be the symbolic batch size "n" (one entry per row of the file /
per pose) — and by `entry(t, idx)`: the provenance of the element at the
integer index tuple idx (the batch index, where present, is the symbol "p"):

    ("src", name, k...)   entry k... of the named source (one row / pose)
    ("const", v)          a numeric constant
    None                  not known

Sources are registered by the caller: `Tensor(sources={term: (name, shape)})`,
e.g. the float matrix of the file as ("mat", ("n", 12)) or one of its rows as
("row", (12,)).
"""
from __future__ import annotations

from typing import Dict, Optional, Tuple

from . import terms as tm
from .lib import is_call_to
from .terms import T


class TensorError(Exception):
    pass


def _ival(t: T) -> Optional[int]:
    while t.op == "named":
        t = t.args[1]
    if tm.is_const(t) and isinstance(tm.const_val(t), int) and \
            not isinstance(tm.const_val(t), bool):
        return tm.const_val(t)
    if t.op == "unop" and t.args[0] == "USub":
        v = _ival(t.args[1])
        return None if v is None else -v
    return None


def _prod(xs):
    p = 1
    for x in xs:
        p *= x
    return p


class Tensor:
    def __init__(self, sources: Dict[T, Tuple[str, tuple]]):
        self.sources = dict(sources)

    @staticmethod
    def _strip(t: T) -> T:
        """names and identity comprehensions ([x for x in X] is X)"""
        for _ in range(8):
            if t.op == "named":
                t = t.args[1]
            elif t.op == "comp" and t.args[0] in ("list", "gen") and \
                    len(t.args[2]) == 1 and not t.args[3] and \
                    Tensor._uncopy(t.args[1]) is T(
                        "elem", t.args[2][0][0], t.args[2][0][1]):
                t = t.args[2][0][0]
            else:
                break
        return t

    @staticmethod
    def _uncopy(t: T) -> T:
        for _ in range(4):
            if is_call_to(t, ".copy") and tm.method_recv(t) is not None and \
                    not t.args[1]:
                t = tm.method_recv(t)
            elif is_call_to(t, "numpy.array", "numpy.asarray",
                            "numpy.copy") and len(t.args[1]) == 1 and \
                    not t.args[2]:
                t = t.args[1][0]
            else:
                break
        return t

    # ------------------------------------------------------------- shapes
    def shape(self, t: T) -> tuple:
        t = self._strip(t)
        if t in self.sources:
            return self.sources[t][1]
        if tm.is_const(t):
            return ()
        if t.op in ("list", "tuple"):
            if not t.args:
                return (0,)
            inner = self.shape(t.args[0])
            return (len(t.args),) + inner
        if is_call_to(t, "numpy.array", "numpy.asarray", "numpy.copy",
                      "builtins.list", "numpy.asanyarray") and t.args[1]:
            return self.shape(t.args[1][0])
        if is_call_to(t, ".copy", ".astype") and tm.method_recv(t) is not None:
            return self.shape(tm.method_recv(t))
        if is_call_to(t, ".flatten", ".ravel") and \
                tm.method_recv(t) is not None:
            s = self.shape(tm.method_recv(t))
            if s and s[0] == "n":
                raise TensorError("flatten of a batched array")
            return (_prod(s),)
        if is_call_to(t, ".reshape", "numpy.reshape"):
            recv, dims = self._reshape_args(t)
            src = self.shape(recv)
            return self._resolve(dims, src)
        if is_call_to(t, "numpy.zeros", "numpy.ones", "numpy.empty") and \
                t.args[1]:
            a = t.args[1][0]
            items = a.args if a.op in ("tuple", "list") else (a,)
            out = []
            for k, it in enumerate(items):
                v = _ival(it)
                if v is None:
                    if k == 0:
                        out.append("n")      # number of rows / poses
                        continue
                    raise TensorError(f"shape {tm.show(a)}")
                out.append(v)
            return tuple(out)
        if is_call_to(t, "numpy.eye", "numpy.identity") and t.args[1]:
            v = _ival(t.args[1][0])
            if v is None:
                raise TensorError("eye size")
            return (v, v)
        if is_call_to(t, "numpy.vstack") and t.args[1] and \
                t.args[1][0].op in ("tuple", "list"):
            parts = [self._rows2d(self.shape(x)) for x in t.args[1][0].args]
            if len({p[1] for p in parts}) != 1:
                raise TensorError("vstack widths")
            return (sum(p[0] for p in parts), parts[0][1])
        if t.op == "upd":
            return self.shape(t.args[0])
        if t.op == "sub":
            s = self.shape(t.args[0])
            sel = self._selectors(t.args[1], len(s))
            out = []
            for d, sl in zip(s, sel):
                if sl[0] == "int":
                    continue
                out.append(self._slice_len(d, sl))
            return tuple(out)
        if t.op == "elem":
            s = self.shape(t.args[0])
            return s[1:]
        raise TensorError(f"shape of {tm.show(t)[:60]}")

    @staticmethod
    def _rows2d(s):
        if len(s) == 1:
            return (1, s[0])
        if len(s) == 2:
            return s
        raise TensorError("vstack of >2-D")

    def _reshape_args(self, t: T):
        if tm.callee_name(t) == ".reshape":
            recv = tm.method_recv(t)
            a = list(t.args[1])
        else:
            recv, a = t.args[1][0], list(t.args[1][1:])
        if len(a) == 1 and a[0].op in ("tuple", "list"):
            a = list(a[0].args)
        order = dict(t.args[2]).get("order")
        if order is not None and not tm.is_const(order, "C"):
            raise TensorError("reshape with a non-C order")
        dims = [_ival(x) for x in a]
        if dims and dims[0] is None and all(d is not None for d in dims[1:]):
            dims[0] = -1       # a computed leading size: the number of rows
        if any(d is None for d in dims):
            raise TensorError("reshape to non-constant dims")
        return recv, dims

    @staticmethod
    def _resolve(dims, src):
        batched = bool(src) and src[0] == "n"
        per = _prod(src[1:]) if batched else _prod(src)
        if -1 in dims:
            known = _prod(d for d in dims if d != -1)
            if batched:
                # the free dimension absorbs the batch axis iff the rest
                # accounts for exactly one row
                if dims[0] == -1 and known == per:
                    return ("n",) + tuple(dims[1:])
                raise TensorError("reshape mixes the batch axis")
            if known == 0 or per % known:
                raise TensorError("reshape size")
            return tuple(per // known if d == -1 else d for d in dims)
        if batched:
            raise TensorError("reshape of a batched array without -1")
        if _prod(dims) != per:
            raise TensorError("reshape size")
        return tuple(dims)

    def _selectors(self, idx: T, rank: int):
        items = list(idx.args) if idx.op == "tuple" else [idx]
        out = []
        for it in items:
            if it.op == "slice":
                lo, hi, st = (None if z is tm.NONE else _ival(z)
                              for z in it.args)
                if any(z is not tm.NONE and _ival(z) is None
                       for z in it.args) or st not in (None, 1):
                    raise TensorError("slice")
                out.append(("slice", lo, hi))
            else:
                v = _ival(it)
                if v is None:
                    raise TensorError(f"index {tm.show(it)[:40]}")
                out.append(("int", v))
        while len(out) < rank:
            out.append(("slice", None, None))
        if len(out) > rank:
            raise TensorError("too many indices")
        return out

    @staticmethod
    def _slice_len(d, sl):
        _, lo, hi = sl
        if d == "n":
            if lo in (None, 0) and hi is None:
                return "n"
            raise TensorError("partial slice of the batch axis")
        lo = 0 if lo is None else (lo + d if lo < 0 else lo)
        hi = d if hi is None else (hi + d if hi < 0 else hi)
        return max(0, min(hi, d) - lo)

    # ------------------------------------------------------------- entries
    def entry(self, t: T, idx: tuple):
        t = self._strip(t)
        if t in self.sources:
            name, shp = self.sources[t]
            if len(idx) != len(shp):
                raise TensorError("rank")
            return ("src", name) + tuple(idx)
        if tm.is_const(t) and isinstance(tm.const_val(t), (int, float)) \
                and not idx:
            return ("const", float(tm.const_val(t)))
        if tm.is_const(t) and isinstance(tm.const_val(t), (int, float)):
            return ("const", float(tm.const_val(t)))      # broadcast scalar
        if t.op in ("list", "tuple"):
            if not idx:
                raise TensorError("rank")
            return self.entry(t.args[idx[0]], idx[1:])
        if is_call_to(t, "numpy.array", "numpy.asarray", "numpy.copy",
                      "builtins.list", "numpy.asanyarray") and t.args[1]:
            return self.entry(t.args[1][0], idx)
        if is_call_to(t, ".copy", ".astype") and tm.method_recv(t) is not None:
            return self.entry(tm.method_recv(t), idx)
        if is_call_to(t, ".flatten", ".ravel") and \
                tm.method_recv(t) is not None:
            r = tm.method_recv(t)
            return self.entry(r, self._unravel(idx[0], self.shape(r)))
        if is_call_to(t, ".reshape", "numpy.reshape"):
            recv, _ = self._reshape_args(t)
            new, old = self.shape(t), self.shape(recv)
            if new and new[0] == "n":
                flat = self._ravel(idx[1:], new[1:])
                return self.entry(recv, (idx[0],) +
                                  self._unravel(flat, old[1:]))
            return self.entry(recv, self._unravel(self._ravel(idx, new),
                                                  old))
        if is_call_to(t, "numpy.zeros"):
            return ("const", 0.0)
        if is_call_to(t, "numpy.ones"):
            return ("const", 1.0)
        if is_call_to(t, "numpy.eye", "numpy.identity"):
            return ("const", 1.0 if idx[-1] == idx[-2] else 0.0)
        if is_call_to(t, "numpy.vstack"):
            r, c = idx
            for part in t.args[1][0].args:
                s = self._rows2d(self.shape(part))
                if r < s[0]:
                    return self.entry(part, (r, c) if len(
                        self.shape(part)) == 2 else (c,))
                r -= s[0]
            raise TensorError("vstack index")
        if t.op == "upd":
            base, where, val = t.args
            s = self.shape(base)
            sel = self._selectors(where, len(s))
            inner, hit = [], True
            for d, sl, i in zip(s, sel, idx):
                if sl[0] == "int":
                    v = sl[1] + d if (sl[1] < 0 and d != "n") else sl[1]
                    if i != v:
                        hit = False
                        break
                else:
                    _, lo, hi = sl
                    if d == "n":
                        inner.append(i)
                        continue
                    lo = 0 if lo is None else (lo + d if lo < 0 else lo)
                    hi = d if hi is None else (hi + d if hi < 0 else hi)
                    if not (lo <= i < hi):
                        hit = False
                        break
                    inner.append(i - lo)
            if not hit:
                return self.entry(base, idx)
            vs = self.shape(val)
            # numpy broadcasting of the stored value (trailing alignment)
            return self.entry(val, tuple(inner[len(inner) - len(vs):]))
        if t.op == "sub":
            s = self.shape(t.args[0])
            sel = self._selectors(t.args[1], len(s))
            full, it = [], iter(idx)
            for d, sl in zip(s, sel):
                if sl[0] == "int":
                    full.append(sl[1] + d if (sl[1] < 0 and d != "n")
                                else sl[1])
                else:
                    i = next(it)
                    lo = sl[1]
                    if d != "n":
                        lo = 0 if lo is None else (lo + d if lo < 0 else lo)
                        i = i + lo
                    full.append(i)
            return self.entry(t.args[0], tuple(full))
        if t.op == "elem":
            return self.entry(t.args[0], ("p",) + tuple(idx))
        raise TensorError(f"entry of {tm.show(t)[:60]}")

    @staticmethod
    def _ravel(idx, shape):
        f = 0
        for i, d in zip(idx, shape):
            f = f * d + i
        return f

    @staticmethod
    def _unravel(f, shape):
        out = []
        for d in reversed(shape):
            out.append(f % d)
            f //= d
        return tuple(reversed(out))
