"""E-EQV — equivariance typing of point-set arithmetic (abstract interpretation
of provenance terms).

A point-set function f(x, y) (x, y: m x n matrices of n points) is analysed
for how its results change when the inputs are *moved* (x -> x + a 1^T,
y -> y + b 1^T), *scaled* (x -> lx x, y -> ly y), *replicated / permuted*
(columns reordered or the whole set repeated), and for whether coordinates of
the two spaces are ever mixed.  Every term gets an abstract value

  axes     one role per array axis: ("sp", "X") / ("sp", "Y") coordinate axis
           of x- resp. y-space, ("idx",) the point index, ("k",) the singular
           index of an SVD, ("any",) role-polymorphic (identity-like
           matrices), ("one",) broadcast axis
  deg      homogeneity degrees (in lx, in ly, in the replication count)
  wx, wy   translation sensitivity: the result changes by wx . a + wy . b,
           a formal sum of  coefficient * scalar-terms * matrix-terms

Linear operations propagate these exactly; non-linear operations require
translation-invariant operands; reductions over the point index must be
symmetric (whole axis, aligned indices).  A term the domain has no transfer
function for raises Unknown (the caller answers *undecidable*); an operation
that provably breaks an equivariance raises Inequivariant (a violation).
Nothing is executed: the analysis works on the terms the interpreter built
from the current source.
"""
from __future__ import annotations

from dataclasses import dataclass, field, replace
from fractions import Fraction
from typing import Dict, Optional, Tuple

from . import terms as tm
from .terms import T

F = Fraction


class Unknown(Exception):
    """no transfer function: the analysis cannot decide"""


class Inequivariant(Exception):
    def __init__(self, kind: str, msg: str):
        super().__init__(msg)
        self.kind = kind            # move | scale | permute | space | shape
        self.msg = msg


SP_X, SP_Y, IDX, K, ANY, ONE = ("sp", "X"), ("sp", "Y"), ("idx",), ("k",), \
    ("any",), ("one",)

# weight: {(scalar terms (sorted by id), matrix terms in application order):
#          coefficient}; the empty key () means the identity
Weight = Dict[Tuple[Tuple[T, ...], Tuple[T, ...]], Fraction]
OPAQUE = "opaque"       # linear in the offset but not of the M.a form


def w_add(a, b, sign=1):
    if a == OPAQUE or b == OPAQUE:
        return OPAQUE if (a or b) else {}
    out = dict(a)
    for k, v in b.items():
        out[k] = out.get(k, 0) + sign * v
        if out[k] == 0:
            del out[k]
    return out


def w_scale_const(a, c):
    if a == OPAQUE:
        return OPAQUE
    if c == 0:
        return {}
    return {k: v * c for k, v in a.items()}


def w_scale_term(a, s: T, inverse=False):
    if a == OPAQUE or not a:
        return a
    if inverse:
        s = T("recip", s)
    return {(tuple(sorted(k[0] + (s,), key=id)), k[1]): v
            for k, v in a.items()}


def w_apply(a, m: T):
    if a == OPAQUE or not a:
        return a
    return {(k[0], (m,) + k[1]): v for k, v in a.items()}


@dataclass(frozen=True)
class AV:
    axes: Tuple[tuple, ...] = ()
    deg: Tuple[Fraction, Fraction, Fraction] = (F(0), F(0), F(0))
    wx: object = field(default_factory=dict, compare=False)
    wy: object = field(default_factory=dict, compare=False)
    const: Optional[object] = None      # python number for constant scalars
    sym: Optional[str] = None           # "m" / "n" for the two dimensions
    zero: bool = False                  # exact zero array (np.zeros)
    tup: Optional[tuple] = None         # tuple of abstract values
    centred: bool = False               # sums to exactly zero over the points
    pending: bool = False               # invariant only once summed over all
                                        # points (product with a centred one)
    sq: bool = False                    # element-wise squares of coordinates

    @property
    def invariant(self) -> bool:
        return not self.wx and not self.wy

    def weights_equal(self, other: "AV") -> bool:
        return self.wx == other.wx and self.wy == other.wy


def _fmt_axes(axes):
    return "(" + ", ".join("·".join(a) for a in axes) + ")"


def is_transpose_call(t: T) -> bool:
    return t.op == "call" and tm.callee_name(t) in (".transpose",
                                                    "numpy.transpose")


def transpose_arg(t: T) -> T:
    return tm.method_recv(t) if tm.callee_name(t) == ".transpose" \
        else t.args[1][0]


class Analyzer:
    def __init__(self, x: T, y: T, joint_scale: bool = False):
        self.x, self.y = x, y
        self.joint = joint_scale
        self.memo: Dict[int, AV] = {}
        self.loop_index: Dict[int, AV] = {}     # lid -> column selector
        self.loop_rows: Dict[int, bool] = {}    # lid -> iterates the points
        self.stats = {"terms": 0, "linear": 0, "nonlinear": 0,
                      "reductions": 0}

    # ------------------------------------------------------------ helpers
    def same_deg(self, a: AV, b: AV) -> bool:
        if self.joint:
            return a.deg[0] + a.deg[1] == b.deg[0] + b.deg[1] and \
                a.deg[2] == b.deg[2]
        return a.deg == b.deg

    def deg_str(self, a: AV) -> str:
        return f"lx^{a.deg[0]} ly^{a.deg[1]} n^{a.deg[2]}"

    def need_invariant(self, a: AV, what: str, t: T):
        if a.pending:
            raise Unknown(f"{what}: operand is translation invariant only "
                          f"after summation over all points "
                          f"({tm.show(t)[:80]})")
        if a.wx == OPAQUE or a.wy == OPAQUE:
            raise Unknown(f"{what}: operand depends on the position of the "
                          f"points in a way that may cancel "
                          f"({tm.show(t)[:80]})")
        if not a.invariant:
            raise Inequivariant(
                "move", f"{what} is applied to a quantity that changes when "
                f"the point sets are moved ({tm.show(t)[:90]}): the result "
                f"depends on the absolute position of the points")

    def broadcast(self, a: AV, b: AV, t: T) -> Tuple[tuple, ...]:
        xa, xb = list(a.axes), list(b.axes)
        n = max(len(xa), len(xb))
        xa = [ONE] * (n - len(xa)) + xa
        xb = [ONE] * (n - len(xb)) + xb
        out = []
        for p, q in zip(xa, xb):
            if p == ONE:
                out.append(q)
            elif q == ONE or p == q:
                out.append(p)
            elif p == ANY:
                out.append(q)
            elif q == ANY:
                out.append(p)
            elif p[0] == "sp" and q[0] == "sp":
                raise Inequivariant(
                    "space", f"coordinates of x-space and y-space are "
                    f"combined element-wise in {tm.show(t)[:90]}")
            else:
                raise Inequivariant(
                    "shape", f"axes {_fmt_axes(a.axes)} and "
                    f"{_fmt_axes(b.axes)} do not broadcast in "
                    f"{tm.show(t)[:90]}")
        return tuple(out)

    def contract(self, p: tuple, q: tuple, t: T):
        if p == q or ANY in (p, q):
            return
        if p[0] == "sp" and q[0] == "sp":
            raise Inequivariant(
                "space", f"a map acting on {q[1].lower()}-space coordinates "
                f"is combined with {p[1].lower()}-space coordinates in "
                f"{tm.show(t)[:90]} (rotation / transposition mixed up)")
        raise Inequivariant(
            "shape", f"contraction of incompatible axes {'·'.join(p)} and "
            f"{'·'.join(q)} in {tm.show(t)[:90]}")

    # -------------------------------------------------------------- eval
    def ev(self, t: T) -> AV:
        k = id(t)
        if k in self.memo:
            return self.memo[k]
        self.stats["terms"] += 1
        m = getattr(self, "op_" + t.op, None)
        if m is None:
            raise Unknown(f"no transfer function for term kind {t.op!r}: "
                          f"{tm.show(t)[:80]}")
        v = m(t)
        self.memo[k] = v
        return v

    def op_named(self, t):
        return self.ev(t.args[1])

    def op_param(self, t):
        if t is self.x:
            return AV((SP_X, IDX), (F(1), F(0), F(0)), {((), ()): F(1)}, {})
        if t is self.y:
            return AV((SP_Y, IDX), (F(0), F(1), F(0)), {}, {((), ()): F(1)})
        raise Unknown(f"parameter {t.args[0]} has no geometric role")

    def op_const(self, t):
        v = t.args[1]
        if isinstance(v, bool) or not isinstance(v, (int, float)):
            if v is None:
                return AV(const=None, sym="none")
            raise Unknown(f"constant {v!r}")
        return AV(const=v)

    def op_global(self, t):
        n = t.args[0]
        if n == "numpy.newaxis":
            return AV(const=None, sym="none")
        if n in ("numpy.pi", "numpy.e"):
            return AV(const=3.0)
        raise Unknown(f"global {n}")

    def op_tuple(self, t):
        return AV(tup=tuple(self.ev(a) for a in t.args))

    op_list = op_tuple

    def op_attr(self, t):
        base, name = t.args
        if name == "shape":
            b = self.ev(base)
            return AV(tup=tuple(self._dim(a) for a in b.axes))
        if name == "T":
            b = self.ev(base)
            if len(b.axes) > 2:
                raise Unknown(".T of a tensor with more than two axes")
            return replace(b, axes=tuple(reversed(b.axes)))
        if name == "size":
            b = self.ev(base)
            if len(b.axes) == 1:
                return self._dim(b.axes[0])
        raise Unknown(f"attribute .{name}")

    def _dim(self, axis) -> AV:
        if axis == IDX:
            return AV(deg=(F(0), F(0), F(1)), sym="n")
        if axis[0] in ("sp", "any", "k"):
            return AV(sym="m")
        return AV(const=1)

    def op_sub(self, t):
        base, idx = t.args
        b = self.ev(base)
        if b.tup is not None:
            if tm.is_const(idx) and isinstance(idx.args[1], int) and \
                    -len(b.tup) <= idx.args[1] < len(b.tup):
                return b.tup[idx.args[1]]
            raise Unknown("non-constant index into a tuple")
        parts = idx.args if idx.op == "tuple" else (idx,)
        axes = []
        src = list(b.axes)
        pos = 0
        for p in parts:
            if p.op == "slice":
                if pos >= len(src):
                    raise Inequivariant("shape", f"too many indices in "
                                        f"{tm.show(t)[:80]}")
                if not all(a is tm.NONE for a in p.args):
                    if src[pos] == IDX:
                        raise Inequivariant(
                            "permute", f"only a part of the points is used "
                            f"in {tm.show(t)[:80]}: the result depends on "
                            f"the order of the points")
                    raise Unknown(f"partial slice of a coordinate axis in "
                                  f"{tm.show(t)[:80]}")
                axes.append(src[pos])
                pos += 1
                continue
            pv = self._index(p)
            if pv == "newaxis":
                axes.append(ONE)
                continue
            if pos >= len(src):
                raise Inequivariant("shape", f"too many indices in "
                                    f"{tm.show(t)[:80]}")
            ax = src[pos]
            pos += 1
            if pv == "column":
                if ax != IDX:
                    raise Inequivariant(
                        "shape", f"the point index is used on a coordinate "
                        f"axis in {tm.show(t)[:80]}")
                continue            # column i of an aligned loop: axis gone
            if ax == IDX:
                raise Inequivariant(
                    "permute", f"a fixed point is singled out by "
                    f"{tm.show(t)[:80]}: the result depends on the order "
                    f"of the points")
            raise Unknown(f"component access {tm.show(t)[:80]}")
        axes.extend(src[pos:])
        return replace(b, axes=tuple(axes))

    def _index(self, p: T):
        if p.op == "elem":
            lid = p.args[1]
            if self.loop_index.get(lid) is p:
                return "column"
            raise Unknown(f"index {tm.show(p)[:60]} of an unknown loop")
        if tm.is_const(p, None) or (p.op == "global" and
                                    p.args[0] == "numpy.newaxis"):
            return "newaxis"
        if tm.is_const(p):
            return "const"
        if p.op == "binop" and any(x.op == "elem" for x in p.walk()):
            raise Inequivariant(
                "permute", f"points are addressed with a shifted index "
                f"({tm.show(p)[:60]}): columns of the two sets are no longer "
                f"paired / not all points are used")
        return "other"

    # ---------------------------------------------------------- arithmetic
    def op_unop(self, t):
        op, a = t.args
        v = self.ev(a)
        if op == "USub":
            return replace(v, wx=w_scale_const(v.wx, -1),
                           wy=w_scale_const(v.wy, -1),
                           const=-v.const if isinstance(
                               v.const, (int, float)) else None)
        if op == "UAdd":
            return v
        raise Unknown(f"unary {op}")

    def op_binop(self, t):
        op, l, r = t.args
        a, b = self.ev(l), self.ev(r)
        v = self.arith(op, a, b, l, r, t)
        if op == "Sub" and v.tup is None and v.invariant and \
                self._points_minus_mean(l, r):
            v = replace(v, centred=True)
        return v

    def _points_minus_mean(self, l: T, r: T) -> bool:
        """l = P or column i of P, r = the mean of the same P over the
        points (possibly with a broadcast axis): sums to zero over i"""
        P = l
        if P.op == "sub" and P.args[1].op == "tuple" and \
                len(P.args[1].args) == 2 and \
                P.args[1].args[0].op == "slice" and \
                self._index(P.args[1].args[1]) == "column":
            P = P.args[0]
        if P.op == "elem" and self.loop_rows.get(P.args[1]):
            P = P.args[0]
            if P.op == "attr" and P.args[1] == "T":
                P = P.args[0]
            elif is_transpose_call(P):
                P = transpose_arg(P)
            else:
                return False
        pv = self.memo.get(id(P))
        if pv is None:
            try:
                pv = self.ev(P)
            except (Unknown, Inequivariant):
                return False
        if len(pv.axes) != 2 or pv.axes[1] != IDX:
            return False
        mterm = r
        if mterm.op == "sub":
            mterm = mterm.args[0]
        if mterm.op != "call" or tm.callee_name(mterm) not in (
                ".mean", "numpy.mean"):
            return False
        src = tm.method_recv(mterm) if tm.callee_name(mterm) == ".mean" \
            else (mterm.args[1][0] if mterm.args[1] else None)
        if src is not P:
            return False
        mv = self.memo.get(id(mterm))
        return mv is not None and IDX not in mv.axes

    def arith(self, op, a: AV, b: AV, l: T, r: T, t: T) -> AV:
        if a.tup is not None or b.tup is not None:
            if op == "Mult":       # [row] * k list repetition
                raise Unknown("sequence repetition")
            raise Unknown(f"arithmetic on a tuple in {tm.show(t)[:60]}")
        if (a.pending or b.pending) and not (
                op in ("Mult", "Div") and (
                    (a.pending and not b.axes and b.invariant) or
                    (b.pending and not a.axes and a.invariant and
                     op == "Mult"))):
            raise Unknown(f"{tm.show(t)[:80]}: operand is translation "
                          f"invariant only after summation over all points")
        if op in ("Add", "Sub"):
            self.stats["linear"] += 1
            axes = self.broadcast(a, b, t)
            sign = 1 if op == "Add" else -1
            if a.sym in ("m", "n") and isinstance(b.const, int) and \
                    not isinstance(b.const, bool):
                # dimension arithmetic (m - 1, n + 1): a count, not a scale
                sym = a.sym if b.const == 0 else \
                    f"{a.sym}{sign * b.const:+d}"
                return AV((), a.deg, sym=sym)
            if a.zero:
                return replace(b, axes=axes, wx=w_scale_const(b.wx, sign),
                               wy=w_scale_const(b.wy, sign))
            if b.zero:
                return replace(a, axes=axes)
            if not self.same_deg(a, b):
                raise Inequivariant(
                    "scale", f"{tm.show(t)[:100]} adds quantities that "
                    f"scale differently with the inputs "
                    f"({self.deg_str(a)} vs {self.deg_str(b)}): the result "
                    f"is not equivariant under scaling / replicating the "
                    f"point sets")
            c = None
            if isinstance(a.const, (int, float)) and \
                    isinstance(b.const, (int, float)):
                c = a.const + sign * b.const
            return AV(axes, a.deg, w_add(a.wx, b.wx, sign),
                      w_add(a.wy, b.wy, sign), c)
        if op in ("Mult", "Div", "MatMult"):
            if op == "MatMult":
                return self.dot(a, b, l, r, t)
            axes = self.broadcast(a, b, t)
            sgn = 1 if op == "Mult" else -1
            deg = tuple(p + sgn * q for p, q in zip(a.deg, b.deg))
            if op == "Div" and not b.invariant:
                self.need_invariant(b, "division", r)
            if a.invariant and b.invariant:
                c = None
                if isinstance(a.const, (int, float)) and \
                        isinstance(b.const, (int, float)) and \
                        (op == "Mult" or b.const != 0):
                    c = a.const * b.const if op == "Mult" else \
                        a.const / b.const
                keep = (a.centred and not b.axes) or \
                    (b.centred and not a.axes and op == "Mult")
                # v * v: element-wise squares (as np.square / v ** 2)
                sq = op == "Mult" and bool(a.axes) and \
                    self._array_core(l) is self._array_core(r)
                return AV(axes, deg, {}, {}, c, centred=keep and not sq,
                          pending=a.pending or b.pending, sq=sq)
            self.stats["linear"] += 1
            # exactly one weighted factor, the other a scalar
            if not a.invariant and not b.invariant:
                self.stats["nonlinear"] += 1
                self.need_invariant(a, "a product", l)
            w, s, st = (a, b, r) if b.invariant else (b, a, l)
            if s.axes:
                # element-wise product with an invariant *array*: linear in
                # the offset but not of the form M.a
                return AV(axes, deg, OPAQUE if w.wx else {},
                          OPAQUE if w.wy else {})
            if isinstance(s.const, (int, float)):
                c = F(s.const).limit_denominator(10**9)
                if op == "Div":
                    c = 1 / c
                return AV(axes, deg, w_scale_const(w.wx, c),
                          w_scale_const(w.wy, c))
            return AV(axes, deg, w_scale_term(w.wx, st, op == "Div"),
                      w_scale_term(w.wy, st, op == "Div"))
        if op == "Pow":
            if not isinstance(b.const, (int, float)):
                raise Unknown(f"non-constant exponent in {tm.show(t)[:60]}")
            if isinstance(a.const, (int, float)):
                return AV(const=a.const ** b.const)
            self.stats["nonlinear"] += 1
            self.need_invariant(a, "a power", l)
            e = F(b.const).limit_denominator(1000)
            return AV(a.axes, tuple(d * e for d in a.deg), sq=(e == 2))
        raise Unknown(f"operator {op}")

    def _array_core(self, t: T) -> T:
        """t without scalar factors: (c * v) and v have the same core"""
        for _ in range(4):
            if t.op == "binop" and t.args[0] == "Mult":
                va = self.memo.get(id(t.args[1]))
                vb = self.memo.get(id(t.args[2]))
                if va is not None and not va.axes and va.tup is None:
                    t = t.args[2]
                    continue
                if vb is not None and not vb.axes and vb.tup is None:
                    t = t.args[1]
                    continue
            break
        return t

    def dot(self, a: AV, b: AV, l: T, r: T, t: T) -> AV:
        if not a.axes or not b.axes:
            return self.arith("Mult", a, b, l, r, t)
        self.contract(a.axes[-1], b.axes[0] if len(b.axes) <= 2
                      else b.axes[-2], t)
        if a.axes[-1] == IDX or b.axes[0] == IDX:
            self.stats["reductions"] += 1
        la, lb = a.axes[:-1], b.axes[1:]
        # identity-like (role-polymorphic) factors pass the role through
        if b.axes[0] == ANY and lb and lb[-1] == ANY and a.axes[-1] != ANY:
            lb = lb[:-1] + (a.axes[-1],)
        if a.axes[-1] == ANY and la and la[0] == ANY and b.axes[0] != ANY:
            la = (b.axes[0],) + la[1:]
        axes = la + lb
        deg = tuple(p + q for p, q in zip(a.deg, b.deg))
        if a.axes[-1] == IDX:
            deg = (deg[0], deg[1], deg[2] + 1)
        if a.invariant and b.invariant:
            return AV(axes, deg)
        if a.invariant and len(a.axes) == 2 and len(b.axes) == 1:
            self.stats["linear"] += 1
            return AV(axes, deg, w_apply(b.wx, l), w_apply(b.wy, l))
        if a.axes[-1] == IDX:
            # sum over points of (translation-dependent) products
            for c_, o_ in ((a, b), (b, a)):
                if c_.centred and c_.invariant and OPAQUE not in (
                        o_.wx, o_.wy):
                    # sum_i c_i (o_i + w.a)^T = sum_i c_i o_i^T exactly
                    return AV(axes, deg)
            if a.invariant or b.invariant:
                return AV(axes, deg, OPAQUE if (a.wx or b.wx) else {},
                          OPAQUE if (a.wy or b.wy) else {})
        self.stats["nonlinear"] += 1
        self.need_invariant(a, "a matrix product", l)
        self.need_invariant(b, "a matrix product", r)
        return AV(axes, deg)

    # -------------------------------------------------------------- calls
    def op_call(self, t):
        name = tm.callee_name(t) or ""
        args = list(t.args[1])
        kw = dict(t.args[2])
        if name.startswith("."):
            recv = tm.method_recv(t)
            meth = name[1:]
            if meth in ("mean", "sum", "dot", "transpose", "copy", "trace",
                        "astype", "var"):
                return self.np_call(meth, [recv] + args, kw, t)
            raise Unknown(f"method {name}")
        if name.startswith("numpy.linalg."):
            return self.np_call("linalg." + name.split(".")[-1], args, kw, t)
        if name.startswith("numpy."):
            return self.np_call(name.split(".", 1)[1], args, kw, t)
        if name in ("builtins.float", "builtins.abs"):
            return self.ev(args[0])
        if name == "builtins.range":
            return AV(tup=tuple(self.ev(a) for a in args), sym="range")
        if name == "builtins.len":
            v = self.ev(args[0])
            if v.axes:
                return self._dim(v.axes[0])
        raise Unknown(f"call to {name or tm.show(t)[:50]}")

    def _axis(self, kw, args, pos):
        a = kw.get("axis")
        if a is None and len(args) > pos:
            a = args[pos]
        if a is None:
            return None
        if tm.is_const(a) and isinstance(a.args[1], int):
            return a.args[1]
        raise Unknown("non-constant axis")

    def np_call(self, fn: str, args, kw, t: T) -> AV:
        if fn in ("mean", "sum", "average"):
            v = self.ev(args[0])
            ax = self._axis(kw, args, 1)
            keep = kw.get("keepdims")
            keep = keep is not None and tm.is_const(keep, True)
            if not v.axes:
                return v
            which = list(range(len(v.axes))) if ax is None else \
                [ax % len(v.axes)]
            deg = v.deg
            wx, wy = v.wx, v.wy
            for i in which:
                self.stats["reductions"] += 1
                if v.axes[i] == IDX:
                    if fn == "sum":
                        deg = (deg[0], deg[1], deg[2] + 1)
                        n_t = T("n")
                        wx = w_scale_term(wx, n_t)
                        wy = w_scale_term(wy, n_t)
                elif v.axes[i][0] == "sp" and v.sq:
                    pass        # sum of squared coordinates: a squared norm
                elif v.axes[i][0] == "sp":
                    raise Inequivariant(
                        "shape", f"{tm.show(t)[:80]} reduces over the "
                        f"coordinate axis, not over the points: the "
                        f"coordinates of a point are mixed and the "
                        f"result does not have one entry per dimension")
                elif v.axes[i] in (K, ANY) and v.invariant:
                    pass        # sum over the singular directions (a trace)
                else:
                    raise Unknown(f"reduction over axis "
                                  f"{'·'.join(v.axes[i])}")
            axes = tuple(ONE if (i in which and keep) else a
                         for i, a in enumerate(v.axes)
                         if keep or i not in which)
            return AV(axes, deg, wx, wy, sq=v.sq)
        if fn == "linalg.norm":
            v = self.ev(args[0])
            self.stats["nonlinear"] += 1
            self.need_invariant(v, "a norm", args[0])
            ax = self._axis(kw, args, 2)
            which = list(range(len(v.axes))) if ax is None else \
                [ax % len(v.axes)]
            deg = v.deg
            for i in which:
                self.stats["reductions"] += 1
                if v.axes[i] == IDX:
                    deg = (deg[0], deg[1], deg[2] + F(1, 2))
            if ax is not None and v.axes[ax % len(v.axes)][0] != "sp" and \
                    v.axes[ax % len(v.axes)] != IDX:
                raise Unknown("norm over a non-geometric axis")
            axes = tuple(a for i, a in enumerate(v.axes) if i not in which)
            return AV(axes, deg)
        if fn in ("zeros", "zeros_like"):
            shp = self.ev(args[0])
            if shp.tup is None:
                n = 1
            else:
                n = len(shp.tup)
            return AV(tuple([ANY] * n), zero=True)
        if fn in ("eye", "identity"):
            return AV((ANY, ANY))
        if fn in ("ones", "ones_like"):
            # an array of the constant 1 (e.g. the diagonal of a sign matrix)
            shp = self.ev(args[0])
            n = 1 if shp.tup is None else len(shp.tup)
            if fn == "ones_like":
                n = max(1, len(shp.axes))
            return AV(tuple([ANY] * n))
        if fn == "outer":
            a, b = self.ev(args[0]), self.ev(args[1])
            if len(a.axes) != 1 or len(b.axes) != 1:
                raise Unknown("outer product of non-vectors")
            self.stats["nonlinear"] += 1
            deg = tuple(p + q for p, q in zip(a.deg, b.deg))
            if a.invariant and b.invariant:
                return AV((a.axes[0], b.axes[0]), deg,
                          pending=a.pending or b.pending)
            for c_, o_ in ((a, b), (b, a)):
                if c_.centred and c_.invariant and not c_.pending and \
                        OPAQUE not in (o_.wx, o_.wy) and not o_.pending:
                    # the offset term (sum_i c_i) (w.a)^T vanishes once all
                    # points are summed
                    return AV((a.axes[0], b.axes[0]), deg, pending=True)
            if a.invariant or b.invariant:
                return AV((a.axes[0], b.axes[0]), deg,
                          OPAQUE if (a.wx or b.wx) else {},
                          OPAQUE if (a.wy or b.wy) else {})
            self.need_invariant(a, "an outer product", args[0])
        if fn in ("multiply", "divide", "add", "subtract", "true_divide"):
            op = {"multiply": "Mult", "divide": "Div", "true_divide": "Div",
                  "add": "Add", "subtract": "Sub"}[fn]
            return self.arith(op, self.ev(args[0]), self.ev(args[1]),
                              args[0], args[1], t)
        if fn in ("dot", "matmul"):
            return self.dot(self.ev(args[0]), self.ev(args[1]), args[0],
                            args[1], t)
        if fn == "transpose":
            v = self.ev(args[0])
            if len(v.axes) > 2 or len(args) > 1:
                raise Unknown("general transpose")
            return replace(v, axes=tuple(reversed(v.axes)))
        if fn in ("copy", "array", "asarray", "astype"):
            return self.ev(args[0])
        if fn == "linalg.svd":
            v = self.ev(args[0])
            self.stats["nonlinear"] += 1
            self.need_invariant(v, "the SVD", args[0])
            if len(v.axes) != 2:
                raise Unknown("SVD of a non-matrix")
            u = AV((v.axes[0], K))
            d = AV((K,), v.deg)
            vt = AV((K, v.axes[1]))
            return AV(tup=(u, d, vt))
        if fn == "linalg.det":
            v = self.ev(args[0])
            self.stats["nonlinear"] += 1
            self.need_invariant(v, "a determinant", args[0])
            if any(v.deg):
                raise Unknown("determinant of a scaled matrix")
            return AV()
        if fn == "diag":
            v = self.ev(args[0])
            self.need_invariant(v, "diag", args[0])
            if len(v.axes) == 1:
                return AV((v.axes[0], v.axes[0]), v.deg)
            if len(v.axes) == 2:
                self.contract(v.axes[0], v.axes[1], t)
                return AV((v.axes[0],), v.deg)
            raise Unknown("diag of a tensor")
        if fn == "trace":
            v = self.ev(args[0])
            self.need_invariant(v, "a trace", args[0])
            if len(v.axes) != 2:
                raise Unknown("trace of a non-matrix")
            self.contract(v.axes[0], v.axes[1], t)
            return AV((), v.deg)
        if fn in ("sqrt",):
            v = self.ev(args[0])
            self.need_invariant(v, "a square root", args[0])
            return AV(v.axes, tuple(d / 2 for d in v.deg))
        if fn in ("square",):
            v = self.ev(args[0])
            self.need_invariant(v, "a square", args[0])
            return AV(v.axes, tuple(d * 2 for d in v.deg), sq=True)
        if fn == "var":
            v = self.ev(args[0])
            ax = self._axis(kw, args, 1)
            deg = tuple(d * 2 for d in v.deg)
            if ax is None:
                raise Unknown("variance over all axes")
            if v.axes[ax % len(v.axes)] != IDX:
                raise Inequivariant("shape", "variance over the coordinate "
                                    "axis")
            self.stats["reductions"] += 1
            axes = tuple(a for i, a in enumerate(v.axes)
                         if i != ax % len(v.axes))
            # variance is translation invariant; per coordinate it is a
            # mean of squares
            return AV(axes, deg, sq=True)
        raise Unknown(f"numpy function {fn}")

    # ----------------------------------------------------- control / state
    def op_ite(self, t):
        c, a, b = t.args
        self.check_condition(c)
        va, vb = self.ev(a), self.ev(b)
        if va.tup is not None or vb.tup is not None:
            raise Unknown("conditional tuple")
        if va.axes != vb.axes:
            try:
                axes = self.broadcast(va, vb, t)
            except Inequivariant:
                raise Unknown(f"branches of {tm.show(t)[:60]} have different "
                              f"axes")
        else:
            axes = va.axes
        ca = isinstance(va.const, (int, float))
        cb = isinstance(vb.const, (int, float))
        if not (ca and va.const == 0) and not (cb and vb.const == 0) and \
                not self.same_deg(va, vb):
            raise Inequivariant(
                "scale", f"the two branches of {tm.show(t)[:80]} scale "
                f"differently ({self.deg_str(va)} vs {self.deg_str(vb)})")
        if not va.weights_equal(vb):
            raise Inequivariant(
                "move", f"the two branches of {tm.show(t)[:80]} react "
                f"differently to moving the point sets")
        return AV(axes, va.deg, va.wx, va.wy,
                  va.const if ca and cb and va.const == vb.const else None)

    def check_condition(self, c: T):
        """a branch decision inside a returned value must not change when
        the inputs are moved or scaled"""
        for a in tm.atoms(c):
            if a.op == "cmp":
                l, r = self.ev(a.args[1]), self.ev(a.args[2])
                for v, tt in ((l, a.args[1]), (r, a.args[2])):
                    if v.tup is None:
                        self.need_invariant(v, "a branch decision", tt)
                zero = lambda v: isinstance(v.const, (int, float)) and \
                    v.const == 0
                if l.tup is None and r.tup is None and not zero(l) and \
                        not zero(r) and not self.same_deg(l, r):
                    raise Unknown(
                        f"branch decision {tm.show(a)[:80]} compares "
                        f"quantities that scale differently")
            elif a.op in ("param", "const"):
                continue
            else:
                v = self.ev(a)
                if v.tup is None:
                    self.need_invariant(v, "a branch decision", a)

    def op_cmp(self, t):
        self.check_condition(t)
        l = self.ev(t.args[1])
        return AV(l.axes)

    def op_upd(self, t):
        base, idx, val = t.args
        b = self.ev(base)
        v = self.ev(val)
        if isinstance(v.const, (int, float)) and not any(b.deg) and \
                b.invariant:
            if b.axes == (ANY,):
                # a vector of ones with one entry changed: the diagonal of
                # the sign matrix S, indexed by the singular directions — it
                # scales *those*, not the coordinates of a point
                return replace(b, axes=(K,), zero=False)
            return replace(b, zero=False)
        raise Unknown(f"element assignment {tm.show(t)[:70]}")

    def op_loopout(self, t):
        name, lid, init, upd = t.args
        i0 = self.ev(init)
        # the loop index: elem<lid>(range(n))
        idx = [x for x in upd.walk() if x.op == "elem" and x.args[1] == lid]
        if not idx:
            raise Unknown(f"loop {lid} does not address points")
        it = idx[0].args[0]
        if tm.callee_name(it) != "builtins.range":
            # direct iteration over the points: for x_i, y_i in zip(x.T, y.T)
            rows = []
            for e_ in idx:
                sv = self.ev(e_.args[0])
                if sv.tup is not None or not sv.axes or sv.axes[0] != IDX:
                    raise Unknown(f"loop over {tm.show(e_.args[0])[:60]}")
                rows.append(sv)
            self.loop_rows[lid] = True
            return self._accumulate(t, name, lid, i0, upd)
        if not (tm.callee_name(it) == "builtins.range"
                and len(it.args[1]) == 1 and not it.args[2]):
            rng = tm.show(it)[:60]
            if tm.callee_name(it) == "builtins.range":
                raise Inequivariant(
                    "permute", f"the accumulation runs over {rng}, not over "
                    f"all points")
            raise Unknown(f"loop over {rng}")
        bound = self.ev(it.args[1][0])
        if bound.sym != "n":
            if bound.sym and bound.sym.startswith("n"):
                raise Inequivariant(
                    "permute", f"the accumulation runs over "
                    f"{tm.show(it)[:60]}, not over all points")
            raise Unknown(f"loop bound {tm.show(it.args[1][0])[:50]}")
        if any(x is not idx[0] for x in idx):
            raise Unknown("several index forms in one loop")
        self.loop_index[lid] = idx[0]
        return self._accumulate(t, name, lid, i0, upd)

    def _accumulate(self, t, name, lid, i0, upd):
        lv = [x for x in upd.walk() if x.op == "loopvar" and
              x.args[0] == name and x.args[1] == lid]
        if upd.op != "binop" or upd.args[0] != "Add" or not lv:
            raise Unknown(f"loop {lid} is not an accumulation "
                          f"({tm.show(upd)[:60]})")
        body = upd.args[2] if upd.args[1] is lv[0] else (
            upd.args[1] if upd.args[2] is lv[0] else None)
        if body is None or any(x is lv[0] for x in body.walk()):
            raise Unknown("accumulator used inside the summand")
        bv = self.ev(body)
        self.stats["reductions"] += 1
        if not i0.zero:
            if not self.same_deg(i0, bv):
                raise Unknown("accumulator start value")
        axes = self.broadcast(i0, bv, t)
        n_t = T("n")
        # a full symmetric sum: products with a centred factor are now
        # exactly translation invariant
        return AV(axes, (bv.deg[0], bv.deg[1], bv.deg[2] + 1),
                  w_scale_term(bv.wx, n_t), w_scale_term(bv.wy, n_t))

    def op_elem(self, t):
        src, lid = t.args
        if self.loop_rows.get(lid):
            sv = self.ev(src)
            if sv.tup is None and sv.axes and sv.axes[0] == IDX:
                # one point of a full, paired iteration over the points
                return replace(sv, axes=sv.axes[1:])
        raise Unknown(f"bare loop element {tm.show(t)[:50]}")
