import os, sys, json, tempfile, subprocess
home = tempfile.mkdtemp(); os.environ["HOME"] = home
sys.path.insert(0, os.getcwd())
import numpy as np
import evo
print(evo.__file__)
from evo.core.result import Result
from evo.tools import file_interface
d = tempfile.mkdtemp()
for k in range(2):
    r = Result(); r.add_info({"title": "t", "label": "l", "est_name": f"est{k}", "ref_name": "ref"})
    r.add_stats({"rmse": 1.0 + k, "mean": 0.5}); r.add_np_array("error_array", np.arange(3.0))
    file_interface.save_res_file(os.path.join(d, f"r{k}.zip"), r)
cfg = os.path.join(d, "cfg.json"); json.dump({"table_export_format": "json", "table_export_transpose": False}, open(cfg, "w"))
out = os.path.join(d, "table.out")
# the real entry point path: parser -> merge_config -> run
import importlib
from evo import entry_points
mod = importlib.import_module("evo.main_res"); parser = importlib.import_module("evo.main_res_parser").parser()
args = parser.parse_args([os.path.join(d, "r0.zip"), os.path.join(d, "r1.zip"), "--save_table", out, "-c", cfg, "--no_warnings"])
args = entry_points.merge_config(args)
mod.run(args)
txt = open(out).read()
print(txt[:200])
ok = txt.lstrip().startswith("{")
print("json table written (config override effective):", ok)
sys.exit(0 if ok else 1)
